(* C03: cut_out keeps exactly the window [s, en) -- duration, content (at_), well-formedness. *)
From Coq Require Import ZArith List Bool Lia ZifyBool.
From MV Require Import Base.Res Model.EventTree Model.TreeOps Proofs.TreeLemmas.
Import ListNotations.
Open Scope Z_scope.

Lemma check_time_ok s : 0 <= s -> check_time s = Ok tt.
Proof. unfold check_time. intros. destruct (s <? 0) eqn:?; [lia|reflexivity]. Qed.
Lemma check_time_err s : s < 0 -> check_time s = Err EInvalidAbsoluteTime.
Proof. unfold check_time. intros. destruct (s <? 0) eqn:?; [reflexivity|lia]. Qed.
Lemma check_start_end_ok s e : s <= e -> check_start_end s e = Ok tt.
Proof. unfold check_start_end. intros. destruct (e <? s) eqn:?; [lia|reflexivity]. Qed.
Lemma check_start_end_err s e : e < s -> check_start_end s e = Err EInvalidStartAndEnd.
Proof. unfold check_start_end. intros. destruct (e <? s) eqn:?; [reflexivity|lia]. Qed.
Lemma check_start_end_strict_ok s e : s < e -> check_start_end_strict s e = Ok tt.
Proof. unfold check_start_end_strict. intros. destruct (s <? e) eqn:?; [reflexivity|lia]. Qed.
Lemma check_start_end_strict_err s e : e <= s -> check_start_end_strict s e = Err EInvalidStartAndEnd.
Proof. unfold check_start_end_strict. intros. destruct (s <? e) eqn:?; [lia|reflexivity]. Qed.

Lemma cut_out_seq_unfold m cs s en : cut_out (Seq m cs) s en =
  (_ <- check_time s ; _ <- check_start_end s en ; r <- co_seq s en 0 cs ; Ok (Seq m r)).
Proof. reflexivity. Qed.
Lemma cut_out_sim_unfold m cs s en : cut_out (Sim m cs) s en =
  (_ <- check_time s ; _ <- check_start_end s en ; r <- co_sim s en cs ; Ok (Sim m r)).
Proof. reflexivity. Qed.
Lemma cut_out_seq_ok m cs s en : 0 <= s -> s <= en ->
  cut_out (Seq m cs) s en = (r <- co_seq s en 0 cs ; Ok (Seq m r)).
Proof. intros. rewrite cut_out_seq_unfold, check_time_ok, check_start_end_ok by lia. reflexivity. Qed.
Lemma cut_out_sim_ok m cs s en : 0 <= s -> s <= en ->
  cut_out (Sim m cs) s en = (r <- co_sim s en cs ; Ok (Sim m r)).
Proof. intros. rewrite cut_out_sim_unfold, check_time_ok, check_start_end_ok by lia. reflexivity. Qed.
Lemma co_seq_cons s en t0 c r : co_seq s en t0 (c :: r) =
  if (if t0 <? s then s - t0 else 0) <? (if en <? t0 + dur c then dur c - (t0 + dur c - en) else dur c)
  then (c' <- cut_out c (if t0 <? s then s - t0 else 0)
                        (if en <? t0 + dur c then dur c - (t0 + dur c - en) else dur c) ;
        r' <- co_seq s en (t0 + dur c) r ; Ok (c' :: r'))
  else if (dur c =? 0) && (s <=? t0) && (t0 <=? en) then (r' <- co_seq s en (t0 + dur c) r ; Ok (c :: r'))
  else co_seq s en (t0 + dur c) r.
Proof. reflexivity. Qed.
Lemma co_sim_cons s en c r : co_sim s en (c :: r) = (c' <- cut_out c s en ; r' <- co_sim s en r ; Ok (c' :: r')).
Proof. reflexivity. Qed.

(* the duration the property prescribes *)
Definition spec_dur (e : ev) (s en : Z) := Z.max 0 (Z.min en (dur e) - s).

Theorem cutout_dur : forall e s en e', wf e -> 0 <= s -> s <= en ->
  cut_out e s en = Ok e' -> dur e' = spec_dur e s en /\ wf e'.
Proof.
  induction e as [d l|m cs IH|m cs IH] using ev_ind'; intros s en e' Hwf Hs Hse H.
  - unfold spec_dur. simpl in *. unfold leaf_cut_out in H. rewrite check_time_ok in H by lia.
    unfold check_start_end_strict in H. destruct (s <? en) eqn:Ese; simpl in H; [|discriminate].
    destruct (0 <? s) eqn:?, (en <? d) eqn:?;
    match type of H with context [if ?c then _ else _] => destruct c eqn:? end; simpl in H; inversion H; subst; simpl; lia.
  - rewrite cut_out_seq_ok in H by lia.
    destruct (co_seq s en 0 cs) as [r|k] eqn:E; simpl in H; [|discriminate]. inversion H; subst e'; clear H.
    rewrite dur_seq, wf_seq. rewrite wf_seq in Hwf. unfold spec_dur. rewrite dur_seq.
    assert (G : forall t0 r, 0 <= t0 -> co_seq s en t0 cs = Ok r ->
                dsum r = Z.max 0 (Z.min en (t0 + dsum cs) - Z.max s t0) /\ wfs r).
    { clear E r. induction cs as [|c rest IHrest]; intros t0 r Ht0 E.
      - simpl in E. inversion E; subst. simpl. split; [lia|exact I].
      - inversion IH as [|? ? Hc Hrest]; subst. destruct Hwf as [Hwc Hwr].
        specialize (IHrest Hrest Hwr).
        pose proof (dur_nonneg c Hwc) as Hd. pose proof (dsum_nonneg rest Hwr) as Hdr.
        rewrite co_seq_cons in E. rewrite dsum_cons.
        set (d := dur c) in *.
        destruct (t0 <? s) eqn:Ea; destruct (en <? t0 + d) eqn:Eb; cbv zeta in E;
        match type of E with (if ?c then _ else _) = _ => destruct c eqn:Ec end.
        all: try (destruct (cut_out c _ _) as [c'|] eqn:Ecc; simpl in E; [|discriminate];
                  destruct (co_seq s en (t0 + d) rest) as [r'|] eqn:Er; simpl in E; [|discriminate];
                  inversion E; subst r; clear E;
                  apply Hc in Ecc; [|assumption|lia|lia]; destruct Ecc as [Ecc Hwc']; unfold spec_dur in Ecc; fold d in Ecc;
                  apply IHrest in Er; [|lia]; destruct Er as [Er Hwr'];
                  split; [rewrite dsum_cons, Ecc, Er; lia | split; assumption]).
        all: match type of E with (if ?c then _ else _) = _ => destruct c eqn:Ez end.
        all: try (destruct (co_seq s en (t0 + d) rest) as [r'|] eqn:Er; simpl in E; [|discriminate];
                  inversion E; subst r; clear E; apply IHrest in Er; [|lia]; destruct Er as [Er Hwr'];
                  split; [rewrite dsum_cons; fold d; rewrite Er; lia | split; assumption]).
        all: apply IHrest in E; [|lia]; destruct E as [E Hwr']; split; [rewrite E; lia|assumption]. }
    specialize (G 0 r ltac:(lia) E). destruct G as [G1 G2]. split; [rewrite G1; lia|exact G2].
  - rewrite cut_out_sim_ok in H by lia.
    destruct (co_sim s en cs) as [r|k] eqn:E; simpl in H; [|discriminate]. inversion H; subst e'; clear H.
    rewrite dur_sim, wf_sim. rewrite wf_sim in Hwf. unfold spec_dur. rewrite dur_sim.
    revert r E. induction cs as [|c rest IHrest]; intros r E.
    + simpl in E. inversion E; subst. simpl. split; [lia|exact I].
    + inversion IH as [|? ? Hc Hrest]; subst. destruct Hwf as [Hwc Hwr].
      rewrite co_sim_cons in E.
      destruct (cut_out c s en) as [c'|] eqn:Ecc; simpl in E; [|discriminate].
      destruct (co_sim s en rest) as [r'|] eqn:Er; simpl in E; [|discriminate].
      inversion E; subst r; clear E.
      apply Hc in Ecc; auto. destruct Ecc as [Ecc Hwc']. unfold spec_dur in Ecc.
      destruct (IHrest Hrest Hwr r' eq_refl) as [Er' Hwr'].
      pose proof (dur_nonneg c Hwc).
      split; [rewrite !dmax_cons, Ecc, Er'; lia|split; assumption].
Qed.

Theorem cutout_at : forall e s en e', wf e -> 0 <= s -> s <= en ->
  cut_out e s en = Ok e' ->
  forall x, at_ e' x = if (0 <=? x) && (x <? spec_dur e s en) then at_ e (s + x) else None.
Proof.
  induction e as [d l|m cs IH|m cs IH] using ev_ind'; intros s en e' Hwf Hs Hse H x.
  - unfold spec_dur. simpl in *. unfold leaf_cut_out in H. rewrite check_time_ok in H by lia.
    unfold check_start_end_strict in H. destruct (s <? en) eqn:Ese; simpl in H; [|discriminate].
    destruct (0 <? s) eqn:?, (en <? d) eqn:?;
    match type of H with context [if ?c then _ else _] => destruct c eqn:? end; simpl in H; inversion H; subst; simpl;
    repeat match goal with |- context [if ?c then _ else _] => destruct c eqn:? end; auto; lia.
  - rewrite cut_out_seq_ok in H by lia.
    destruct (co_seq s en 0 cs) as [r|k] eqn:E; simpl in H; [|discriminate]. inversion H; subst e'; clear H.
    rewrite !at_seq_eq. rewrite wf_seq in Hwf. unfold spec_dur. rewrite dur_seq.
    assert (G : forall t0 r, 0 <= t0 -> co_seq s en t0 cs = Ok r -> forall x,
                at_seq r x = if (0 <=? x) && (x <? Z.max 0 (Z.min en (t0 + dsum cs) - Z.max s t0))
                             then at_seq cs (Z.max s t0 - t0 + x) else None).
    { clear E r x. induction cs as [|c rest IHrest]; intros t0 r Ht0 E x.
      - simpl in E. inversion E; subst. simpl. destruct (_ && _); reflexivity.
      - inversion IH as [|? ? Hc Hrest]; subst. destruct Hwf as [Hwc Hwr].
        specialize (IHrest Hrest Hwr).
        pose proof (dur_nonneg c Hwc) as Hd. pose proof (dsum_nonneg rest Hwr) as Hdr.
        rewrite co_seq_cons in E. rewrite dsum_cons, at_seq_cons.
        set (d := dur c) in *.
        destruct (t0 <? s) eqn:Ea; destruct (en <? t0 + d) eqn:Eb; cbv beta iota zeta in E;
        match type of E with (if ?c then _ else _) = _ => destruct c eqn:Ec end.
        all: try (destruct (cut_out c _ _) as [c'|] eqn:Ecc; simpl in E; [|discriminate];
                  destruct (co_seq s en (t0 + d) rest) as [r'|] eqn:Er; simpl in E; [|discriminate];
                  inversion E; subst r; clear E;
                  match type of Ecc with cut_out _ ?A ?B = _ =>
                    assert (Ha : 0 <= A) by lia; assert (Hb : A <= B) by lia;
                    pose proof (Hc A B c' Hwc Ha Hb Ecc) as Hat;
                    pose proof (cutout_dur c A B c' Hwc Ha Hb Ecc) as [Edc _] end;
                  unfold spec_dur in Edc; fold d in Edc;
                  unfold spec_dur in Hat; fold d in Hat;
                  assert (Ht1 : 0 <= t0 + d) by lia; pose proof (IHrest (t0 + d) r' Ht1 Er) as Hr;
                  rewrite at_seq_cons, Edc;
                  rewrite Hr; rewrite Hat;
                  repeat match goal with |- context [if ?c then _ else _] => destruct c eqn:? end;
                  try reflexivity; try lia;
                  try (f_equal; lia);
                  try (symmetry; apply at_outside; [assumption|fold d; lia])).
        all: try match type of E with (if ?c then _ else _) = _ => destruct c eqn:Ez end.
        all: try (destruct (co_seq s en (t0 + d) rest) as [r'|] eqn:Er; simpl in E; [|discriminate];
                  inversion E; subst r; clear E; assert (Ht1 : 0 <= t0 + d) by lia; pose proof (IHrest (t0 + d) r' Ht1 Er) as Hr;
                  rewrite at_seq_cons; fold d; rewrite Hr;
                  repeat match goal with |- context [if ?c then _ else _] => destruct c eqn:? end;
                  try reflexivity; try lia; try (f_equal; lia)).
        all: try (assert (Ht1 : 0 <= t0 + d) by lia; pose proof (IHrest (t0 + d) r Ht1 E) as Hr; rewrite Hr;
                  repeat match goal with |- context [if ?c then _ else _] => destruct c eqn:? end;
                  try reflexivity; try lia; try (f_equal; lia);
                  try (symmetry; apply at_outside; [assumption|fold d; lia])).
      }
    specialize (G 0 r ltac:(lia) E x). rewrite G.
    replace (Z.max s 0 - 0 + x) with (s + x) by lia. replace (Z.max s 0) with s by lia.
    replace (0 + dsum cs) with (dsum cs) by lia. reflexivity.
  - rewrite cut_out_sim_ok in H by lia.
    destruct (co_sim s en cs) as [r|k] eqn:E; simpl in H; [|discriminate]. inversion H; subst e'; clear H.
    rewrite !at_sim_eq. rewrite wf_sim in Hwf. unfold spec_dur. rewrite dur_sim.
    assert (G : at_sim x r = if (0 <=? x) && (s + x <? en) then at_sim (s + x) cs else []).
    { revert r E. induction cs as [|c rest IHrest]; intros r E.
      - simpl in E. inversion E; subst. simpl. destruct (_ && _); reflexivity.
      - inversion IH as [|? ? Hc Hrest]; subst. destruct Hwf as [Hwc Hwr].
        rewrite co_sim_cons in E.
        destruct (cut_out c s en) as [c'|] eqn:Ecc; simpl in E; [|discriminate].
        destruct (co_sim s en rest) as [r'|] eqn:Er; simpl in E; [|discriminate].
        inversion E; subst r; clear E.
        pose proof (Hc s en c' Hwc Hs Hse Ecc x) as Hat. unfold spec_dur in Hat.
        specialize (IHrest Hrest Hwr r' eq_refl).
        rewrite !at_sim_cons, Hat, IHrest.
        pose proof (dur_nonneg c Hwc) as Hd.
        destruct ((0 <=? x) && (s + x <? en)) eqn:E1; destruct ((0 <=? x) && (x <? Z.max 0 (Z.min en (dur c) - s))) eqn:E2;
          try reflexivity; try lia.
        all: try (rewrite (at_outside c (s + x) Hwc); [reflexivity|lia]). }
    rewrite G.
    destruct ((0 <=? x) && (s + x <? en)) eqn:E1; destruct ((0 <=? x) && (x <? Z.max 0 (Z.min en (dmax cs) - s))) eqn:E2;
      try reflexivity; try lia.
    rewrite at_sim_outside; [reflexivity|assumption|lia].
Qed.

(* argument validation *)
Theorem cutout_negative_start e s en : s < 0 -> cut_out e s en = Err EInvalidAbsoluteTime.
Proof.
  intros H. destruct e as [d l|m cs|m cs].
  - simpl. unfold leaf_cut_out. rewrite check_time_err by lia. reflexivity.
  - rewrite cut_out_seq_unfold, check_time_err by lia. reflexivity.
  - rewrite cut_out_sim_unfold, check_time_err by lia. reflexivity.
Qed.
Theorem cutout_end_before_start e s en : 0 <= s -> en < s -> cut_out e s en = Err EInvalidStartAndEnd.
Proof.
  intros H0 H. destruct e as [d l|m cs|m cs].
  - simpl. unfold leaf_cut_out. rewrite check_time_ok, check_start_end_strict_err by lia. reflexivity.
  - rewrite cut_out_seq_unfold, check_time_ok, check_start_end_err by lia. reflexivity.
  - rewrite cut_out_sim_unfold, check_time_ok, check_start_end_err by lia. reflexivity.
Qed.

(* ---- how a missed leaf is treated *)
Lemma leaf_cut_out_ok d s en : 0 <= s -> s < en -> s < d -> leaf_cut_out d s en = Ok (Z.min en d - s).
Proof.
  intros. unfold leaf_cut_out. rewrite check_time_ok, check_start_end_strict_ok by lia. cbn [bind].
  destruct (0 <? s) eqn:?, (en <? d) eqn:?;
  match goal with |- context [if ?c then _ else _] => destruct c eqn:? end; try lia; f_equal; lia.
Qed.
Lemma leaf_cut_out_missed d s en : 0 <= d -> 0 <= s -> s < en -> d <= s -> leaf_cut_out d s en = Err EInvalidCutOut.
Proof.
  intros. unfold leaf_cut_out. rewrite check_time_ok, check_start_end_strict_ok by lia. cbn [bind].
  destruct (0 <? s) eqn:?, (en <? d) eqn:?;
  match goal with |- context [if ?c then _ else _] => destruct c eqn:? end; try lia; reflexivity.
Qed.
Theorem cutout_leaf_missed_rejected : forall d l s en, 0 <= d -> 0 <= s -> s < en -> d <= s ->
  cut_out (Leaf d l) s en = Err EInvalidCutOut /\
  forall m, cut_out (Sim m [Leaf d l]) s en = Err EInvalidCutOut.
Proof.
  intros d l s en Hd Hs Hse Hds. assert (H : cut_out (Leaf d l) s en = Err EInvalidCutOut).
  { cbn [cut_out]. rewrite leaf_cut_out_missed by lia. reflexivity. }
  split; [exact H|]. intros m. rewrite cut_out_sim_ok by lia. rewrite co_sim_cons, H. reflexivity.
Qed.
Theorem cutout_leaf_missed_in_sequence_removed : forall m d l d2 l2 s en, 0 < d -> 0 < d2 -> d <= s -> s < en -> en <= d + d2 ->
  cut_out (Seq m [Leaf d l; Leaf d2 l2]) s en = Ok (Seq m [Leaf (en - s) l2]).
Proof.
  intros m d l d2 l2 s en Hd Hd2 Hds Hse Hen. rewrite cut_out_seq_ok by lia.
  rewrite co_seq_cons. cbn [dur].
  destruct (0 <? s) eqn:E1; [|lia]. destruct (en <? 0 + d) eqn:E2; [lia|].
  destruct (s - 0 <? d) eqn:E3; [lia|]. destruct ((d =? 0) && (s <=? 0) && (0 <=? en)) eqn:E4; [lia|].
  rewrite co_seq_cons. cbn [dur co_seq].
  destruct (0 + d <? s) eqn:E5; destruct (en <? 0 + d + d2) eqn:E6;
  match goal with |- context [if ?c then _ else _] => destruct c eqn:E7 end; try lia.
  all: cbv beta iota; cbn [cut_out]; rewrite leaf_cut_out_ok by lia; cbn [bind]; do 4 f_equal; lia.
Qed.
