(* Proofs about M3 (Model/IdTree.v): event trees with object identities.
   1. the once-per-object traversal (set_parameter / mutate_parameter / duration setter)
   2. trees without sharing are consistent
   3. parameter reads per position
   4. the duration setter of containers
   5. examples on a DAG-shaped tree *)
From Coq Require Import ZArith QArith Qabs List Bool Lia Lqa.
From MV Require Import Base.Res Model.Numbers Model.IdTree Proofs.NumbersP.
Import ListNotations.
Open Scope Z_scope.

(* ------------------------------------------------------------------ *)
(* 0. induction principle, named inner fixes, unfolding equations      *)
(* ------------------------------------------------------------------ *)
Lemma iev_ind' (P : iev -> Prop)
  (HL : forall i, P (ILeaf i))
  (HN : forall i k cs, Forall P cs -> P (INode i k cs)) : forall e, P e.
Proof.
  fix IH 1. intros [i|i k cs]; [apply HL|apply HN].
  induction cs as [|c r IHr]; constructor; auto.
Qed.

Definition all_ids_list := fix go (l : list iev) : list nat :=
  match l with [] => [] | c :: r => all_ids c ++ go r end.
Definition subterms_list := fix go (l : list iev) : list iev :=
  match l with [] => [] | c :: r => subterms c ++ go r end.

Lemma leaf_positions_node i k cs : leaf_positions (INode i k cs) = leaf_positions_list cs.
Proof. reflexivity. Qed.
Lemma leaf_positions_list_cons c r : leaf_positions_list (c :: r) = leaf_positions c ++ leaf_positions_list r.
Proof. reflexivity. Qed.
Lemma all_ids_node i k cs : all_ids (INode i k cs) = i :: all_ids_list cs.
Proof. reflexivity. Qed.
Lemma all_ids_list_cons c r : all_ids_list (c :: r) = all_ids c ++ all_ids_list r.
Proof. reflexivity. Qed.
Lemma subterms_node i k cs : subterms (INode i k cs) = INode i k cs :: subterms_list cs.
Proof. reflexivity. Qed.
Lemma subterms_leaf i : subterms (ILeaf i) = [ILeaf i].
Proof. reflexivity. Qed.
Lemma subterms_list_cons c r : subterms_list (c :: r) = subterms c ++ subterms_list r.
Proof. reflexivity. Qed.
Lemma apply_once_node upd i k cs st : apply_once upd (INode i k cs) st = apply_children upd cs st.
Proof. reflexivity. Qed.
Lemma apply_once_dur_node upd i k cs st : apply_once_dur upd (INode i k cs) st = apply_children_dur upd cs st.
Proof. reflexivity. Qed.

Lemma memn_In x l : memn x l = true <-> In x l.
Proof.
  induction l as [|y r IH]; simpl.
  - split; [discriminate|tauto].
  - rewrite orb_true_iff, IH, Nat.eqb_eq. split; intros [H|H]; auto.
Qed.
Lemma memn_nIn x l : memn x l = false <-> ~ In x l.
Proof. rewrite <- memn_In. destruct (memn x l); split; congruence. Qed.

(* ------------------------------------------------------------------ *)
(* subterms, identities, leaf positions                                *)
(* ------------------------------------------------------------------ *)
Lemma subterms_self e : In e (subterms e).
Proof. destruct e; simpl; auto. Qed.

Lemma in_subterms_list n l : In n (subterms_list l) <-> exists c, In c l /\ In n (subterms c).
Proof.
  induction l as [|c r IH].
  - simpl. split; [tauto|intros (c & [] & _)].
  - rewrite subterms_list_cons, in_app_iff, IH. split.
    + intros [H|(c' & H1 & H2)]; [exists c; simpl; auto|exists c'; simpl; auto].
    + intros (c' & [<-|H1] & H2); [auto|right; eauto].
Qed.

Lemma in_all_ids_list x l : In x (all_ids_list l) <-> exists c, In c l /\ In x (all_ids c).
Proof.
  induction l as [|c r IH].
  - simpl. split; [tauto|intros (c & [] & _)].
  - rewrite all_ids_list_cons, in_app_iff, IH. split.
    + intros [H|(c' & H1 & H2)]; [exists c; simpl; auto|exists c'; simpl; auto].
    + intros (c' & [<-|H1] & H2); [auto|right; eauto].
Qed.

Lemma in_leaf_positions_list x l : In x (leaf_positions_list l) <-> exists c, In c l /\ In x (leaf_positions c).
Proof.
  induction l as [|c r IH].
  - simpl. split; [tauto|intros (c & [] & _)].
  - rewrite leaf_positions_list_cons, in_app_iff, IH. split.
    + intros [H|(c' & H1 & H2)]; [exists c; simpl; auto|exists c'; simpl; auto].
    + intros (c' & [<-|H1] & H2); [auto|right; eauto].
Qed.

(* identities = identities of the subterms *)
Lemma all_ids_subterms e : forall x, In x (all_ids e) <-> exists n, In n (subterms e) /\ iid n = x.
Proof.
  induction e as [i|i k cs IH] using iev_ind'; intros x.
  - simpl. split.
    + intros [<-|[]]. exists (ILeaf i); auto.
    + intros (n & [<-|[]] & <-). auto.
  - rewrite all_ids_node, subterms_node. simpl In. rewrite in_all_ids_list. split.
    + intros [<-|(c & Hc & Hx)].
      * exists (INode i k cs); auto.
      * rewrite Forall_forall in IH. apply (IH c Hc) in Hx. destruct Hx as (n & Hn & <-).
        exists n; split; auto. right. apply in_subterms_list; eauto.
    + intros (n & [<-|Hn] & <-); [left; reflexivity|].
      right. apply in_subterms_list in Hn. destruct Hn as (c & Hc & Hn).
      exists c; split; auto. rewrite Forall_forall in IH. apply (IH c Hc). eauto.
Qed.

Lemma all_ids_list_subterms l x :
  In x (all_ids_list l) <-> exists n, In n (subterms_list l) /\ iid n = x.
Proof.
  rewrite in_all_ids_list. split.
  - intros (c & Hc & Hx). apply all_ids_subterms in Hx. destruct Hx as (n & Hn & <-).
    exists n; split; auto. apply in_subterms_list; eauto.
  - intros (n & Hn & <-). apply in_subterms_list in Hn. destruct Hn as (c & Hc & Hn).
    exists c; split; auto. apply all_ids_subterms; eauto.
Qed.

(* leaf positions = leaves among the subterms *)
Lemma leaf_positions_subterms e : forall x, In x (leaf_positions e) <-> In (ILeaf x) (subterms e).
Proof.
  induction e as [i|i k cs IH] using iev_ind'; intros x.
  - simpl. split; intros [H|[]]; left; congruence.
  - rewrite leaf_positions_node, subterms_node, in_leaf_positions_list. simpl In.
    rewrite in_subterms_list. rewrite Forall_forall in IH. split.
    + intros (c & Hc & Hx). right. exists c; split; auto. apply IH; auto.
    + intros [H|(c & Hc & Hx)]; [discriminate|]. exists c; split; auto. apply IH; auto.
Qed.

Lemma leaf_positions_list_subterms l x :
  In x (leaf_positions_list l) <-> In (ILeaf x) (subterms_list l).
Proof.
  rewrite in_leaf_positions_list, in_subterms_list.
  split; intros (c & Hc & Hx); exists c; split; auto; apply leaf_positions_subterms; auto.
Qed.

Lemma subterms_trans c : forall n m, In n (subterms c) -> In m (subterms n) -> In m (subterms c).
Proof.
  induction c as [i|i k cs IH] using iev_ind'; intros n m Hn Hm.
  - simpl in Hn. destruct Hn as [<-|[]]. exact Hm.
  - rewrite subterms_node in Hn. destruct Hn as [<-|Hn]; [exact Hm|].
    rewrite subterms_node. right. apply in_subterms_list in Hn. destruct Hn as (c & Hc & Hn).
    apply in_subterms_list. exists c; split; auto.
    rewrite Forall_forall in IH. eapply IH; eauto.
Qed.

Lemma subterms_ids_incl c n : In n (subterms c) -> incl (all_ids n) (all_ids c).
Proof.
  intros Hn x Hx. apply all_ids_subterms in Hx. destruct Hx as (m & Hm & <-).
  apply all_ids_subterms. exists m; split; auto. eapply subterms_trans; eauto.
Qed.

(* a strict subterm is smaller *)
Fixpoint isize (e : iev) : nat :=
  match e with
  | ILeaf _ => 1
  | INode _ _ cs => S ((fix go l := match l with [] => O | c :: r => isize c + go r end) cs)
  end%nat.
Definition isize_list := fix go (l : list iev) : nat :=
  match l with [] => O | c :: r => isize c + go r end%nat.
Lemma isize_node i k cs : isize (INode i k cs) = S (isize_list cs).
Proof. reflexivity. Qed.

Lemma subterms_size e : forall n, In n (subterms e) -> (isize n <= isize e)%nat.
Proof.
  induction e as [i|i k cs IH] using iev_ind'; intros n Hn.
  - simpl in Hn. destruct Hn as [<-|[]]. auto.
  - rewrite subterms_node in Hn. destruct Hn as [<-|Hn]; [auto|].
    rewrite isize_node. apply in_subterms_list in Hn. destruct Hn as (c & Hc & Hn).
    rewrite Forall_forall in IH. pose proof (IH c Hc n Hn) as H1.
    assert (H2 : (isize c <= isize_list cs)%nat).
    { clear - Hc. induction cs as [|c' r IHr]; [destruct Hc|].
      simpl. destruct Hc as [->|Hc]; [lia|]. specialize (IHr Hc). lia. }
    lia.
Qed.

Lemma strict_subterm_neq i k cs n : In n (subterms_list cs) -> n <> INode i k cs.
Proof.
  intros Hn ->. apply in_subterms_list in Hn. destruct Hn as (c & Hc & Hn).
  apply subterms_size in Hn. rewrite isize_node in Hn.
  assert (H2 : (isize c <= isize_list cs)%nat).
  { clear - Hc. induction cs as [|c' r IHr]; [destruct Hc|].
    simpl. destruct Hc as [->|Hc]; [lia|]. specialize (IHr Hc). lia. }
  lia.
Qed.

(* ------------------------------------------------------------------ *)
(* 1. the once-per-object traversal, generic in the heap's value type  *)
(* ------------------------------------------------------------------ *)
Section Traversal.
  Variable V : Type.
  Variable upd : V -> V.

  Fixpoint apply_once_g (e : iev) (st : list nat * heap V) : list nat * heap V :=
    match e with
    | ILeaf i => (fst st, hupd (snd st) i (upd (snd st i)))
    | INode _ _ cs =>
        (fix go (l : list iev) (st : list nat * heap V) : list nat * heap V :=
           match l with
           | [] => st
           | c :: r =>
             if memn (iid c) (fst st) then go r st
             else go r (apply_once_g c (iid c :: fst st, snd st))
           end) cs st
    end.
  Definition apply_children_g :=
    fix go (l : list iev) (st : list nat * heap V) : list nat * heap V :=
           match l with
           | [] => st
           | c :: r =>
             if memn (iid c) (fst st) then go r st
             else go r (apply_once_g c (iid c :: fst st, snd st))
           end.
  Lemma apply_once_g_node i k cs st : apply_once_g (INode i k cs) st = apply_children_g cs st.
  Proof. reflexivity. Qed.
  Lemma apply_children_g_cons c r st :
    apply_children_g (c :: r) st =
    if memn (iid c) (fst st) then apply_children_g r st
    else apply_children_g r (apply_once_g c (iid c :: fst st, snd st)).
  Proof. reflexivity. Qed.

  (* the context: a consistent tree R all of whose subterms we may meet *)
  Variable R : iev.
  Hypothesis HR : consistent R.

  (* an identity is a leaf's or a container's, never both *)
  Lemma leaf_node_disjoint j i k cs :
    In (ILeaf j) (subterms R) -> In (INode i k cs) (subterms R) -> j <> i.
  Proof. intros H1 H2 E. pose proof (HR _ _ H1 H2 E). discriminate. Qed.

  (* every container identity in the set has been processed completely *)
  Definition closed_for (l : list iev) (vis : list nat) : Prop :=
    forall n, In n (subterms_list l) -> In (iid n) vis -> incl (all_ids n) vis.

  (* the invariant of the traversal of a list of children *)
  Definition children_spec (l : list iev) : Prop :=
    forall vis h,
      incl (subterms_list l) (subterms R) ->
      closed_for l vis ->
      let st' := apply_children_g l (vis, h) in
      (forall x, In x (fst st') <-> In x vis \/ In x (all_ids_list l)) /\
      (forall j, In j (leaf_positions_list l) -> ~ In j vis -> snd st' j = upd (h j)) /\
      (forall j, ~ In j (leaf_positions_list l) \/ In j vis -> snd st' j = h j).

  Lemma children_spec_all : forall l, Forall (fun c => children_spec (ichildren c)) l -> children_spec l.
  Proof.
    induction l as [|c r IHr]; intros HF.
    - intros vis h _ _. simpl. repeat split; auto; try tauto.
    - inversion HF as [|? ? Hc Hr]; subst. specialize (IHr Hr). clear HF Hr.
      intros vis h Hsub Hcl. rewrite apply_children_g_cons. simpl fst; simpl snd.
      assert (Hsubc : incl (subterms c) (subterms R)).
      { intros n Hn. apply Hsub. rewrite subterms_list_cons. apply in_or_app; auto. }
      assert (Hsubr : incl (subterms_list r) (subterms R)).
      { intros n Hn. apply Hsub. rewrite subterms_list_cons. apply in_or_app; auto. }
      destruct (memn (iid c) vis) eqn:M.
      + (* the child's identity is in the set: skipped *)
        apply memn_In in M.
        assert (Hidc : incl (all_ids c) vis).
        { apply Hcl; auto. rewrite subterms_list_cons. apply in_or_app; left. apply subterms_self. }
        assert (Hclr : closed_for r vis).
        { intros n Hn. apply Hcl. rewrite subterms_list_cons. apply in_or_app; auto. }
        destruct (IHr vis h Hsubr Hclr) as (I1 & I2 & I3).
        split; [|split].
        * intros x. rewrite I1, all_ids_list_cons, in_app_iff. split; [tauto|].
          intros [H|[H|H]]; auto.
        * intros j Hj Hnj. rewrite leaf_positions_list_cons, in_app_iff in Hj.
          destruct Hj as [Hj|Hj]; [|auto].
          exfalso. apply Hnj. apply Hidc. apply all_ids_subterms.
          exists (ILeaf j); split; auto. apply leaf_positions_subterms; auto.
        * intros j Hj. apply I3. rewrite leaf_positions_list_cons, in_app_iff in Hj. tauto.
      + apply memn_nIn in M.
        destruct c as [i|i k cs].
        * (* an unvisited leaf: edited, identity added *)
          simpl iid in *. simpl apply_once_g.
          assert (Hclr : closed_for r (i :: vis)).
          { intros n Hn Hin. destruct Hin as [E|Hin].
            - (* n has the leaf's identity, so it is the leaf *)
              assert (n = ILeaf i).
              { apply HR; auto. apply Hsubc. apply subterms_self. }
              subst n. simpl. intros x [<-|[]]. left; reflexivity.
            - apply incl_tl. apply Hcl; auto. rewrite subterms_list_cons. apply in_or_app; auto. }
          destruct (IHr (i :: vis) (hupd h i (upd (h i))) Hsubr Hclr) as (I1 & I2 & I3).
          split; [|split].
          -- intros x. rewrite I1, all_ids_list_cons, in_app_iff. simpl. tauto.
          -- intros j Hj Hnj. rewrite leaf_positions_list_cons, in_app_iff in Hj. simpl in Hj.
             destruct (Nat.eq_dec j i) as [->|Hne].
             ++ rewrite I3 by (right; left; reflexivity). unfold hupd. rewrite Nat.eqb_refl. reflexivity.
             ++ destruct Hj as [[E|[]]|Hj]; [congruence|].
                rewrite I2; auto.
                ** unfold hupd. apply Nat.eqb_neq in Hne. rewrite Hne. reflexivity.
                ** intros [E|H]; [congruence|auto].
          -- intros j Hj. rewrite leaf_positions_list_cons, in_app_iff in Hj. simpl in Hj.
             assert (Hne : j <> i) by (intros ->; tauto).
             rewrite I3.
             ++ unfold hupd. apply Nat.eqb_neq in Hne. rewrite Hne. reflexivity.
             ++ destruct Hj as [Hj|Hj]; [left; tauto|right; right; auto].
        * (* an unvisited container: identity added, recursion with the same set *)
          simpl iid in *. rewrite apply_once_g_node. simpl ichildren in Hc.
          assert (HcR : In (INode i k cs) (subterms R)) by (apply Hsubc; apply subterms_self).
          assert (Hsubcs : incl (subterms_list cs) (subterms R)).
          { intros n Hn. apply Hsubc. rewrite subterms_node. right; auto. }
          assert (Hclcs : closed_for cs (i :: vis)).
          { intros n Hn [E|Hin].
            - exfalso. assert (n = INode i k cs) by (apply HR; auto).
              eapply strict_subterm_neq; eauto.
            - apply incl_tl. apply Hcl; auto. rewrite subterms_list_cons, subterms_node.
              apply in_or_app; left; right; auto. }
          pose proof (Hc (i :: vis) h Hsubcs Hclcs) as Hc'. cbv zeta in Hc'.
          destruct (apply_children_g cs (i :: vis, h)) as [vis1 h1] eqn:E1.
          simpl fst in Hc'; simpl snd in Hc'. destruct Hc' as (C1 & C2 & C3).
          assert (Hvis1 : forall x, In x vis1 <-> In x vis \/ In x (all_ids (INode i k cs))).
          { intros x. rewrite C1, all_ids_node. simpl. tauto. }
          assert (Hclr : closed_for r vis1).
          { intros n Hn Hin. apply Hvis1 in Hin. destruct Hin as [Hin|Hin].
            - intros x Hx. apply Hvis1. left. revert x Hx. apply Hcl; auto.
              rewrite subterms_list_cons. apply in_or_app; auto.
            - apply all_ids_subterms in Hin. destruct Hin as (m & Hm & Em).
              assert (m = n) by (apply HR; auto). subst m.
              intros x Hx. apply Hvis1. right. eapply subterms_ids_incl; eauto. }
          destruct (IHr vis1 h1 Hsubr Hclr) as (I1 & I2 & I3).
          split; [|split].
          -- intros x. rewrite I1, Hvis1, all_ids_list_cons, in_app_iff. tauto.
          -- intros j Hj Hnj. rewrite leaf_positions_list_cons, in_app_iff, leaf_positions_node in Hj.
             assert (Hji : In (ILeaf j) (subterms R) -> j <> i).
             { intros HjR. eapply leaf_node_disjoint; eauto. }
             destruct (in_dec Nat.eq_dec j (leaf_positions_list cs)) as [Hjc|Hjc].
             ++ (* reached below this child *)
                assert (HjR : In (ILeaf j) (subterms R)).
                { apply Hsubcs. apply leaf_positions_list_subterms; auto. }
                rewrite I3.
                ** apply C2; auto. intros [E|H]; [apply Hji; auto|auto].
                ** right. apply C1. right. apply all_ids_list_subterms.
                   exists (ILeaf j); split; auto. apply leaf_positions_list_subterms; auto.
             ++ destruct Hj as [Hj|Hj]; [contradiction|].
                assert (HjR : In (ILeaf j) (subterms R)).
                { apply Hsubr. apply leaf_positions_list_subterms; auto. }
                rewrite I2; auto.
                ** f_equal. apply C3. left; auto.
                ** intros Hin. apply Hvis1 in Hin. destruct Hin as [Hin|Hin]; [auto|].
                   apply all_ids_subterms in Hin. destruct Hin as (m & Hm & Em).
                   assert (m = ILeaf j) by (apply HR; auto). subst m.
                   rewrite subterms_node in Hm. destruct Hm as [Hm|Hm]; [discriminate|].
                   apply Hjc. apply leaf_positions_list_subterms; auto.
          -- intros j Hj. rewrite leaf_positions_list_cons, in_app_iff, leaf_positions_node in Hj.
             destruct Hj as [Hj|Hj].
             ++ rewrite I3 by (left; tauto). apply C3. left; tauto.
             ++ rewrite I3 by (right; apply Hvis1; auto). apply C3. right; right; auto.
  Qed.

  Lemma children_spec_ichildren : forall e, children_spec (ichildren e).
  Proof.
    induction e as [i|i k cs IH] using iev_ind'.
    - apply children_spec_all. constructor.
    - simpl ichildren. apply children_spec_all. exact IH.
  Qed.
End Traversal.

(* the traversal started at a consistent container with an empty identity set *)
Theorem apply_once_g_spec : forall (V : Type) (upd : V -> V) i k cs (h : heap V),
  consistent (INode i k cs) ->
  let h' := snd (apply_once_g V upd (INode i k cs) ([], h)) in
  (forall j, In j (leaf_positions (INode i k cs)) -> h' j = upd (h j)) /\
  (forall j, ~ In j (leaf_positions (INode i k cs)) -> h' j = h j).
Proof.
  intros V upd i k cs h HR. cbv zeta. rewrite apply_once_g_node, leaf_positions_node.
  pose proof (children_spec_ichildren V upd (INode i k cs) HR (INode i k cs)) as H.
  simpl ichildren in H. specialize (H [] h).
  destruct H as (_ & H2 & H3).
  - intros n Hn. rewrite subterms_node. right; auto.
  - intros n _ [].
  - split; intros j Hj; [apply H2|apply H3]; auto.
Qed.

(* the model's two instances are the generic traversal *)
Lemma apply_once_is_g upd : forall e st, apply_once upd e st = apply_once_g (option Z) upd e st.
Proof.
  induction e as [i|i k cs IH] using iev_ind'; intros st; [reflexivity|].
  rewrite apply_once_node, apply_once_g_node. revert st.
  induction cs as [|c r IHr]; intros st; [reflexivity|].
  inversion IH as [|? ? Hc Hr]; subst.
  change (apply_children upd (c :: r) st) with
    (if memn (iid c) (fst st) then apply_children upd r st
     else apply_children upd r (apply_once upd c (iid c :: fst st, snd st))).
  rewrite apply_children_g_cons, Hc, !(IHr Hr). reflexivity.
Qed.

Lemma apply_once_dur_is_g upd : forall e st, apply_once_dur upd e st = apply_once_g Z upd e st.
Proof.
  induction e as [i|i k cs IH] using iev_ind'; intros st; [reflexivity|].
  rewrite apply_once_dur_node, apply_once_g_node. revert st.
  induction cs as [|c r IHr]; intros st; [reflexivity|].
  inversion IH as [|? ? Hc Hr]; subst.
  change (apply_children_dur upd (c :: r) st) with
    (if memn (iid c) (fst st) then apply_children_dur upd r st
     else apply_children_dur upd r (apply_once_dur upd c (iid c :: fst st, snd st))).
  rewrite apply_children_g_cons, Hc, !(IHr Hr). reflexivity.
Qed.

Theorem apply_once_spec : forall (upd : option Z -> option Z) i k cs (h : heap (option Z)),
  consistent (INode i k cs) ->
  let h' := snd (apply_once upd (INode i k cs) ([], h)) in
  (forall j, In j (leaf_positions (INode i k cs)) -> h' j = upd (h j)) /\
  (forall j, ~ In j (leaf_positions (INode i k cs)) -> h' j = h j).
Proof. intros upd i k cs h HR. rewrite apply_once_is_g. apply apply_once_g_spec; auto. Qed.

(* set_parameter: the edit is applied exactly once to the original value of every distinct leaf *)
Theorem set_once : forall su g i k cs (h : heap (option Z)),
  consistent (INode i k cs) ->
  let h' := set_parameter su g (INode i k cs) h in
  (forall j, In j (leaf_positions (INode i k cs)) -> h' j = leaf_set su g (h j)) /\
  (forall j, ~ In j (leaf_positions (INode i k cs)) -> h' j = h j).
Proof. intros su g i k cs h HR. unfold set_parameter. apply apply_once_spec; auto. Qed.

(* ------------------------------------------------------------------ *)
(* 2. without sharing every tree is consistent                         *)
(* ------------------------------------------------------------------ *)
Lemma NoDup_app_inv {A} (l1 l2 : list A) :
  NoDup (l1 ++ l2) -> NoDup l1 /\ NoDup l2 /\ (forall x, In x l1 -> In x l2 -> False).
Proof.
  induction l1 as [|a l1 IH]; simpl; intros H.
  - repeat split; auto. constructor.
  - inversion H as [|? ? Hn Hd]; subst. destruct (IH Hd) as (H1 & H2 & H3).
    repeat split; auto.
    + constructor; auto. intros Hin. apply Hn. apply in_or_app; auto.
    + intros x [<-|Hx] Hx2; [apply Hn; apply in_or_app; auto|eauto].
Qed.

Lemma in_subterms_id n e : In n (subterms e) -> In (iid n) (all_ids e).
Proof. intros H. apply all_ids_subterms. eauto. Qed.

Theorem nodup_consistent : forall e, NoDup (all_ids e) -> consistent e.
Proof.
  unfold consistent.
  induction e as [i|i k cs IH] using iev_ind'; intros Hnd a b Ha Hb E.
  - simpl in Ha, Hb. destruct Ha as [<-|[]]. destruct Hb as [<-|[]]. reflexivity.
  - rewrite all_ids_node in Hnd. inversion Hnd as [|? ? Hni Hnd']; subst.
    assert (Hstrict : forall n, In n (subterms_list cs) -> iid n <> i).
    { intros n Hn En. apply Hni. apply all_ids_list_subterms. eauto. }
    rewrite subterms_node in Ha, Hb.
    destruct Ha as [<-|Ha]; destruct Hb as [<-|Hb]; auto.
    + exfalso. apply (Hstrict b Hb). auto.
    + exfalso. apply (Hstrict a Ha). auto.
    + clear Hni Hnd Hstrict. revert Hnd' Ha Hb.
      induction cs as [|c r IHr]; intros Hnd Ha Hb; [destruct Ha|].
      inversion IH as [|? ? Hc Hr]; subst.
      rewrite all_ids_list_cons in Hnd. apply NoDup_app_inv in Hnd. destruct Hnd as (N1 & N2 & N3).
      rewrite subterms_list_cons, in_app_iff in Ha, Hb.
      destruct Ha as [Ha|Ha]; destruct Hb as [Hb|Hb].
      * apply Hc; auto.
      * exfalso. apply (N3 (iid a)); [apply in_subterms_id; auto|].
        rewrite E. apply all_ids_list_subterms. eauto.
      * exfalso. apply (N3 (iid b)); [apply in_subterms_id; auto|].
        rewrite <- E. apply all_ids_list_subterms. eauto.
      * apply IHr; auto.
Qed.

(* so without sharing the bulk edit is a plain map over the leaves *)
Corollary set_once_nodup : forall su g i k cs (h : heap (option Z)),
  NoDup (all_ids (INode i k cs)) ->
  let h' := set_parameter su g (INode i k cs) h in
  (forall j, In j (leaf_positions (INode i k cs)) -> h' j = leaf_set su g (h j)) /\
  (forall j, ~ In j (leaf_positions (INode i k cs)) -> h' j = h j).
Proof. intros. apply set_once. apply nodup_consistent; auto. Qed.

(* ------------------------------------------------------------------ *)
(* 3. reading                                                          *)
(* ------------------------------------------------------------------ *)
Theorem get_flat_length : forall e h, length (get_flat e h) = length (leaf_positions e).
Proof. intros. unfold get_flat. apply map_length. Qed.

Theorem get_flat_nth : forall e h n i,
  nth_error (leaf_positions e) n = Some i -> nth_error (get_flat e h) n = Some (h i).
Proof. intros e h n i H. unfold get_flat. apply map_nth_error; auto. Qed.

Theorem get_flat_in : forall e h v, In v (get_flat e h) <-> exists i, In i (leaf_positions e) /\ h i = v.
Proof.
  intros e h v. unfold get_flat. rewrite in_map_iff.
  split; intros (i & A & B); exists i; auto.
Qed.

Theorem get_parameter_flat_filter : forall e h,
  get_parameter_flat true e h = filter defined (get_flat e h) /\
  get_parameter_flat false e h = get_flat e h.
Proof. split; reflexivity. Qed.

Theorem get_parameter_flat_in : forall e h v,
  In v (get_parameter_flat true e h) <->
  exists i z, In i (leaf_positions e) /\ h i = Some z /\ v = Some z.
Proof.
  intros e h v. unfold get_parameter_flat. rewrite filter_In, get_flat_in. split.
  - intros ((i & Hi & E) & D). destruct v as [z|]; [|discriminate]. exists i, z; auto.
  - intros (i & z & Hi & E & ->). split; [exists i; auto|reflexivity].
Qed.

(* filtering keeps the order: the result is the defined entries of the per-position list *)
Theorem get_parameter_flat_all_defined : forall e h v, In v (get_parameter_flat true e h) -> v <> None.
Proof. intros e h v H. apply get_parameter_flat_in in H. destruct H as (i & z & _ & _ & ->). discriminate. Qed.

Fixpoint flatten (p : pval) : list (option Z) :=
  match p with
  | PV v => [v]
  | PT l => (fix go l := match l with [] => [] | q :: r => flatten q ++ go r end) l
  end.
Definition flatten_list := fix go (l : list pval) : list (option Z) :=
  match l with [] => [] | q :: r => flatten q ++ go r end.
Lemma flatten_PT l : flatten (PT l) = flatten_list l.
Proof. reflexivity. Qed.

Theorem get_nested_node : forall i k cs h,
  get_nested (INode i k cs) h = PT (map (fun c => get_nested c h) cs).
Proof.
  reflexivity. (* the inner fix is `map` *)
Qed.

Theorem get_nested_leaf : forall i h, get_nested (ILeaf i) h = PV (h i).
Proof. reflexivity. Qed.

Theorem get_nested_mirror : forall e h, flatten (get_nested e h) = get_flat e h.
Proof.
  intros e h. unfold get_flat.
  induction e as [i|i k cs IH] using iev_ind'; [reflexivity|].
  rewrite get_nested_node, flatten_PT, leaf_positions_node.
  induction cs as [|c r IHr]; [reflexivity|].
  inversion IH as [|? ? Hc Hr]; subst.
  rewrite leaf_positions_list_cons, map_app. simpl. rewrite Hc, (IHr Hr). reflexivity.
Qed.

Theorem get_parameter_nested_false : forall i k cs h,
  get_parameter_nested false (INode i k cs) h = map (fun c => get_nested c h) cs.
Proof.
  intros i k cs h. unfold get_parameter_nested. simpl ichildren.
  match goal with |- flat_map ?f0 _ = _ => set (f := f0) end.
  induction cs as [|c r IH]; [reflexivity|].
  change (flat_map f (c :: r)) with (f c ++ flat_map f r). rewrite IH.
  change (map (fun c0 => get_nested c0 h) (c :: r)) with (get_nested c h :: map (fun c0 => get_nested c0 h) r).
  change (get_nested c h :: map (fun c0 => get_nested c0 h) r) with ([get_nested c h] ++ map (fun c0 => get_nested c0 h) r).
  f_equal. subst f. destruct c as [j|j k' cs']; reflexivity.
Qed.

(* with the filter: undefined leaves one level down are dropped, a sub-container keeps its place and
   loses its undefined direct entries (deeper levels are not filtered) *)
Theorem get_parameter_nested_true : forall i k cs h,
  get_parameter_nested true (INode i k cs) h =
  flat_map (fun c => match c with
                     | ILeaf j => if defined (h j) then [PV (h j)] else []
                     | INode _ _ cs' => [PT (filter (fun p => negb (is_none p)) (map (fun c' => get_nested c' h) cs'))]
                     end) cs.
Proof.
  intros i k cs h. unfold get_parameter_nested. simpl ichildren.
  match goal with |- flat_map ?f0 _ = flat_map ?g0 _ => set (f := f0); set (g := g0) end.
  induction cs as [|c r IH]; [reflexivity|].
  change (flat_map f (c :: r)) with (f c ++ flat_map f r). rewrite IH.
  change (flat_map g (c :: r)) with (g c ++ flat_map g r).
  f_equal. subst f g. destruct c as [j|j k' cs']; [|reflexivity].
  simpl. destruct (defined (h j)); reflexivity.
Qed.

(* ------------------------------------------------------------------ *)
(* 4. the duration setter                                              *)
(* ------------------------------------------------------------------ *)
Theorem apply_once_dur_spec : forall (upd : Z -> Z) i k cs (d : heap Z),
  consistent (INode i k cs) ->
  let d' := snd (apply_once_dur upd (INode i k cs) ([], d)) in
  (forall j, In j (leaf_positions (INode i k cs)) -> d' j = upd (d j)) /\
  (forall j, ~ In j (leaf_positions (INode i k cs)) -> d' j = d j).
Proof. intros upd i k cs d HR. rewrite apply_once_dur_is_g. apply apply_once_g_spec; auto. Qed.

Theorem set_duration_empty : forall i k new d,
  set_duration (INode i k []) new d = Err ECannotSetDurationOfEmpty.
Proof. reflexivity. Qed.

Theorem set_duration_leaf : forall i new d, set_duration (ILeaf i) new d = Ok (hupd d i new).
Proof. reflexivity. Qed.

Lemma set_duration_node_nonzero i k cs new d :
  cs <> [] -> idur (INode i k cs) d <> 0 ->
  set_duration (INode i k cs) new d =
  Ok (snd (apply_once_dur (rescale (idur (INode i k cs) d) new) (INode i k cs) ([], d))).
Proof.
  intros Hne Hold. destruct cs as [|c r]; [congruence|].
  unfold set_duration. cbv zeta.
  destruct (idur (INode i k (c :: r)) d =? 0) eqn:E; [apply Z.eqb_eq in E; contradiction|reflexivity].
Qed.

Lemma set_duration_node_zero i k cs new d :
  cs <> [] -> idur (INode i k cs) d = 0 ->
  set_duration (INode i k cs) new d =
  Ok (snd (apply_once_dur (fun _ => rhe ((new # 1) / (Z.of_nat (length cs) # 1))%Q) (INode i k cs) ([], d))).
Proof.
  intros Hne Hold. destruct cs as [|c r]; [congruence|].
  unfold set_duration. cbv zeta. rewrite Hold. reflexivity.
Qed.

(* every distinct leaf below the container is rescaled exactly once, nothing else is touched *)
Theorem set_duration_leaves : forall i k cs new d d',
  cs <> [] -> consistent (INode i k cs) ->
  let old := idur (INode i k cs) d in
  old <> 0 ->
  set_duration (INode i k cs) new d = Ok d' ->
  (forall j, In j (leaf_positions (INode i k cs)) -> d' j = rescale old new (d j)) /\
  (forall j, ~ In j (leaf_positions (INode i k cs)) -> d' j = d j).
Proof.
  intros i k cs new d d' Hne HR old Hold H.
  rewrite set_duration_node_nonzero in H by auto. inversion H; subst d'.
  apply apply_once_dur_spec; auto.
Qed.

(* old duration 0: every distinct leaf gets the same share new / (number of children) *)
Theorem set_duration_zero_leaves : forall i k cs new d d',
  cs <> [] -> consistent (INode i k cs) ->
  idur (INode i k cs) d = 0 ->
  set_duration (INode i k cs) new d = Ok d' ->
  (forall j, In j (leaf_positions (INode i k cs)) -> d' j = rhe ((new # 1) / (Z.of_nat (length cs) # 1))%Q) /\
  (forall j, ~ In j (leaf_positions (INode i k cs)) -> d' j = d j).
Proof.
  intros i k cs new d d' Hne HR Hold H.
  rewrite set_duration_node_zero in H by auto. inversion H; subst d'.
  apply (apply_once_dur_spec (fun _ => rhe ((new # 1) / (Z.of_nat (length cs) # 1))%Q)); auto.
Qed.

(* rescale is the exact quotient up to half a tick *)
Lemma rescale_near old new x : 0 < old -> Z.abs (2 * old * rescale old new x - 2 * new * x) <= old.
Proof.
  intros Hold. unfold rescale.
  set (q := ((x # 1) * (new # 1) / (old # 1))%Q).
  pose proof (rhe_near q) as H. apply Qabs_Qle_condition in H. destruct H as [H1 H2].
  set (r := rhe q) in *.
  assert (E : (q * (old # 1) == (x * new # 1))%Q).
  { unfold q. destruct old as [|p|p]; try lia. unfold Qeq, Qdiv, Qmult, Qinv; simpl. lia. }
  assert (Ho : (0 < (old # 1))%Q) by (unfold Qlt; simpl; lia).
  assert (G1 : (- (1 # 2) * (old # 1) <= (q - (r # 1)) * (old # 1))%Q) by (apply Qmult_le_compat_r; lra).
  assert (G2 : ((q - (r # 1)) * (old # 1) <= (1 # 2) * (old # 1))%Q) by (apply Qmult_le_compat_r; lra).
  assert (E2 : ((q - (r # 1)) * (old # 1) == (x * new - r * old # 1))%Q).
  { assert (E3 : ((x * new - r * old # 1) == (x * new # 1) - (r # 1) * (old # 1))%Q) by (unfold Qeq; simpl; lia).
    rewrite E3, <- E. ring. }
  rewrite E2 in G1, G2. unfold Qle, Qmult, Qopp in G1, G2; cbn [Qnum Qden] in G1, G2. lia.
Qed.

Definition idur_seq (d : heap Z) := fix go (l : list iev) : Z :=
  match l with [] => 0 | c :: r => idur c d + go r end.
Definition idur_sim (d : heap Z) := fix go (l : list iev) : Z :=
  match l with [] => 0 | c :: r => Z.max (idur c d) (go r) end.
Lemma idur_seq_node i cs d : idur (INode i IKSeq cs) d = idur_seq d cs.
Proof. reflexivity. Qed.
Lemma idur_sim_node i cs d : idur (INode i IKSim cs) d = idur_sim d cs.
Proof. reflexivity. Qed.

Lemma idur_approx old new d d' : 0 < old -> 0 <= new ->
  forall e,
  (forall j, In j (leaf_positions e) -> Z.abs (2 * old * d' j - 2 * new * d j) <= old) ->
  Z.abs (2 * old * idur e d' - 2 * new * idur e d) <= old * Z.of_nat (length (leaf_positions e)).
Proof.
  intros Hold Hnew.
  induction e as [i|i k cs IH] using iev_ind'; intros HL.
  - simpl. rewrite Z.mul_1_r. apply HL. left; reflexivity.
  - rewrite leaf_positions_node in *.
    destruct k; [rewrite !idur_seq_node|rewrite !idur_sim_node].
    + induction cs as [|c r IHr]; [simpl; lia|].
      inversion IH as [|? ? Hc Hr]; subst.
      rewrite leaf_positions_list_cons in *. rewrite app_length, Nat2Z.inj_add.
      assert (A1 := Hc (fun j Hj => HL j (in_or_app _ _ _ (or_introl Hj)))).
      assert (A2 := IHr Hr (fun j Hj => HL j (in_or_app _ _ _ (or_intror Hj)))).
      change (idur_seq d' (c :: r)) with (idur c d' + idur_seq d' r).
      change (idur_seq d (c :: r)) with (idur c d + idur_seq d r).
      lia.
    + induction cs as [|c r IHr]; [simpl; lia|].
      inversion IH as [|? ? Hc Hr]; subst.
      rewrite leaf_positions_list_cons in *. rewrite app_length, Nat2Z.inj_add.
      assert (A1 := Hc (fun j Hj => HL j (in_or_app _ _ _ (or_introl Hj)))).
      assert (A2 := IHr Hr (fun j Hj => HL j (in_or_app _ _ _ (or_intror Hj)))).
      change (idur_sim d' (c :: r)) with (Z.max (idur c d') (idur_sim d' r)).
      change (idur_sim d (c :: r)) with (Z.max (idur c d) (idur_sim d r)).
      set (a' := idur c d') in *. set (a := idur c d) in *.
      set (s' := idur_sim d' r) in *. set (s := idur_sim d r) in *.
      set (na := Z.of_nat (length (leaf_positions c))) in *.
      set (ns := Z.of_nat (length (leaf_positions_list r))) in *.
      assert (0 <= na) by (unfold na; lia). assert (0 <= ns) by (unfold ns; lia).
      assert (M1 : a' <= s' -> old * a' <= old * s') by (intros; apply Z.mul_le_mono_nonneg_l; lia).
      assert (M2 : s' <= a' -> old * s' <= old * a') by (intros; apply Z.mul_le_mono_nonneg_l; lia).
      assert (M3 : a <= s -> new * a <= new * s) by (intros; apply Z.mul_le_mono_nonneg_l; lia).
      assert (M4 : s <= a -> new * s <= new * a) by (intros; apply Z.mul_le_mono_nonneg_l; lia).
      destruct (Z.max_spec a' s') as [[? ->]|[? ->]]; destruct (Z.max_spec a s) as [[? ->]|[? ->]]; lia.
Qed.

(* the container's duration becomes the requested one, up to half a tick per leaf position *)
Theorem set_duration_total_gen : forall i k cs new d d',
  cs <> [] -> consistent (INode i k cs) ->
  let e := INode i k cs in
  let old := idur e d in
  0 < old -> 0 <= new ->
  set_duration e new d = Ok d' ->
  Z.abs (idur e d' - new) * 2 <= Z.of_nat (length (leaf_positions e)).
Proof.
  intros i k cs new d d' Hne HR e old Hold Hnew H.
  destruct (set_duration_leaves i k cs new d d' Hne HR) as [HL _]; [fold e; fold old; lia|exact H|].
  fold e in HL. fold old in HL.
  assert (A : Z.abs (2 * old * idur e d' - 2 * new * idur e d) <= old * Z.of_nat (length (leaf_positions e))).
  { apply idur_approx; auto. intros j Hj. rewrite (HL j Hj). apply rescale_near; auto. }
  fold old in A.
  set (X := idur e d') in *. set (n := Z.of_nat (length (leaf_positions e))) in *.
  replace (2 * old * X - 2 * new * old) with (old * (2 * (X - new))) in A by ring.
  rewrite Z.abs_mul, (Z.abs_eq old) in A by lia.
  apply Z.mul_le_mono_pos_l in A; lia.
Qed.

Theorem set_duration_total : forall i k cs new d d',
  cs <> [] -> consistent (INode i k cs) ->
  let e := INode i k cs in
  let old := idur e d in
  (forall j, In j (leaf_positions e) -> 0 <= d j) ->
  0 < old -> 0 <= new ->
  set_duration e new d = Ok d' ->
  Z.abs (idur e d' - new) * 2 <= Z.of_nat (length (leaf_positions e)).
Proof. intros i k cs new d d' Hne HR e old _. apply set_duration_total_gen; auto. Qed.

(* ------------------------------------------------------------------ *)
(* 5. a checker for consistency, examples                              *)
(* ------------------------------------------------------------------ *)
Definition ikind_eqb (a b : ikind) : bool :=
  match a, b with IKSeq, IKSeq | IKSim, IKSim => true | _, _ => false end.
Fixpoint iev_eqb (a b : iev) : bool :=
  match a, b with
  | ILeaf i, ILeaf j => Nat.eqb i j
  | INode i k cs, INode j k' cs' =>
      Nat.eqb i j && ikind_eqb k k' &&
      (fix go l l' := match l, l' with
                      | [], [] => true
                      | x :: r, y :: r' => iev_eqb x y && go r r'
                      | _, _ => false
                      end) cs cs'
  | _, _ => false
  end.
Definition iev_list_eqb := fix go (l l' : list iev) : bool :=
  match l, l' with
  | [], [] => true
  | x :: r, y :: r' => iev_eqb x y && go r r'
  | _, _ => false
  end.
Lemma iev_eqb_node i k cs j k' cs' :
  iev_eqb (INode i k cs) (INode j k' cs') = Nat.eqb i j && ikind_eqb k k' && iev_list_eqb cs cs'.
Proof. reflexivity. Qed.

Lemma iev_eqb_eq : forall a b, iev_eqb a b = true -> a = b.
Proof.
  induction a as [i|i k cs IH] using iev_ind'; intros [j|j k' cs'] H; try discriminate.
  - simpl in H. apply Nat.eqb_eq in H. congruence.
  - rewrite iev_eqb_node in H. apply andb_true_iff in H. destruct H as [H H3].
    apply andb_true_iff in H. destruct H as [H1 H2].
    apply Nat.eqb_eq in H1. subst j.
    assert (k = k') by (destruct k, k'; auto; discriminate). subst k'.
    f_equal. revert cs' H3. induction cs as [|c r IHr]; intros [|c' r'] H3; try discriminate; auto.
    inversion IH as [|? ? Hc Hr]; subst.
    simpl in H3. apply andb_true_iff in H3. destruct H3 as [E1 E2].
    f_equal; [apply Hc; auto|apply IHr; auto].
Qed.

Definition consistentb (e : iev) : bool :=
  forallb (fun a => forallb (fun b => implb (Nat.eqb (iid a) (iid b)) (iev_eqb a b)) (subterms e)) (subterms e).

Lemma consistentb_sound e : consistentb e = true -> consistent e.
Proof.
  unfold consistentb, consistent. intros H a b Ha Hb E.
  rewrite forallb_forall in H. specialize (H a Ha). rewrite forallb_forall in H. specialize (H b Hb).
  apply Nat.eqb_eq in E. rewrite E in H. simpl in H. apply iev_eqb_eq; auto.
Qed.

(* a DAG-shaped tree: leaf 1 at two depths (three positions), leaf 2 twice below one object and once
   more elsewhere, the sub-container 10 referenced three times (twice at depth 1, once at depth 2) *)
Definition ex_sub : iev := INode 10 IKSeq [ILeaf 1; ILeaf 2].
Definition ex_mid : iev := INode 11 IKSeq [ex_sub; ILeaf 3; ILeaf 2].
Definition ex_root : iev := INode 20 IKSim [ex_sub; ILeaf 1; ex_mid; ex_sub; ILeaf 4].
Definition ex_heap : heap (option Z) :=
  hupd (hupd (hupd (hupd (fun _ => None) 1 (Some 10)) 2 (Some 20)) 3 None) 7 (Some 70).
Definition ex_g (o : option Z) : Z := match o with Some v => v + 5 | None => 0 end.

Example ex_consistent : consistent ex_root.
Proof. apply consistentb_sound. vm_compute. reflexivity. Qed.

Example ex_positions :
  leaf_positions ex_root = [1; 2; 1; 1; 2; 3; 2; 1; 2; 4]%nat /\
  all_ids ex_root = [20; 10; 1; 2; 1; 11; 10; 1; 2; 3; 2; 10; 1; 2; 4]%nat.
Proof. vm_compute. split; reflexivity. Qed.

(* g = old + 5 is not idempotent: every leaf is incremented exactly once although leaf 1 has four
   positions; the leaf 7 outside the tree keeps its value; undefined leaves follow set_unassigned *)
Example ex_set_once :
  let h' := set_parameter true ex_g ex_root ex_heap in
  map h' [1; 2; 3; 4; 7; 10; 20]%nat = [Some 15; Some 25; Some 0; Some 0; Some 70; None; None] /\
  let h'' := set_parameter false ex_g ex_root ex_heap in
  map h'' [1; 2; 3; 4; 7; 10; 20]%nat = [Some 15; Some 25; None; None; Some 70; None; None].
Proof. vm_compute. split; reflexivity. Qed.

(* the general theorem on this tree *)
Example ex_set_once_thm : forall su g h,
  let h' := set_parameter su g ex_root h in
  (forall j, In j [1; 2; 3; 4]%nat -> h' j = leaf_set su g (h j)) /\
  (forall j, ~ In j [1; 2; 3; 4]%nat -> h' j = h j).
Proof.
  intros su g h. destruct (set_once su g 20%nat IKSim (ichildren ex_root) h ex_consistent) as [A B].
  split.
  - intros j Hj. apply A. vm_compute in Hj |- *. tauto.
  - intros j Hj. apply B. intros Hin. apply Hj. vm_compute in Hin |- *. tauto.
Qed.

(* a per-position map would have applied the edit four times to leaf 1 *)
Example ex_naive_differs :
  let naive := fold_left (fun h j => hupd h j (leaf_set true ex_g (h j))) (leaf_positions ex_root) ex_heap in
  naive 1%nat = Some 30 /\ set_parameter true ex_g ex_root ex_heap 1%nat = Some 15.
Proof. vm_compute. split; reflexivity. Qed.

(* consistency is needed: if one identity stands for two different containers the second is skipped
   and its leaf 3 is not edited *)
Definition ex_bad : iev := INode 0 IKSeq [INode 1 IKSeq [ILeaf 2]; INode 1 IKSeq [ILeaf 3]].
Example ex_inconsistent :
  consistentb ex_bad = false /\
  In 3%nat (leaf_positions ex_bad) /\
  set_parameter true ex_g ex_bad (fun _ => Some 1) 3%nat = Some 1 /\
  set_parameter true ex_g ex_bad (fun _ => Some 1) 2%nat = Some 6.
Proof. vm_compute. repeat split; auto. Qed.

(* reads: one entry per position; the nested read mirrors the tree *)
Example ex_reads :
  get_flat ex_root ex_heap =
    [Some 10; Some 20; Some 10; Some 10; Some 20; None; Some 20; Some 10; Some 20; None] /\
  get_parameter_flat true ex_root ex_heap =
    [Some 10; Some 20; Some 10; Some 10; Some 20; Some 20; Some 10; Some 20] /\
  get_nested ex_root ex_heap =
    PT [PT [PV (Some 10); PV (Some 20)]; PV (Some 10);
        PT [PT [PV (Some 10); PV (Some 20)]; PV None; PV (Some 20)];
        PT [PV (Some 10); PV (Some 20)]; PV None] /\
  get_parameter_nested true ex_root ex_heap =
    [PT [PV (Some 10); PV (Some 20)]; PV (Some 10);
     PT [PT [PV (Some 10); PV (Some 20)]; PV (Some 20)];
     PT [PV (Some 10); PV (Some 20)]].
Proof. vm_compute. repeat split; reflexivity. Qed.

(* durations: leaves 1, 2, 3, 4 last 3, 5, 7, 2 ticks; the simultaneous root lasts
   max (8, 3, 8 + 7 + 5, 8, 2) = 20; setting it to 50 rescales every distinct leaf once by 5/2
   (half-tick cases to even) and the root lasts 20 + 18 + 12 = 50; setting it to 7 gives 7 *)
Definition ex_durs : heap Z := hupd (hupd (hupd (hupd (fun _ => 0) 1 3) 2 5) 3 7) 4 2.
Example ex_set_duration :
  idur ex_root ex_durs = 20 /\
  match set_duration ex_root 50 ex_durs with
  | Ok d' => map d' [1; 2; 3; 4; 7]%nat = [8; 12; 18; 5; 0] /\ idur ex_root d' = 50
  | Err _ => False
  end /\
  match set_duration ex_root 7 ex_durs with
  | Ok d' => map d' [1; 2; 3; 4; 7]%nat = [1; 2; 2; 1; 0] /\ idur ex_root d' = 7
  | Err _ => False
  end /\
  set_duration (INode 5 IKSeq []) 3 ex_durs = Err ECannotSetDurationOfEmpty.
Proof. vm_compute. repeat split; reflexivity. Qed.

(* the hypotheses of the duration theorems are satisfiable on this tree *)
Example ex_set_duration_thm : forall d',
  set_duration ex_root 50 ex_durs = Ok d' ->
  (forall j, In j [1; 2; 3; 4]%nat -> d' j = rescale 20 50 (ex_durs j)) /\
  Z.abs (idur ex_root d' - 50) * 2 <= 10.
Proof.
  intros d' H. split.
  - destruct (set_duration_leaves 20%nat IKSim (ichildren ex_root) 50 ex_durs d') as [A _]; auto.
    + discriminate.
    + exact ex_consistent.
    + vm_compute. discriminate.
    + intros j Hj. change 20 with (idur ex_root ex_durs). apply A. vm_compute in Hj |- *. tauto.
  - apply (set_duration_total_gen 20%nat IKSim (ichildren ex_root) 50 ex_durs d'); auto.
    + discriminate.
    + exact ex_consistent.
    + vm_compute. reflexivity.
    + lia.
Qed.

(* old duration 0: the share is new / (number of DIRECT children) for every distinct leaf, so a nested
   container does not end up with the requested duration (6 requested, 9 obtained) *)
Example ex_set_duration_zero :
  let e := INode 0 IKSeq [INode 1 IKSeq [ILeaf 2; ILeaf 3]; ILeaf 4] in
  match set_duration e 6 (fun _ => 0) with
  | Ok d' => map d' [2; 3; 4]%nat = [3; 3; 3] /\ idur e d' = 9
  | Err _ => False
  end.
Proof. vm_compute. split; reflexivity. Qed.

Print Assumptions apply_once_g_spec.
Print Assumptions apply_once_spec.
Print Assumptions set_once.
Print Assumptions nodup_consistent.
Print Assumptions set_once_nodup.
Print Assumptions get_flat_length.
Print Assumptions get_flat_nth.
Print Assumptions get_parameter_flat_filter.
Print Assumptions get_parameter_flat_in.
Print Assumptions get_nested_node.
Print Assumptions get_nested_mirror.
Print Assumptions get_parameter_nested_false.
Print Assumptions get_parameter_nested_true.
Print Assumptions apply_once_dur_spec.
Print Assumptions set_duration_empty.
Print Assumptions set_duration_leaves.
Print Assumptions set_duration_zero_leaves.
Print Assumptions rescale_near.
Print Assumptions idur_approx.
Print Assumptions set_duration_total_gen.
Print Assumptions set_duration_total.
Print Assumptions consistentb_sound.
Print Assumptions ex_consistent.
Print Assumptions ex_set_once_thm.
Print Assumptions ex_set_duration_thm.
