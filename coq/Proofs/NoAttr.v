(* The error protocol of the in-place operations: in the model, EAttributeError - "the receiver has no such method" -
   is the answer of a leaf and of nothing else.  The library's Concurrence methods rely on exactly this when they catch
   AttributeError around the call on a child: the handler must be reached for leaf children only. *)
From Coq Require Import ZArith List Bool Lia.
From MV Require Import Base.Res Model.EventTree Model.TreeOps.
Import ListNotations.
Open Scope Z_scope.

Definition na {A} (r : res A) : Prop := r <> Err EAttributeError.
Definition is_leaf (e : ev) : bool := match e with Leaf _ _ => true | _ => false end.

Lemma na_ok {A} (x : A) : na (Ok x). Proof. discriminate. Qed.
Lemma na_bind {A B} (r : res A) (f : A -> res B) : na r -> (forall x, na (f x)) -> na (bind r f).
Proof.
  intros Hr Hf. destruct r as [x|k]; cbn [bind]; [apply Hf|].
  intros E. apply Hr. injection E as ->. reflexivity.
Qed.
Lemma na_check_time t : na (check_time t). Proof. unfold check_time. destruct (t <? 0); discriminate. Qed.
Lemma na_check_se s e : na (check_start_end s e). Proof. unfold check_start_end. destruct (e <? s); discriminate. Qed.
Lemma na_check_ses s e : na (check_start_end_strict s e). Proof. unfold check_start_end_strict. destruct (s <? e); discriminate. Qed.

Lemma na_leaf_cut_out d s e : na (leaf_cut_out d s e).
Proof.
  unfold leaf_cut_out. apply na_bind; [apply na_check_time|intros _]. apply na_bind; [apply na_check_ses|intros _].
  cbv zeta. match goal with |- na (if ?b then _ else _) => destruct b end; discriminate.
Qed.

Lemma na_leaf_split d l ts ign : na (leaf_split d l ts ign).
Proof.
  unfold leaf_split. destruct ts as [|t ts]; [discriminate|]. cbv zeta.
  apply na_bind; [apply na_check_time|intros _].
  apply na_bind.
  { match goal with |- na (if ?b then _ else _) => destruct b end; [discriminate|].
    match goal with |- na (if ?b then _ else _) => destruct b end; discriminate. }
  intros sl2. induction (pairs sl2) as [|[t0 t1] ps IH]; [discriminate|].
  pose proof (na_leaf_cut_out d t0 t1) as H.
  destruct (leaf_cut_out d t0 t1) as [d'|k].
  - apply na_bind; [exact IH|intros; discriminate].
  - destruct k; try discriminate; try (destruct ign; [exact IH|discriminate]). exfalso. apply H. reflexivity.
Qed.

Lemma na_mapM {A B} (f : A -> res B) (l : list A) : (forall a, na (f a)) -> na (mapM f l).
Proof.
  intros H. induction l as [|a l IH]; [discriminate|]. cbn [mapM].
  apply na_bind; [apply H|intros b]. apply na_bind; [exact IH|intros; discriminate].
Qed.

Section Rec.
  Variable rec : ev -> list Z -> bool -> res (list ev).
  Hypothesis Hrec : forall c ts ign, na (rec c ts ign).

  Lemma na_split_child_core c t abl durf : na (split_child_core rec c t abl durf).
  Proof.
    unfold split_child_core. apply na_bind; [apply na_check_time|intros _].
    destruct (index_at_from t abl durf) as [i|]; [|discriminate].
    destruct (t =? nth i abl 0); [discriminate|].
    destruct (nth_error c i) as [ch|]; [|discriminate].
    apply na_bind; [apply Hrec|intros parts]. destruct parts as [|p0 [|p1 [|p2 r]]]; discriminate.
  Qed.

  Lemma na_seq_split_loop ign durf : forall sl first c abl idx, na (seq_split_loop rec ign first durf sl c abl idx).
  Proof.
    induction sl as [|t sl IH]; intros first c abl idx; [discriminate|]. cbn [seq_split_loop].
    apply na_bind; [destruct first; [apply na_check_time|discriminate]|intros _].
    destruct (index_of t abl); [apply IH|]. destruct (t =? durf); [apply IH|].
    pose proof (na_split_child_core c t abl durf) as H.
    destruct (split_child_core rec c t abl durf) as [[c' i]|k]; [apply IH|].
    destruct k; try discriminate; try (destruct ign; discriminate). exfalso. apply H. reflexivity.
  Qed.

  Lemma na_seq_split m cs ts ign : na (seq_split rec m cs ts ign).
  Proof.
    unfold seq_split. destruct ts as [|t ts]; [discriminate|].
    apply na_bind; [apply na_seq_split_loop|intros [c idx]; discriminate].
  Qed.

  Lemma na_sim_split m cs ts ign : na (sim_split rec m cs ts ign).
  Proof.
    unfold sim_split. destruct ts as [|t ts]; [discriminate|]. cbv zeta.
    apply na_bind; [apply na_check_time|intros _].
    match goal with |- na (if ?b then _ else _) => destruct b end; [discriminate|].
    apply na_bind; [|intros; discriminate]. unfold slices_of. apply na_mapM. intros c.
    destruct (sortZ (t :: ts)); [discriminate|apply Hrec].
  Qed.
End Rec.

Lemma na_split_at_f : forall n e ts ign, na (split_at_f n e ts ign).
Proof.
  induction n as [|n IH]; intros e ts ign; [discriminate|]. cbn [split_at_f].
  destruct e as [d l|m cs|m cs]; [apply na_leaf_split|apply na_seq_split; exact IH|apply na_sim_split; exact IH].
Qed.

Lemma na_split_at e ts ign : na (split_at e ts ign).
Proof. apply na_split_at_f. Qed.

(* cut_off never answers with it either: a leaf has a cut_off *)
Lemma na_cut_off : forall e s en, na (cut_off e s en).
Proof.
  induction e as [d l|m cs IH|m cs IH] using ev_ind'; intros s en.
  - cbn [cut_off]. apply na_bind; [apply na_check_time|intros _]. apply na_bind; [apply na_check_se|intros _]. discriminate.
  - change (cut_off (Seq m cs) s en) with
      (_ <- check_time s ; if 0 <? en - s then r <- cf_seq s en 0 cs ; Ok (Seq m r) else Ok (Seq m cs)).
    apply na_bind; [apply na_check_time|intros _]. destruct (0 <? en - s); [|discriminate].
    apply na_bind; [|intros; discriminate].
    assert (G : forall t0, na (cf_seq s en t0 cs)); [|apply G].
    induction cs as [|c cs IHcs]; intros t0; [discriminate|].
    inversion IH as [|? ? Hc Hcs]; subst. specialize (IHcs Hcs).
    cbn [cf_seq]. fold (cf_seq s en). cbv zeta.
    repeat match goal with |- na (if ?b then _ else _) => destruct b end;
      try apply IHcs;
      try (apply na_bind; [apply Hc|intros c']; apply na_bind; [apply IHcs|intros; discriminate]);
      try (apply na_bind; [apply IHcs|intros; discriminate]).
  - change (cut_off (Sim m cs) s en) with
      (_ <- check_time s ; _ <- check_start_end s en ; r <- cf_sim s en cs ; Ok (Sim m r)).
    apply na_bind; [apply na_check_time|intros _]. apply na_bind; [apply na_check_se|intros _].
    apply na_bind; [|intros; discriminate].
    induction cs as [|c cs IHcs]; [discriminate|]. inversion IH as [|? ? Hc Hcs]; subst.
    cbn [cf_sim]. fold (cf_sim s en). apply na_bind; [apply Hc|intros c'].
    apply na_bind; [apply IHcs; exact Hcs|intros; discriminate].
Qed.

Lemma na_cf_seq s en : forall cs t0, na (cf_seq s en t0 cs).
Proof.
  induction cs as [|c cs IH]; intros t0; [discriminate|]. cbn [cf_seq]. fold (cf_seq s en). cbv zeta.
  repeat match goal with |- na (if ?b then _ else _) => destruct b end;
    try apply IH;
    try (apply na_bind; [apply na_cut_off|intros c']; apply na_bind; [apply IH|intros; discriminate]);
    try (apply na_bind; [apply IH|intros; discriminate]).
Qed.

Lemma na_seq_squash cs start new : na (seq_squash cs start new).
Proof.
  unfold seq_squash. apply na_bind; [apply na_check_time|intros _].
  destruct (dsum cs <? start); [discriminate|].
  apply na_bind; [destruct (0 <? dur new); [apply na_cf_seq|discriminate]|intros cs1]. cbv zeta.
  destruct (index_of start (starts cs1)); [discriminate|].
  destruct (dsum cs1 <=? start); [discriminate|].
  destruct (index_at_from start (starts cs1) (dsum cs1)) as [a|]; [|discriminate].
  destruct (nth_error cs1 a) as [ch|]; [|discriminate].
  match goal with |- na (if ?b then _ else _) => destruct b end; [|discriminate].
  apply na_bind; [apply na_split_at|intros parts]. destruct parts as [|p0 [|p1 r]]; discriminate.
Qed.

Lemma na_seq_slide m cs start new : na (seq_slide m cs start new).
Proof.
  unfold seq_slide. apply na_bind; [apply na_check_time|intros _].
  destruct (start =? 0); [discriminate|]. destruct (dsum cs <? start); [discriminate|].
  apply na_bind; [apply na_split_at|intros parts]. destruct parts as [|a [|b [|c r]]]; discriminate.
Qed.

(* ---------------------------------------------------------------- the three theorems *)
Theorem squash_in_attribute_error_only_from_leaf : forall e start new,
  is_leaf e = false -> na (squash_in e start new).
Proof.
  induction e as [d l|m cs IH|m cs IH] using ev_ind'; intros start new L; [discriminate| |].
  - cbn [squash_in]. apply na_bind; [apply na_seq_squash|intros; discriminate].
  - cbn [squash_in]. apply na_bind; [apply na_check_time|intros _].
    destruct (dmax cs <? start); [discriminate|]. apply na_bind; [|intros; discriminate].
    clear L. induction cs as [|c cs IHcs]; [discriminate|]. inversion IH as [|? ? Hc Hcs]; subst.
    destruct c as [d1 l1|m1 cs1|m1 cs1]; [discriminate| |];
      (apply na_bind; [apply Hc; reflexivity|intros c']; apply na_bind; [apply IHcs; exact Hcs|intros; discriminate]).
Qed.

Theorem slide_in_attribute_error_only_from_leaf : forall e start new,
  is_leaf e = false -> na (slide_in e start new).
Proof.
  induction e as [d l|m cs IH|m cs IH] using ev_ind'; intros start new L; [discriminate| |].
  - cbn [slide_in]. apply na_bind; [apply na_seq_slide|intros; discriminate].
  - cbn [slide_in]. apply na_bind; [apply na_check_time|intros _].
    destruct (dmax cs <? start); [discriminate|]. apply na_bind; [|intros; discriminate].
    clear L. induction cs as [|c cs IHcs]; [discriminate|]. inversion IH as [|? ? Hc Hcs]; subst.
    destruct c as [d1 l1|m1 cs1|m1 cs1]; [discriminate| |];
      (apply na_bind; [apply Hc; reflexivity|intros c']; apply na_bind; [apply IHcs; exact Hcs|intros; discriminate]).
Qed.

Theorem split_child_at_attribute_error_only_from_leaf : forall e t,
  is_leaf e = false -> na (split_child_at e t).
Proof.
  induction e as [d l|m cs IH|m cs IH] using ev_ind'; intros t L; [discriminate| |].
  - cbn [split_child_at]. apply na_bind; [apply na_split_child_core; apply na_split_at_f|intros [c i]; discriminate].
  - cbn [split_child_at]. apply na_bind; [|intros; discriminate].
    clear L. induction cs as [|c cs IHcs]; [discriminate|]. inversion IH as [|? ? Hc Hcs]; subst.
    destruct c as [d1 l1|m1 cs1|m1 cs1].
    + apply na_bind; [apply na_leaf_split|intros ps]. apply na_bind; [apply IHcs; exact Hcs|intros; discriminate].
    + apply na_bind; [apply Hc; reflexivity|intros c']. apply na_bind; [apply IHcs; exact Hcs|intros; discriminate].
    + apply na_bind; [apply Hc; reflexivity|intros c']. apply na_bind; [apply IHcs; exact Hcs|intros; discriminate].
Qed.

(* extend_until: the fourth operation whose Concurrence form catches the child's AttributeError *)
Definition eu_go (prolong : bool) (d : Z) := fix go (l : list ev) : res (list ev) :=
  match l with
  | [] => Ok []
  | Leaf d0 l0 :: r =>
      if prolong then (r' <- go r ; Ok (Leaf (if 0 <? d - d0 then d0 + (d - d0) else d0) l0 :: r'))
      else Err EImpossibleToExtendUntil
  | c :: r => c' <- extend_until prolong c d ; r' <- go r ; Ok (c' :: r')
  end.

Theorem extend_until_attribute_error_only_from_leaf : forall e prolong d,
  is_leaf e = false -> na (extend_until prolong e d).
Proof.
  induction e as [d0 l0|m cs IH|m cs IH] using ev_ind'; intros prolong d L; [discriminate|cbn [extend_until]; discriminate|].
  change (extend_until prolong (Sim m cs) d) with
    (match cs with [] => Err EIneffectiveExtendUntil | _ => r <- eu_go prolong d cs ; Ok (Sim m r) end).
  destruct cs as [|c0 r0]; [discriminate|].
  apply na_bind; [|intros; discriminate]. clear L.
  induction (c0 :: r0) as [|c r IHr]; [discriminate|]. inversion IH as [|? ? Hc Hr]; subst. specialize (IHr Hr).
  destruct c as [d1 l1|m1 cs1|m1 cs1].
  - cbn [eu_go]. fold (eu_go prolong d). destruct prolong; [|discriminate].
    apply na_bind; [exact IHr|intros; discriminate].
  - cbn [eu_go]. fold (eu_go prolong d). apply na_bind; [apply Hc; reflexivity|intros c'].
    apply na_bind; [exact IHr|intros; discriminate].
  - cbn [eu_go]. fold (eu_go prolong d). apply na_bind; [apply Hc; reflexivity|intros c'].
    apply na_bind; [exact IHr|intros; discriminate].
Qed.
