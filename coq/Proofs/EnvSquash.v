(* squash_in with an envelope (a sequence of control points) as the receiver: Consecution.squash_in on the list of points.
   Rejections, for every number type. *)
From Coq Require Import ZArith List Bool Lia.
From MV Require Import Base.Res Model.EventTree Model.TreeOps Model.Num Model.Envelope.
Import ListNotations.
Open Scope Z_scope.

Section S.
  Context {F : Type}.

  (* a start behind the end of the envelope is rejected - the envelope is not prolonged *)
  Theorem p_squash_rejects_behind_end (e : env F) start new : 0 <= start -> pdur F e < start ->
    p_squash F e start new = Err EInvalidStartValue.
  Proof.
    intros H0 H. unfold p_squash, check_time. destruct (Z.ltb_spec start 0); [lia|]. cbn [bind].
    destruct (Z.ltb_spec (pdur F e) start); [reflexivity|lia].
  Qed.

  (* a negative start is rejected *)
  Theorem p_squash_rejects_negative (e : env F) start new : start < 0 ->
    exists k, p_squash F e start new = Err k.
  Proof.
    intro H. unfold p_squash, check_time. destruct (Z.ltb_spec start 0); [|lia]. cbn [bind]. eexists. reflexivity.
  Qed.
End S.
Print Assumptions p_squash_rejects_behind_end.
Print Assumptions p_squash_rejects_negative.
