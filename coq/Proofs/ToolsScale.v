(* core_utilities.scale over the reals: the old bounds are mapped to the new bounds, the result never
   leaves the new range (for every curve shape), and the map is monotone in the value. *)
From Coquelicot Require Import Coquelicot.
From Coq Require Import ZArith List Bool Reals Lra Lia.
From MV Require Import Base.Res Model.EventTree Model.TreeOps Model.Num Model.Envelope Proofs.RNum Proofs.Interp.
Import ListNotations.
Local Open Scope R_scope.

Lemma pct_bounds a b v : a < b -> a <= v <= b -> 0 <= (v - a) / (b - a) <= 1.
Proof.
  intros Hab [H0 H1]. assert (Hd : 0 < b - a) by lra. split.
  - unfold Rdiv. apply Rmult_le_pos; [lra|left; apply Rinv_0_lt_compat; exact Hd].
  - apply Rmult_le_reg_r with (b - a); [exact Hd|]. unfold Rdiv. rewrite Rmult_assoc, Rinv_l by lra. lra.
Qed.

Lemma pct_mono a b v1 v2 : a < b -> v1 <= v2 -> (v1 - a) / (b - a) <= (v2 - a) / (b - a).
Proof.
  intros Hab H. unfold Rdiv. apply Rmult_le_compat_r; [left; apply Rinv_0_lt_compat; lra|lra].
Qed.

Theorem scale_old_min a b c d sh : a < b -> scale R RNum a a b c d sh = c.
Proof.
  intros Hab. rewrite scale_segR. replace ((a - a) / (b - a)) with 0 by (field; lra). apply segR_0.
Qed.

Theorem scale_old_max a b c d sh : a < b -> scale R RNum b a b c d sh = d.
Proof.
  intros Hab. rewrite scale_segR. replace ((b - a) / (b - a)) with 1 by (field; lra). apply segR_1.
Qed.

Theorem scale_in_range v a b c d sh : a < b -> a <= v <= b ->
  Rmin c d <= scale R RNum v a b c d sh <= Rmax c d.
Proof.
  intros Hab Hv. rewrite scale_segR. apply segR_between. apply pct_bounds; assumption.
Qed.

Theorem scale_monotone_up v1 v2 a b c d sh : a < b -> c <= d -> a <= v1 <= v2 -> v2 <= b ->
  scale R RNum v1 a b c d sh <= scale R RNum v2 a b c d sh.
Proof.
  intros Hab Hcd [H1 H12] H2. rewrite !scale_segR. apply segR_monotone_up; [exact Hcd| |].
  - split; [apply pct_bounds; lra|apply pct_mono; assumption].
  - apply pct_bounds; lra.
Qed.

Theorem scale_monotone_down v1 v2 a b c d sh : a < b -> d <= c -> a <= v1 <= v2 -> v2 <= b ->
  scale R RNum v1 a b c d sh >= scale R RNum v2 a b c d sh.
Proof.
  intros Hab Hcd [H1 H12] H2. rewrite !scale_segR. apply segR_monotone_down; [exact Hcd| |].
  - split; [apply pct_bounds; lra|apply pct_mono; assumption].
  - apply pct_bounds; lra.
Qed.

(* the hypotheses are satisfiable; a concrete instance with a curved shape *)
Example scale_example_bounds :
  scale R RNum 2 2 6 10 (-30) 3 = 10 /\ scale R RNum 6 2 6 10 (-30) 3 = -30 /\
  -30 <= scale R RNum 5 2 6 10 (-30) 3 <= 10 /\
  scale R RNum 3 2 6 10 (-30) 3 >= scale R RNum 5 2 6 10 (-30) 3.
Proof.
  split; [apply scale_old_min; lra|]. split; [apply scale_old_max; lra|]. split.
  - pose proof (scale_in_range 5 2 6 10 (-30) 3 ltac:(lra) ltac:(lra)) as H.
    unfold Rmin, Rmax in H. destruct (Rle_dec 10 (-30)); lra.
  - apply scale_monotone_down; lra.
Qed.

Print Assumptions scale_old_min.
Print Assumptions scale_old_max.
Print Assumptions scale_in_range.
Print Assumptions scale_monotone_up.
Print Assumptions scale_monotone_down.
