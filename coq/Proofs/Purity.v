(* C10: reading from an envelope.  In the model of the fixed tree no read writes: `step` threads the
   envelope through a history of reads exactly as the implementation threads its (mutable) object,
   and returns it unchanged.  The theorems below are therefore short; what they add over the
   definitions is the statement for every history and every order.  That the implementation's
   reads have an empty write set is established by the correspondence (control points are
   snapshotted after every read), not by these theorems. *)
From Coq Require Import ZArith List Bool Permutation.
From MV Require Import Base.Res Model.EventTree Model.TreeOps Model.Num Model.Envelope.
Import ListNotations.

Section Reads.
  Variable F : Type.
  Variable N : Num F.

  Inductive query :=
  | QValue (t : Z) | QParameter (t : Z) | QShape (t : Z) | QPoint (t : Z)
  | QRange (s en : Z) | QIntegrate (s en : Z) | QAverage (s en : Z) | QStatic | QPoints.

  Inductive answer :=
  | ANum (r : res F) | APoint (r : res (point F)) | APoints (r : res (list (point F))) | ABool (b : bool).

  Definition ask (e : env F) (q : query) : answer :=
    match q with
    | QValue t | QParameter t => ANum (value_at F N e t)
    | QShape t => ANum (curve_shape_at F N e t)
    | QPoint t => APoint (point_at F N e t)
    | QRange s en => APoints (points_in_range F N e s en)
    | QIntegrate s en => ANum (integrate F N e s en)
    | QAverage s en => ANum (average F N e s en)
    | QStatic => ABool (is_static F N e)
    | QPoints => APoints (Ok (to_points F e))
    end.

  (* one read on the live object: new state of the object, answer *)
  Definition step (e : env F) (q : query) : env F * answer := (e, ask e q).

  Fixpoint run (e : env F) (qs : list query) : env F * list answer :=
    match qs with
    | [] => (e, [])
    | q :: r => let '(e1, a) := step e q in let '(e2, l) := run e1 r in (e2, a :: l)
    end.

  Theorem query_pure : forall e q, fst (step e q) = e.
  Proof. reflexivity. Qed.

  (* every control point is left exactly as it was, and every answer is the answer an untouched copy gives *)
  Theorem queries_pure : forall qs e, run e qs = (e, map (ask e) qs).
  Proof.
    induction qs as [|q r IH]; intros e; [reflexivity|].
    cbn [run step map]. rewrite IH. reflexivity.
  Qed.

  (* in any order: the answers are the same answers, permuted alike *)
  Theorem queries_order_independent : forall e qs qs', Permutation qs qs' ->
    fst (run e qs) = fst (run e qs') /\ Permutation (snd (run e qs)) (snd (run e qs')).
  Proof.
    intros e qs qs' H. rewrite !queries_pure. cbn [fst snd]. split; [reflexivity|].
    apply Permutation_map. exact H.
  Qed.

  (* a read in the middle of a history does not influence the later answers *)
  Theorem queries_independent_of_prefix : forall e qs1 qs2,
    snd (run e (qs1 ++ qs2)) = snd (run e qs1) ++ snd (run e qs2).
  Proof. intros. rewrite !queries_pure. cbn [snd]. apply map_app. Qed.
End Reads.
