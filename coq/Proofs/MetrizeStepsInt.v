(* The step model against the one-trajectory model: under ONE step trajectory the seconds the step model gives to the
   beats [x, b) are the integral of the seconds-per-beat curve over them - the number `integrate` (the routine of the
   one-trajectory model, proved equal to the Riemann integral in Integral.v) computes.  So the two models agree where
   both apply, not only by construction of metrize2. *)
From Coquelicot Require Import Coquelicot.
From Coq Require Import ZArith List Bool Reals Lra Lia.
From MV Require Import Base.Res Model.EventTree Model.TreeOps Model.Num Model.Envelope Model.Convert Model.MetrizeSteps
  Proofs.RNum Proofs.Resample Proofs.Integral Proofs.ConvertP Proofs.MetrizeStepsP Proofs.MetrizeStepsAdd.
Import ListNotations.
Local Open Scope Z_scope.

Lemma neqb_true (a b : R) : neqb RNum a b = true -> a = b.
Proof. cbn. destruct (Req_EM_T a b); [auto|discriminate]. Qed.

Lemma is_step_cons (p q : ptR) r : is_step R RNum (p :: q :: r) = true ->
  (pd p = 0 \/ pv p = pv q) /\ is_step R RNum (q :: r) = true.
Proof.
  cbn [is_step]. intro H. apply andb_true_iff in H. destruct H as [H1 H2]. split; [|exact H2].
  apply orb_true_iff in H1. destruct H1 as [H1|H1]; [left; apply Z.eqb_eq; exact H1|right; apply neqb_true; exact H1].
Qed.

(* strictly inside a stretch without control times the curve is the step value at the stretch's start *)
Lemma curve_go_step : forall rest (p : ptR) t0 u x,
  pwf (p :: rest) -> is_step R RNum (p :: rest) = true -> t0 <= u -> (tofR u < x)%R ->
  (forall ti, In ti (pstarts_from R t0 (p :: rest)) -> u < ti -> (x < tofR ti)%R) ->
  curve_go (tofR t0) p rest x = step_value_go R (t0 + pd p) (pv p) rest u.
Proof.
  induction rest as [|q r IH]; intros p t0 u x W S Hu Hx Hn; [reflexivity|].
  apply pwf_cons in W. destruct W as [Wp W]. destruct (is_step_cons p q r S) as [Sp Sq].
  cbn [step_value_go].
  destruct (Z.leb_spec (t0 + pd p) u) as [A|A].
  - rewrite curve_go_ge by (apply tofR_le in A; lra).
    apply IH; [exact W|exact Sq|exact A|exact Hx|].
    intros ti Hi. apply Hn. cbn [pstarts_from]. right. exact Hi.
  - assert (Hx1 : (x < tofR (t0 + pd p))%R).
    { apply Hn; [cbn [pstarts_from]; right; left; reflexivity|exact A]. }
    rewrite curve_go_lt by exact Hx1.
    destruct Sp as [Sp|Sp]; [lia|]. rewrite <- Sp. apply segR_const.
Qed.

Lemma curve_step (p : ptR) rest u x : pwf (p :: rest) -> is_step R RNum (p :: rest) = true -> 0 <= u -> (tofR u < x)%R ->
  (forall ti, In ti (pstarts R (p :: rest)) -> u < ti -> (x < tofR ti)%R) ->
  curve (p :: rest) x = step_value R RNum (p :: rest) u.
Proof.
  intros W S Hu Hx Hn. pose proof (tofR_nonneg _ Hu) as Nu.
  rewrite curve_pos by lra. unfold step_value. cbn [step_value_go].
  destruct (Z.leb_spec 0 u); [|lia]. rewrite tofR_0.
  rewrite <- tofR_0. apply (curve_go_step rest p 0 u x W S Hu Hx). exact Hn.
Qed.

(* one stretch: the integral of the curve is length * step value *)
Lemma RInt_stretch (p : ptR) rest u v : pwf (p :: rest) -> is_step R RNum (p :: rest) = true -> 0 <= u -> u <= v ->
  (forall ti, In ti (pstarts R (p :: rest)) -> u < ti -> v <= ti) ->
  is_RInt (curve (p :: rest)) (tofR u) (tofR v) (tofR (v - u) * step_value R RNum (p :: rest) u)%R.
Proof.
  intros W S Hu Huv Hn.
  apply (is_RInt_ext (fun _ => step_value R RNum (p :: rest) u)).
  - intros x Hx. pose proof (tofR_le _ _ Huv) as L. rewrite Rmin_left, Rmax_right in Hx by exact L.
    symmetry. apply curve_step; [exact W|exact S|exact Hu|lra|].
    intros ti Hi A. pose proof (tofR_le _ _ (Hn ti Hi A)). lra.
  - replace (tofR (v - u) * step_value R RNum (p :: rest) u)%R with (scal (tofR v - tofR u)%R (step_value R RNum (p :: rest) u)).
    + apply (@is_RInt_const R_NormedModule).
    + rewrite tofR_minus. reflexivity.
Qed.

(* the step model under one trajectory, stretch by stretch, is the Riemann integral of the curve *)
Lemma integ_steps_is_RInt (p : ptR) rest s0 b : pwf (p :: rest) -> is_step R RNum (p :: rest) = true ->
  forall f x, (cnt (bps [(p :: rest, s0)]) x b < f)%nat -> s0 <= x -> x <= b ->
  is_RInt (curve (p :: rest)) (tofR (x - s0)) (tofR (b - s0)) (integ_steps R RNum f [(p :: rest, s0)] x b).
Proof.
  intros W S. set (e := p :: rest). set (c := [(e, s0)]). set (L := bps c).
  induction f as [|f IH]; intros x Hf H0 Hb; [lia|].
  destruct (Z.eq_dec x b) as [->|Nb].
  { rewrite integ_zero by lia. apply (@is_RInt_point R_NormedModule). }
  assert (Hxb : x < b) by lia.
  rewrite (integ_steps_first_piece f c x b Hxb). rewrite next_bp_nxt. fold L.
  destruct (nxt_spec L x b Hxb) as (H1 & H2 & H3).
  set (nx := nxt L x b) in *.
  refine (@is_RInt_Chasles R_NormedModule (curve e) _ (tofR (nx - s0)) _ _ _ _ _).
  - (* the first stretch *)
    replace (prod_at R RNum c x) with (step_value R RNum e (x - s0)).
    + replace (nx - x) with ((nx - s0) - (x - s0)) by lia.
      apply RInt_stretch; [exact W|exact S|lia|lia|].
      intros ti Hi A. assert (Hin : In (s0 + ti) L).
      { unfold L, c. apply (in_bps [(e, s0)] e s0 ti); [left; reflexivity|exact Hi]. }
      destruct (Z.lt_ge_cases (s0 + ti) b) as [B|B]; [pose proof (H3 _ Hin ltac:(lia) B); lia|lia].
    + unfold c. rewrite prod_at_cons, prod_at_nil. ring.
  - destruct (Z.eq_dec nx b) as [E|N].
    + rewrite E, integ_zero by lia. apply (@is_RInt_point R_NormedModule).
    + apply IH; [|lia|lia]. pose proof (cnt_next L x b Hxb ltac:(fold nx; lia)). fold nx in H. fold L. lia.
Qed.

(* under one step trajectory the step model computes the number the one-trajectory model computes *)
Theorem integ_steps_is_integrate (e : envR) s0 x b I : e <> [] -> pwf e -> is_step R RNum e = true ->
  s0 <= x -> x <= b -> integrate R RNum e (x - s0) (b - s0) = Ok I ->
  integ_steps R RNum (fuel_of R [(e, s0)]) [(e, s0)] x b = I.
Proof.
  intros Ne W S H0 Hb HI. destruct e as [|p rest]; [contradiction|].
  pose proof (integrate_is_RInt (p :: rest) (x - s0) (b - s0) I Ne W ltac:(lia) HI) as R1.
  pose proof (integ_steps_is_RInt p rest s0 b W S (fuel_of R [(p :: rest, s0)]) x (fuel_enough _ x b) H0 Hb) as R2.
  pose proof (@is_RInt_unique R_CompleteNormedModule _ _ _ _ R1) as U1.
  pose proof (@is_RInt_unique R_CompleteNormedModule _ _ _ _ R2) as U2.
  rewrite U1 in U2. symmetry. exact U2.
Qed.

Print Assumptions integ_steps_is_integrate.
