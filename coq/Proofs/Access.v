(* Access by tag, slices, concatenation, remove_by and tie_by:
   Compound.__getitem__/__setitem__/__delitem__ with a tag, slices / + keeping kind and meta,
   remove_by(condition), tie_by(condition, Chronon, event_to_remove). *)
From Coq Require Import ZArith List Bool Lia ZifyBool Arith.
From MV Require Import Base.Res Model.EventTree Model.TreeOps Proofs.TreeLemmas.
Import ListNotations.
Open Scope Z_scope.

(* ================================================================ 1. first_with_tag *)
Lemma first_with_tag_nil tg i : first_with_tag tg i [] = None.
Proof. reflexivity. Qed.
Lemma first_with_tag_cons tg i c r :
  first_with_tag tg i (c :: r) = if tg =? tag (meta_of c) then Some i else first_with_tag tg (S i) r.
Proof. reflexivity. Qed.

(* k is the first index of cs whose child carries the tag tg, and c is that child *)
Definition is_first (tg : Z) (cs : list ev) (k : nat) (c : ev) : Prop :=
  nth_error cs k = Some c /\ tag (meta_of c) = tg /\
  forall j c', (j < k)%nat -> nth_error cs j = Some c' -> tag (meta_of c') <> tg.

Lemma is_first_unique tg cs k c k' c' : is_first tg cs k c -> is_first tg cs k' c' -> k = k' /\ c = c'.
Proof.
  intros (Hk & Ht & Hf) (Hk' & Ht' & Hf').
  assert (k = k') as <-.
  { destruct (lt_eq_lt_dec k k') as [[L|E]|L]; [|exact E|].
    - exfalso. exact (Hf' k c L Hk Ht).
    - exfalso. exact (Hf k' c' L Hk' Ht'). }
  split; [reflexivity|congruence].
Qed.

Lemma is_first_lt tg cs k c : is_first tg cs k c -> (k < length cs)%nat.
Proof. intros (Hk & _). apply nth_error_Some. congruence. Qed.

Theorem first_with_tag_spec tg cs : forall i0 i,
  first_with_tag tg i0 cs = Some i <->
  exists k c, i = (i0 + k)%nat /\ nth_error cs k = Some c /\ tag (meta_of c) = tg /\
              forall j c', (j < k)%nat -> nth_error cs j = Some c' -> tag (meta_of c') <> tg.
Proof.
  induction cs as [|a r IH]; intros i0 i.
  - rewrite first_with_tag_nil. split; [discriminate|]. intros (k & c & _ & H & _). destruct k; discriminate.
  - rewrite first_with_tag_cons. destruct (tg =? tag (meta_of a)) eqn:E.
    + split.
      * intros H. inversion H; subst i. exists 0%nat, a.
        split; [lia|]. split; [reflexivity|]. split; [lia|]. intros j c' Hj. lia.
      * intros (k & c & -> & Hk & Ht & Hf). destruct k as [|k]; [f_equal; lia|].
        exfalso. apply (Hf 0%nat a); [lia|reflexivity|lia].
    + rewrite IH. split.
      * intros (k & c & -> & Hk & Ht & Hf). exists (S k), c.
        split; [lia|]. split; [exact Hk|]. split; [exact Ht|].
        intros j c' Hj Hn. destruct j as [|j]; simpl in Hn; [inversion Hn; subst; lia|].
        apply (Hf j c'); [lia|exact Hn].
      * intros (k & c & -> & Hk & Ht & Hf). destruct k as [|k]; simpl in Hk.
        -- inversion Hk; subst. lia.
        -- exists k, c. split; [lia|]. split; [exact Hk|]. split; [exact Ht|].
           intros j c' Hj Hn. apply (Hf (S j) c'); [lia|exact Hn].
Qed.

Theorem first_with_tag_none tg cs : forall i0,
  first_with_tag tg i0 cs = None <-> forall c, In c cs -> tag (meta_of c) <> tg.
Proof.
  induction cs as [|a r IH]; intros i0.
  - rewrite first_with_tag_nil. split; [intros _ c []|reflexivity].
  - rewrite first_with_tag_cons. destruct (tg =? tag (meta_of a)) eqn:E.
    + split; [discriminate|]. intros H. exfalso. apply (H a); [left; reflexivity|lia].
    + rewrite IH. split.
      * intros H c [<-|Hc]; [lia|auto].
      * intros H c Hc. apply H. right. exact Hc.
Qed.

(* the two outcomes are exhaustive and the index is in range *)
Lemma first_with_tag_first tg cs i :
  first_with_tag tg 0%nat cs = Some i <-> exists c, is_first tg cs i c.
Proof.
  rewrite first_with_tag_spec. unfold is_first. split.
  - intros (k & c & -> & H). exists c. exact H.
  - intros (c & H). exists i, c. split; [reflexivity|exact H].
Qed.

(* ================================================================ 2. __getitem__(tag) *)
Theorem get_by_tag_first cs tg c :
  get_by_tag cs tg = Ok c <->
  exists k, nth_error cs k = Some c /\ tag (meta_of c) = tg /\
            forall j c', (j < k)%nat -> nth_error cs j = Some c' -> tag (meta_of c') <> tg.
Proof.
  unfold get_by_tag. destruct (first_with_tag tg 0%nat cs) as [i|] eqn:E.
  - apply first_with_tag_first in E. destruct E as (c0 & H0). pose proof H0 as (Hn & _). rewrite Hn. split.
    + intros H. inversion H; subst c0. exists i. exact H0.
    + intros (k & H). destruct (is_first_unique _ _ _ _ _ _ H0 H) as [_ ->]. reflexivity.
  - split; [discriminate|]. intros (k & Hk & Ht & _). exfalso.
    rewrite first_with_tag_none in E. exact (E c (nth_error_In _ _ Hk) Ht).
Qed.

Theorem get_by_tag_keyerror cs tg :
  (forall c, In c cs -> tag (meta_of c) <> tg) <-> get_by_tag cs tg = Err EKeyError.
Proof.
  rewrite <- (first_with_tag_none tg cs 0%nat). unfold get_by_tag.
  destruct (first_with_tag tg 0%nat cs) as [i|] eqn:E.
  - split; [discriminate|]. apply first_with_tag_first in E. destruct E as (c0 & Hn & _). rewrite Hn. discriminate.
  - split; reflexivity.
Qed.

(* __getitem__ never fails in another way *)
Corollary get_by_tag_total cs tg : (exists c, get_by_tag cs tg = Ok c) \/ get_by_tag cs tg = Err EKeyError.
Proof.
  unfold get_by_tag. destruct (first_with_tag tg 0%nat cs) as [i|] eqn:E; [left|right; reflexivity].
  apply first_with_tag_first in E. destruct E as (c0 & Hn & _). rewrite Hn. eauto.
Qed.

(* ================================================================ 3. __setitem__(tag) / __delitem__(tag) *)
Lemma replace_at_nth {A} (new : A) : forall k (l : list A) j, (k < length l)%nat ->
  nth_error (firstn k l ++ new :: skipn (S k) l) j = if (j =? k)%nat then Some new else nth_error l j.
Proof.
  induction k as [|k IH]; intros [|a l] j Hk; simpl in Hk; try lia.
  - destruct j; reflexivity.
  - destruct j as [|j]; [reflexivity|]. cbn [firstn skipn app nth_error]. rewrite IH by lia. reflexivity.
Qed.
Lemma replace_at_length {A} (new : A) k (l : list A) : (k < length l)%nat ->
  length (firstn k l ++ new :: skipn (S k) l) = length l.
Proof. intros H. rewrite app_length, firstn_length. cbn [length]. rewrite skipn_length. lia. Qed.
Lemma delete_at_nth {A} : forall k (l : list A) j,
  nth_error (firstn k l ++ skipn (S k) l) j = if (j <? k)%nat then nth_error l j else nth_error l (S j).
Proof.
  induction k as [|k IH]; intros [|a l] j.
  - destruct j; reflexivity.
  - reflexivity.
  - cbn [firstn skipn app]. destruct (j <? S k)%nat; destruct j; reflexivity.
  - destruct j as [|j]; [reflexivity|]. cbn [firstn skipn app nth_error]. rewrite IH.
    change (S j <? S k)%nat with (j <? k)%nat. reflexivity.
Qed.
Lemma delete_at_length {A} k (l : list A) : (k < length l)%nat ->
  length (firstn k l ++ skipn (S k) l) = pred (length l).
Proof. intros H. rewrite app_length, firstn_length, skipn_length. lia. Qed.

Theorem set_by_tag_spec cs tg new cs' :
  set_by_tag cs tg new = Ok cs' <->
  exists k c, is_first tg cs k c /\ cs' = firstn k cs ++ new :: skipn (S k) cs.
Proof.
  unfold set_by_tag, replace_at. destruct (first_with_tag tg 0%nat cs) as [i|] eqn:E.
  - apply first_with_tag_first in E. destruct E as (c0 & H0). split.
    + intros H. inversion H. exists i, c0. split; [exact H0|reflexivity].
    + intros (k & c & H & ->). destruct (is_first_unique _ _ _ _ _ _ H0 H) as [-> _]. reflexivity.
  - split; [discriminate|]. intros (k & c & (Hk & Ht & _) & _). exfalso.
    rewrite first_with_tag_none in E. exact (E c (nth_error_In _ _ Hk) Ht).
Qed.
Theorem set_by_tag_keyerror cs tg new :
  (forall c, In c cs -> tag (meta_of c) <> tg) <-> set_by_tag cs tg new = Err EKeyError.
Proof.
  rewrite <- (first_with_tag_none tg cs 0%nat). unfold set_by_tag.
  destruct (first_with_tag tg 0%nat cs); split; try discriminate; reflexivity.
Qed.
(* length kept, the first tagged child replaced, every other child untouched *)
Corollary set_by_tag_effect cs tg new cs' : set_by_tag cs tg new = Ok cs' ->
  length cs' = length cs /\
  exists k c, is_first tg cs k c /\ forall j, nth_error cs' j = if (j =? k)%nat then Some new else nth_error cs j.
Proof.
  intros H. apply set_by_tag_spec in H. destruct H as (k & c & H & ->). pose proof (is_first_lt _ _ _ _ H) as L.
  split; [apply replace_at_length; exact L|]. exists k, c. split; [exact H|]. intros j. apply replace_at_nth. exact L.
Qed.

Theorem del_by_tag_spec cs tg cs' :
  del_by_tag cs tg = Ok cs' <->
  exists k c, is_first tg cs k c /\ cs' = firstn k cs ++ skipn (S k) cs.
Proof.
  unfold del_by_tag. destruct (first_with_tag tg 0%nat cs) as [i|] eqn:E.
  - apply first_with_tag_first in E. destruct E as (c0 & H0). split.
    + intros H. inversion H. exists i, c0. split; [exact H0|reflexivity].
    + intros (k & c & H & ->). destruct (is_first_unique _ _ _ _ _ _ H0 H) as [-> _]. reflexivity.
  - split; [discriminate|]. intros (k & c & (Hk & Ht & _) & _). exfalso.
    rewrite first_with_tag_none in E. exact (E c (nth_error_In _ _ Hk) Ht).
Qed.
Theorem del_by_tag_keyerror cs tg :
  (forall c, In c cs -> tag (meta_of c) <> tg) <-> del_by_tag cs tg = Err EKeyError.
Proof.
  rewrite <- (first_with_tag_none tg cs 0%nat). unfold del_by_tag.
  destruct (first_with_tag tg 0%nat cs); split; try discriminate; reflexivity.
Qed.
(* one child fewer: the children before k stay, the later ones move down by one *)
Corollary del_by_tag_effect cs tg cs' : del_by_tag cs tg = Ok cs' ->
  length cs' = pred (length cs) /\
  exists k c, is_first tg cs k c /\
    forall j, nth_error cs' j = if (j <? k)%nat then nth_error cs j else nth_error cs (S j).
Proof.
  intros H. apply del_by_tag_spec in H. destruct H as (k & c & H & ->). pose proof (is_first_lt _ _ _ _ H) as L.
  split; [apply delete_at_length; exact L|]. exists k, c. split; [exact H|]. intros j. apply delete_at_nth.
Qed.

(* get after set: the new child is found under its own tag when it carries the tag that was used *)
Corollary get_after_set cs tg new cs' : set_by_tag cs tg new = Ok cs' -> tag (meta_of new) = tg ->
  get_by_tag cs' tg = Ok new.
Proof.
  intros H Hn. apply set_by_tag_effect in H. destruct H as (_ & k & c & (Hk & Ht & Hf) & Hj).
  apply get_by_tag_first. exists k. split; [rewrite Hj, Nat.eqb_refl; reflexivity|]. split; [exact Hn|].
  intros j c' L Hc'. rewrite Hj in Hc'. destruct (j =? k)%nat eqn:E; [apply Nat.eqb_eq in E; lia|]. exact (Hf j c' L Hc').
Qed.

(* ================================================================ 4. kind / meta kept, slices, + *)
Inductive kind_t := KLeaf | KSeq | KSim.
Definition kind (e : ev) : kind_t := match e with Leaf _ _ => KLeaf | Seq _ _ => KSeq | Sim _ _ => KSim end.

Theorem with_children_shape e cs' :
  kind (with_children e cs') = kind e /\ meta_of (with_children e cs') = meta_of e /\
  (is_leaf e = false -> children (with_children e cs') = cs') /\
  (forall m cs, e = Seq m cs -> with_children e cs' = Seq m cs') /\
  (forall m cs, e = Sim m cs -> with_children e cs' = Sim m cs') /\
  (forall d l, e = Leaf d l -> with_children e cs' = Leaf d l).
Proof.
  destruct e as [d l|m cs|m cs]; simpl; repeat split; try discriminate; try reflexivity; intros; congruence.
Qed.

Theorem lslice_spec {A} i0 i1 (l : list A) : lslice i0 i1 l = firstn (i1 - i0) (skipn i0 l).
Proof. reflexivity. Qed.

Lemma nth_error_firstn' {A} : forall n (l : list A) k,
  nth_error (firstn n l) k = if (k <? n)%nat then nth_error l k else None.
Proof.
  induction n as [|n IH]; intros l k.
  - destruct k; reflexivity.
  - destruct l as [|a l]; [destruct k; simpl; repeat match goal with |- context [if ?c then _ else _] => destruct c end; reflexivity|].
    destruct k as [|k]; [reflexivity|]. cbn [firstn nth_error]. rewrite IH. reflexivity.
Qed.
Lemma nth_error_skipn' {A} : forall n (l : list A) k, nth_error (skipn n l) k = nth_error l (n + k).
Proof.
  induction n as [|n IH]; intros l k; [reflexivity|]. destruct l as [|a l]; [destruct k; reflexivity|].
  cbn [skipn plus nth_error]. apply IH.
Qed.

(* the slice is the list of the elements with index in [i0, i1) (no side condition is needed) *)
Theorem lslice_sublist {A} i0 i1 (l : list A) k :
  nth_error (lslice i0 i1 l) k = if (k <? i1 - i0)%nat then nth_error l (i0 + k) else None.
Proof. unfold lslice. rewrite nth_error_firstn', nth_error_skipn'. reflexivity. Qed.
Corollary lslice_length {A} i0 i1 (l : list A) : (i1 <= length l)%nat -> length (lslice i0 i1 l) = (i1 - i0)%nat.
Proof. intros H. unfold lslice. rewrite firstn_length, skipn_length. lia. Qed.
(* e[i0:i1] keeps kind, tag and tempo *)
Corollary slice_keeps_meta e i0 i1 :
  kind (with_children e (lslice i0 i1 (children e))) = kind e /\
  meta_of (with_children e (lslice i0 i1 (children e))) = meta_of e.
Proof. destruct (with_children_shape e (lslice i0 i1 (children e))) as (H1 & H2 & _). split; assumption. Qed.

Theorem seq_add_spec m cs o : seq_add (Seq m cs) o = Ok (Seq m (cs ++ children o)).
Proof. reflexivity. Qed.
Theorem seq_add_dur m cs o e' : seq_add (Seq m cs) o = Ok e' ->
  dur e' = dsum cs + dsum (children o) /\ meta_of e' = m /\ kind e' = KSeq.
Proof. rewrite seq_add_spec. intros H. inversion H; subst. rewrite dur_seq, dsum_app. repeat split. Qed.
Theorem seq_add_at cs os x : wfs cs -> wfs os ->
  at_seq (cs ++ os) x = if x <? dsum cs then at_seq cs x else at_seq os (x - dsum cs).
Proof. apply at_seq_app. Qed.
Corollary seq_add_content m cs o e' x : wfs cs -> wfs (children o) -> seq_add (Seq m cs) o = Ok e' ->
  at_ e' x = if x <? dsum cs then at_seq cs x else at_seq (children o) (x - dsum cs).
Proof. intros H1 H2 H. rewrite seq_add_spec in H. inversion H; subst. rewrite at_seq_eq. apply at_seq_app; assumption. Qed.
Theorem seq_add_not_seq e o : kind e <> KSeq -> seq_add e o = Err EAttributeError.
Proof. destruct e; simpl; intros H; [reflexivity|congruence|reflexivity]. Qed.

(* ================================================================ 5. remove_by *)
Inductive sublist {A} : list A -> list A -> Prop :=
| sub_nil : sublist [] []
| sub_skip a l1 l2 : sublist l1 l2 -> sublist l1 (a :: l2)
| sub_keep a l1 l2 : sublist l1 l2 -> sublist (a :: l1) (a :: l2).

Lemma filter_sublist {A} (f : A -> bool) l : sublist (filter f l) l.
Proof. induction l as [|a l IH]; simpl; [constructor|]. destruct (f a); constructor; exact IH. Qed.

Theorem remove_by_spec keep e : children (remove_by keep e) = filter keep (children e).
Proof. destruct e as [d l|m cs|m cs]; reflexivity. Qed.
Theorem remove_by_in keep e c : In c (children (remove_by keep e)) <-> In c (children e) /\ keep c = true.
Proof. rewrite remove_by_spec. apply filter_In. Qed.
Theorem remove_by_order keep e : sublist (children (remove_by keep e)) (children e).
Proof. rewrite remove_by_spec. apply filter_sublist. Qed.
Theorem remove_by_app keep m a b :
  children (remove_by keep (Seq m (a ++ b))) = children (remove_by keep (Seq m a)) ++ children (remove_by keep (Seq m b)).
Proof. rewrite !remove_by_spec. apply filter_app. Qed.
Theorem remove_by_shape keep e : kind (remove_by keep e) = kind e /\ meta_of (remove_by keep e) = meta_of e.
Proof. unfold remove_by. destruct (with_children_shape e (filter keep (children e))) as (H1 & H2 & _). split; assumption. Qed.

(* ================================================================ 6. tie_by *)
Lemma tie_flat_nil cond rm a : tie_flat cond rm a [] = [a].
Proof. reflexivity. Qed.
Lemma tie_flat_cons cond rm a b r : tie_flat cond rm a (b :: r) =
  if is_leaf a && is_leaf b && cond a b then tie_flat cond rm (merge_leaf rm a b) r else a :: tie_flat cond rm b r.
Proof. reflexivity. Qed.

(* the tying step applied to a whole child list *)
Definition tie_list (cond : ev -> ev -> bool) (rm : bool) (l : list ev) : list ev :=
  match l with [] => [] | a :: r => tie_flat cond rm a r end.

(* (d) tying is applied inside every nested container, then to the list of results *)
Theorem tie_by_nested_seq cond rm m cs : tie_by cond rm (Seq m cs) =
  Seq m (match map (tie_by cond rm) cs with [] => [] | a :: r => tie_flat cond rm a r end).
Proof. reflexivity. Qed.
Theorem tie_by_nested_sim cond rm m cs : tie_by cond rm (Sim m cs) =
  Sim m (match map (tie_by cond rm) cs with [] => [] | a :: r => tie_flat cond rm a r end).
Proof. reflexivity. Qed.
Lemma tie_by_leaf cond rm d l : tie_by cond rm (Leaf d l) = Leaf d l.
Proof. reflexivity. Qed.

Lemma merge_leaf_dur rm a b : is_leaf a = true -> is_leaf b = true -> dur (merge_leaf rm a b) = dur a + dur b.
Proof. destruct a, b; try discriminate. intros _ _. destruct rm; simpl; lia. Qed.
Lemma merge_leaf_is_leaf rm a b : is_leaf a = true -> is_leaf (merge_leaf rm a b) = true.
Proof. destruct a, b; try discriminate; intros _; destruct rm; reflexivity. Qed.

(* (a) tying never changes the total of a sequence *)
Theorem tie_flat_dsum : forall cond rm a r, dsum (tie_flat cond rm a r) = dsum (a :: r).
Proof.
  intros cond rm a r. revert a. induction r as [|b r IH]; intros a; [reflexivity|].
  rewrite tie_flat_cons. destruct (is_leaf a && is_leaf b && cond a b) eqn:E.
  - rewrite IH. rewrite !dsum_cons. rewrite merge_leaf_dur; [lia| |];
      destruct (is_leaf a), (is_leaf b); simpl in E; congruence.
  - rewrite !dsum_cons, IH, dsum_cons. reflexivity.
Qed.
Corollary tie_list_dsum cond rm l : dsum (tie_list cond rm l) = dsum l.
Proof. destruct l as [|a r]; [reflexivity|]. apply tie_flat_dsum. Qed.
(* well-formedness is kept as well *)
Lemma merge_leaf_wf rm a b : wf a -> wf b -> wf (merge_leaf rm a b).
Proof. destruct a, b; simpl; auto. destruct rm; simpl; lia. Qed.
Lemma tie_flat_wfs cond rm : forall r a, wfs (a :: r) -> wfs (tie_flat cond rm a r).
Proof.
  induction r as [|b r IH]; intros a H; [exact H|]. rewrite tie_flat_cons. destruct H as (Ha & Hb & Hr).
  destruct (is_leaf a && is_leaf b && cond a b).
  - apply IH. split; [apply merge_leaf_wf; assumption|exact Hr].
  - split; [exact Ha|]. apply IH. split; assumption.
Qed.

(* (b) no simultaneity anywhere in the tree *)
Fixpoint no_sim (e : ev) : Prop :=
  match e with
  | Leaf _ _ => True
  | Seq _ cs => (fix go l := match l with [] => True | c :: r => no_sim c /\ go r end) cs
  | Sim _ _ => False
  end.
Definition no_sims := fix go (l : list ev) : Prop := match l with [] => True | c :: r => no_sim c /\ go r end.
Lemma no_sim_seq m cs : no_sim (Seq m cs) = no_sims cs. Proof. reflexivity. Qed.

Theorem tie_by_dur cond rm e : no_sim e -> dur (tie_by cond rm e) = dur e.
Proof.
  induction e as [d l|m cs IH|m cs IH] using ev_ind'; intros H; [reflexivity| |destruct H].
  rewrite tie_by_nested_seq, !dur_seq. rewrite no_sim_seq in H.
  change (dsum (tie_list cond rm (map (tie_by cond rm) cs)) = dsum cs). rewrite tie_list_dsum.
  induction cs as [|c r IHr]; [reflexivity|]. inversion IH as [|? ? Hc Hr]; subst. destruct H as [H1 H2].
  cbn [map]. rewrite !dsum_cons, (Hc H1), (IHr Hr H2). reflexivity.
Qed.
(* ... and of the well-formedness, for every tree *)
Theorem tie_by_wf cond rm e : wf e -> wf (tie_by cond rm e).
Proof.
  induction e as [d l|m cs IH|m cs IH] using ev_ind'; intros H; [exact H| |].
  - rewrite tie_by_nested_seq, wf_seq. rewrite wf_seq in H.
    assert (G : wfs (map (tie_by cond rm) cs)).
    { induction cs as [|c r IHr]; [exact I|]. inversion IH as [|? ? Hc Hr]; subst. destruct H as [H1 H2].
      split; [exact (Hc H1)|exact (IHr Hr H2)]. }
    destruct (map (tie_by cond rm) cs) as [|a r]; [exact I|]. apply tie_flat_wfs. exact G.
  - rewrite tie_by_nested_sim, wf_sim. rewrite wf_sim in H.
    assert (G : wfs (map (tie_by cond rm) cs)).
    { induction cs as [|c r IHr]; [exact I|]. inversion IH as [|? ? Hc Hr]; subst. destruct H as [H1 H2].
      split; [exact (Hc H1)|exact (IHr Hr H2)]. }
    destruct (map (tie_by cond rm) cs) as [|a r]; [exact I|]. apply tie_flat_wfs. exact G.
Qed.

(* the duration claim is false for a simultaneity: two parallel leaves are "tied" into one of the summed length *)
Theorem tie_by_sim_refuted : exists e, dur (tie_by (fun _ _ => true) true e) <> dur e.
Proof. exists (Sim meta0 [Leaf 1 1; Leaf 1 2]). vm_compute. discriminate. Qed.

(* (c) key conditions on a list of leaves: the maximal runs of equal keys are collapsed *)
Definition label_of (e : ev) : Z := match e with Leaf _ l => l | _ => rest_label end.
Definition all_leaves (l : list ev) : Prop := Forall (fun e => is_leaf e = true) l.

(* adjacent elements are related by R *)
Fixpoint adj {A} (R : A -> A -> Prop) (l : list A) : Prop :=
  match l with
  | [] => True
  | a :: r => match r with [] => True | b :: _ => R a b end /\ adj R r
  end.

Section KeyRuns.
  Variable key : ev -> Z.

  (* the maximal runs of neighbouring elements with equal key *)
  Fixpoint runs (l : list ev) : list (list ev) :=
    match l with
    | [] => []
    | a :: r =>
      match runs r with
      | (b :: run) :: rs => if key a =? key b then (a :: b :: run) :: rs else [a] :: (b :: run) :: rs
      | other => [a] :: other
      end
    end.
  (* one run becomes one leaf: summed duration, label of the first (rm = true) or the last (rm = false) member *)
  Definition collapse (rm : bool) (run : list ev) : ev :=
    Leaf (dsum run) (label_of (if rm then hd (Leaf 0 0) run else last run (Leaf 0 0))).
  Definition group_runs (rm : bool) (l : list ev) : list ev := map (collapse rm) (runs l).

  Definition same_key (run : list ev) : Prop := forall x y, In x run -> In y run -> key x = key y.
  Definition keys_differ (r1 r2 : list ev) : Prop := forall x y, In x r1 -> In y r2 -> key x <> key y.

  Lemma runs_cons a r : runs (a :: r) =
    match runs r with
    | (b :: run) :: rs => if key a =? key b then (a :: b :: run) :: rs else [a] :: (b :: run) :: rs
    | other => [a] :: other
    end.
  Proof. reflexivity. Qed.
  Lemma runs_head b r : exists run rs, runs (b :: r) = (b :: run) :: rs.
  Proof.
    rewrite runs_cons. destruct (runs r) as [|[|c run] rs]; [eauto|eauto|]. destruct (key b =? key c); eauto.
  Qed.
  Lemma runs_cons2 a b r run rs : runs (b :: r) = (b :: run) :: rs ->
    runs (a :: b :: r) = if key a =? key b then (a :: b :: run) :: rs else [a] :: (b :: run) :: rs.
  Proof. intros H. rewrite (runs_cons a (b :: r)), H. reflexivity. Qed.
  Lemma runs_swap_head m b r run rs : key m = key b -> runs (b :: r) = (b :: run) :: rs ->
    runs (m :: r) = (m :: run) :: rs.
  Proof.
    intros Hk. rewrite !runs_cons. destruct (runs r) as [|[|c run'] rs'].
    - intros H; inversion H; reflexivity.
    - intros H; inversion H; reflexivity.
    - rewrite Hk. destruct (key b =? key c); intros H; inversion H; reflexivity.
  Qed.

  (* --- independent characterisation of [runs]: a partition into non-empty, key-homogeneous, maximal blocks *)
  Lemma runs_concat l : concat (runs l) = l.
  Proof.
    induction l as [|a r IH]; [reflexivity|]. rewrite runs_cons.
    destruct (runs r) as [|[|c run] rs]; simpl in *; try (rewrite IH; reflexivity).
    destruct (key a =? key c); simpl; rewrite IH; reflexivity.
  Qed.
  Lemma runs_nonempty l : Forall (fun run => run <> []) (runs l).
  Proof.
    induction l as [|a r IH]; [constructor|]. rewrite runs_cons.
    destruct (runs r) as [|[|c run] rs]; try (constructor; [discriminate|exact IH]).
    inversion IH; subst. destruct (key a =? key c); repeat constructor; try discriminate; assumption.
  Qed.
  Lemma runs_same_key l : Forall same_key (runs l).
  Proof.
    assert (S1 : forall a, same_key [a]). { intros a x y [<-|[]] [<-|[]]. reflexivity. }
    induction l as [|a r IH]; [constructor|]. rewrite runs_cons.
    destruct (runs r) as [|[|c run] rs]; try (constructor; [apply S1|exact IH]).
    inversion IH as [|? ? Hc Hrs]; subst. destruct (key a =? key c) eqn:E.
    - constructor; [|exact Hrs]. intros x y [<-|Hx] [<-|Hy]; [reflexivity| | |apply Hc; assumption].
      + rewrite <- (Hc c y (or_introl eq_refl) Hy). lia.
      + rewrite (Hc x c Hx (or_introl eq_refl)). lia.
    - constructor; [apply S1|]. constructor; assumption.
  Qed.
  Lemma runs_maximal l : adj keys_differ (runs l).
  Proof.
    induction l as [|a r IH]; [exact I|]. rewrite runs_cons. pose proof (runs_same_key r) as SK.
    destruct (runs r) as [|[|c run] rs].
    - split; exact I.
    - split; [|exact IH]. intros x y _ [].
    - inversion SK as [|? ? Hc _]; subst. destruct (key a =? key c) eqn:E.
      + destruct IH as [H1 H2]. split; [|exact H2]. destruct rs as [|r2 rs]; [exact I|].
        intros x y [<-|Hx] Hy; [|apply H1; assumption].
        intros Hxy. apply (H1 c y (or_introl eq_refl) Hy). lia.
      + split; [|exact IH]. intros x y [<-|[]] Hy. rewrite <- (Hc c y (or_introl eq_refl) Hy). lia.
  Qed.
  (* ... and it is the only such partition *)
  Theorem runs_unique : forall l rs, concat rs = l -> Forall (fun run => run <> []) rs ->
    Forall same_key rs -> adj keys_differ rs -> rs = runs l.
  Proof.
    induction l as [|a l IH]; intros rs Hc Hne Hsk Hadj.
    - destruct rs as [|[|x run] rs]; [reflexivity| |discriminate]. inversion Hne; subst. congruence.
    - destruct rs as [|[|x run] rs]; [discriminate|inversion Hne; subst; congruence|].
      cbn [concat app] in Hc. injection Hc as -> <-. inversion Hne as [|? ? _ Hne']; subst.
      inversion Hsk as [|? ? Hsk1 Hsk']; subst. destruct Hadj as [Hd Hadj'].
      destruct run as [|b run].
      + cbn [app] in *. rewrite runs_cons. rewrite <- (IH rs eq_refl Hne' Hsk' Hadj').
        destruct rs as [|[|c run] rs]; [reflexivity|reflexivity|].
        assert (key a <> key c) by (apply Hd; left; reflexivity).
        destruct (key a =? key c) eqn:E; [lia|reflexivity].
      + assert (E : (b :: run) :: rs = runs ((b :: run) ++ concat rs)).
        { apply IH; [reflexivity| | |].
          - constructor; [discriminate|exact Hne'].
          - constructor; [|exact Hsk']. intros x y Hx Hy. apply Hsk1; right; assumption.
          - split; [|exact Hadj']. destruct rs as [|r2 rs]; [exact I|]. intros x y Hx Hy. apply Hd; [right|]; assumption. }
        rewrite runs_cons, <- E.
        assert (key a = key b) by (apply Hsk1; [left|right; left]; reflexivity).
        destruct (key a =? key b) eqn:E'; [reflexivity|lia].
  Qed.

  (* --- properties of group_runs that do not mention tie_flat *)
  Lemma dsum_map_collapse rm rs : dsum (map (collapse rm) rs) = dsum (concat rs).
  Proof. induction rs as [|run rs IH]; [reflexivity|]. cbn [map concat]. rewrite dsum_cons, dsum_app, IH. reflexivity. Qed.
  Theorem group_runs_dsum rm l : dsum (group_runs rm l) = dsum l.
  Proof. unfold group_runs. rewrite dsum_map_collapse, runs_concat. reflexivity. Qed.
  Theorem group_runs_leaves rm l : all_leaves (group_runs rm l).
  Proof. unfold group_runs, all_leaves. apply Forall_forall. intros x Hx. apply in_map_iff in Hx. destruct Hx as (run & <- & _). reflexivity. Qed.
  Theorem group_runs_length rm l : length (group_runs rm l) = length (runs l).
  Proof. apply map_length. Qed.
  (* the i-th result: summed duration of the i-th run, label of its first / last member *)
  Theorem group_runs_nth rm l i : nth_error (group_runs rm l) i =
    option_map (fun run => Leaf (dsum run) (label_of (if rm then hd (Leaf 0 0) run else last run (Leaf 0 0))))
               (nth_error (runs l) i).
  Proof. apply nth_error_map. Qed.

  (* from here on the key of a leaf depends on its label only *)
  Hypothesis key_label : forall d d' l, key (Leaf d l) = key (Leaf d' l).

  Lemma key_collapse rm run x : all_leaves run -> same_key run -> In x run -> key (collapse rm run) = key x.
  Proof.
    intros Hl Hs Hx. unfold collapse.
    assert (G : forall y, In y run -> key (Leaf (dsum run) (label_of y)) = key x).
    { intros y Hy. rewrite <- (Hs y x Hy Hx). unfold all_leaves in Hl. rewrite Forall_forall in Hl.
      specialize (Hl y Hy). destruct y; try discriminate. apply key_label. }
    destruct run as [|a run]; [destruct Hx|]. destruct rm.
    - apply G. left. reflexivity.
    - apply G. clear. revert a. induction run as [|b run IH]; intros a; [left; reflexivity|].
      right. change (last (a :: b :: run) (Leaf 0 0)) with (last (b :: run) (Leaf 0 0)). apply IH.
  Qed.

  Lemma all_leaves_concat rs : all_leaves (concat rs) -> Forall all_leaves rs.
  Proof.
    induction rs as [|r rs IH]; [constructor|]. cbn [concat]. unfold all_leaves at 1. rewrite Forall_app.
    intros [H1 H2]. constructor; [exact H1|apply IH; exact H2].
  Qed.

  (* no two neighbouring results have equal keys *)
  Theorem group_runs_no_adjacent rm l : all_leaves l -> adj (fun x y => key x <> key y) (group_runs rm l).
  Proof.
    intros Hl. unfold group_runs.
    pose proof (runs_nonempty l) as Hne. pose proof (runs_same_key l) as Hsk. pose proof (runs_maximal l) as Hadj.
    rewrite <- (runs_concat l) in Hl. apply all_leaves_concat in Hl.
    induction (runs l) as [|r1 rs IH]; [exact I|].
    inversion Hne as [|? ? N1 Hne']; subst. inversion Hsk as [|? ? S1 Hsk']; subst. inversion Hl as [|? ? L1 Hl']; subst.
    destruct Hadj as [Hd Hadj']. cbn [map]. split; [|apply IH; assumption].
    destruct rs as [|r2 rs]; [exact I|]. cbn [map].
    inversion Hne' as [|? ? N2 _]; subst. inversion Hsk' as [|? ? S2 _]; subst. inversion Hl' as [|? ? L2 _]; subst.
    destruct r1 as [|x r1]; [congruence|]. destruct r2 as [|y r2]; [congruence|].
    rewrite (key_collapse rm (x :: r1) x L1 S1 (or_introl eq_refl)).
    rewrite (key_collapse rm (y :: r2) y L2 S2 (or_introl eq_refl)).
    apply Hd; left; reflexivity.
  Qed.

  (* --- tie_flat with the condition "equal keys" computes group_runs *)
  Definition key_cond (a b : ev) : bool := key a =? key b.

  Lemma collapse_single rm a : is_leaf a = true -> collapse rm [a] = a.
  Proof. destruct a; try discriminate. intros _. unfold collapse. rewrite dsum_cons. cbn [dsum dur]. destruct rm; simpl; f_equal; lia. Qed.

  Theorem tie_flat_runs rm : forall r a, all_leaves (a :: r) ->
    tie_flat key_cond rm a r = group_runs rm (a :: r).
  Proof.
    induction r as [|b r IH]; intros a H; inversion H as [|? ? Ha Hr]; subst.
    - rewrite tie_flat_nil. unfold group_runs. cbn [runs map]. rewrite collapse_single by exact Ha. reflexivity.
    - inversion Hr as [|? ? Hb Hr']; subst. rewrite tie_flat_cons, Ha, Hb. cbn [andb]. unfold key_cond at 1.
      destruct (runs_head b r) as (run & rs & Hrun). unfold group_runs. rewrite (runs_cons2 a b r run rs Hrun).
      destruct (key a =? key b) eqn:E.
      + assert (Hm : is_leaf (merge_leaf rm a b) = true) by (apply merge_leaf_is_leaf; exact Ha).
        assert (Hk : key (merge_leaf rm a b) = key b).
        { destruct a as [d1 l1| |], b as [d2 l2| |]; try discriminate. destruct rm; cbn [merge_leaf].
          - rewrite (key_label _ d1 l1). lia.
          - apply key_label. }
        rewrite IH by (constructor; assumption). unfold group_runs.
        rewrite (runs_swap_head _ b r run rs Hk Hrun). cbn [map]. f_equal.
        destruct a as [d1 l1| |], b as [d2 l2| |]; try discriminate. unfold collapse. rewrite !dsum_cons.
        destruct rm; cbn [merge_leaf dur hd label_of]; [f_equal; lia|].
        change (last (Leaf d1 l1 :: Leaf d2 l2 :: run) (Leaf 0 0)) with (last (Leaf d2 l2 :: run) (Leaf 0 0)).
        destruct run as [|c run]; [cbn [last label_of dsum]; f_equal; lia|].
        change (last (Leaf (d1 + d2) l2 :: c :: run) (Leaf 0 0)) with (last (c :: run) (Leaf 0 0)).
        change (last (Leaf d2 l2 :: c :: run) (Leaf 0 0)) with (last (c :: run) (Leaf 0 0)).
        f_equal. lia.
      + rewrite IH by exact Hr. unfold group_runs. rewrite Hrun. cbn [map]. rewrite collapse_single by exact Ha. reflexivity.
  Qed.

  (* the consequences stated directly for tie_flat *)
  Corollary tie_flat_runs_props rm a r : all_leaves (a :: r) ->
    all_leaves (tie_flat key_cond rm a r) /\
    adj (fun x y => key x <> key y) (tie_flat key_cond rm a r) /\
    length (tie_flat key_cond rm a r) = length (runs (a :: r)) /\
    dsum (tie_flat key_cond rm a r) = dsum (a :: r) /\
    forall i, nth_error (tie_flat key_cond rm a r) i =
      option_map (fun run => Leaf (dsum run) (label_of (if rm then hd (Leaf 0 0) run else last run (Leaf 0 0))))
                 (nth_error (runs (a :: r)) i).
  Proof.
    intros H. rewrite (tie_flat_runs rm r a H).
    split; [apply group_runs_leaves|]. split; [apply group_runs_no_adjacent; exact H|].
    split; [apply group_runs_length|]. split; [apply group_runs_dsum|]. intros i. apply group_runs_nth.
  Qed.

  (* tie_by on a sequence of leaves is exactly the grouping of its runs *)
  Corollary tie_list_seq_leaves rm m ls : all_leaves ls ->
    tie_by key_cond rm (Seq m ls) = Seq m (group_runs rm ls).
  Proof.
    intros H. rewrite tie_by_nested_seq. f_equal.
    assert (E : map (tie_by key_cond rm) ls = ls).
    { induction H as [|x l Hx Hl IH]; [reflexivity|]. cbn [map]. rewrite IH. destruct x; try discriminate. reflexivity. }
    rewrite E. destruct ls as [|a r]; [reflexivity|]. apply tie_flat_runs. exact H.
  Qed.
End KeyRuns.

(* any condition that agrees with "equal keys" ties the same way *)
Lemma tie_flat_ext cond cond' rm : (forall a b, cond a b = cond' a b) ->
  forall r a, tie_flat cond rm a r = tie_flat cond' rm a r.
Proof.
  intros H. induction r as [|b r IH]; intros a; [reflexivity|]. rewrite !tie_flat_cons, H, !IH. reflexivity.
Qed.
Theorem tie_flat_runs_cond key cond rm a r :
  (forall d d' l, key (Leaf d l) = key (Leaf d' l)) -> (forall a b, cond a b = (key a =? key b)) ->
  all_leaves (a :: r) -> tie_flat cond rm a r = group_runs key rm (a :: r).
Proof.
  intros Hk Hc Hl. rewrite (tie_flat_ext cond (key_cond key) rm Hc). apply tie_flat_runs; assumption.
Qed.

(* ================================================================ 7. examples *)
Definition tg (t : Z) : meta := mkMeta t 0.
Definition ex_cs : list ev :=
  [Leaf 2 9; Seq (tg 5) [Leaf 1 1]; Sim (mkMeta 7 3) [Leaf 1 2; Seq (tg 5) []]; Seq (tg 5) [Leaf 3 3]].

(* the tag 5 is carried by two children: the first one wins; a nested tag is not seen; 8 is missing *)
Example ex_get_repeated : get_by_tag ex_cs 5 = Ok (Seq (tg 5) [Leaf 1 1]).
Proof. vm_compute. reflexivity. Qed.
Example ex_get_missing : get_by_tag ex_cs 8 = Err EKeyError.
Proof. vm_compute. reflexivity. Qed.
Example ex_get_first_index : first_with_tag 5 0%nat ex_cs = Some 1%nat /\ first_with_tag 7 0%nat ex_cs = Some 2%nat.
Proof. vm_compute. split; reflexivity. Qed.
Example ex_set_repeated : set_by_tag ex_cs 5 (Leaf 4 4) =
  Ok [Leaf 2 9; Leaf 4 4; Sim (mkMeta 7 3) [Leaf 1 2; Seq (tg 5) []]; Seq (tg 5) [Leaf 3 3]].
Proof. vm_compute. reflexivity. Qed.
Example ex_set_missing : set_by_tag ex_cs 8 (Leaf 4 4) = Err EKeyError.
Proof. vm_compute. reflexivity. Qed.
Example ex_del_repeated : del_by_tag ex_cs 5 =
  Ok [Leaf 2 9; Sim (mkMeta 7 3) [Leaf 1 2; Seq (tg 5) []]; Seq (tg 5) [Leaf 3 3]].
Proof. vm_compute. reflexivity. Qed.
(* deleting twice removes both carriers, a third time raises *)
Example ex_del_thrice :
  (cs1 <- del_by_tag ex_cs 5 ; cs2 <- del_by_tag cs1 5 ; Ok cs2) = Ok [Leaf 2 9; Sim (mkMeta 7 3) [Leaf 1 2; Seq (tg 5) []]] /\
  (cs1 <- del_by_tag ex_cs 5 ; cs2 <- del_by_tag cs1 5 ; del_by_tag cs2 5) = Err EKeyError.
Proof. vm_compute. split; reflexivity. Qed.
(* the hypotheses of the specs are satisfiable on this nested list with a simultaneity *)
Example ex_is_first : is_first 5 ex_cs 1 (Seq (tg 5) [Leaf 1 1]).
Proof.
  split; [reflexivity|]. split; [reflexivity|]. intros j c' Hj Hn.
  destruct j as [|j]; [|lia]. inversion Hn; subst. vm_compute. discriminate.
Qed.
(* model artefact: tag 0 encodes "no tag", a lookup of 0 finds the first untagged child (not reachable from Python) *)
Example ex_get_tag0 : get_by_tag ex_cs 0 = Ok (Leaf 2 9).
Proof. vm_compute. reflexivity. Qed.

Example ex_slice : with_children (Sim (mkMeta 7 3) ex_cs) (lslice 1 3 ex_cs) =
  Sim (mkMeta 7 3) [Seq (tg 5) [Leaf 1 1]; Sim (mkMeta 7 3) [Leaf 1 2; Seq (tg 5) []]].
Proof. vm_compute. reflexivity. Qed.
Example ex_add : seq_add (Seq (mkMeta 7 3) [Leaf 1 1]) (Sim (tg 5) [Leaf 2 2; Leaf 3 3]) =
  Ok (Seq (mkMeta 7 3) [Leaf 1 1; Leaf 2 2; Leaf 3 3]).
Proof. vm_compute. reflexivity. Qed.
Example ex_remove_by : remove_by (fun c => 1 <? dur c) (Sim (mkMeta 7 3) ex_cs) =
  Sim (mkMeta 7 3) [Leaf 2 9; Seq (tg 5) [Leaf 3 3]].
Proof. vm_compute. reflexivity. Qed.

(* tie_by with "equal labels": a run of length 3 tied from both sides *)
Definition same_label (a b : ev) : bool := label_of a =? label_of b.
Example ex_tie_first : tie_by same_label true (Seq meta0 [Leaf 1 7; Leaf 2 7; Leaf 4 7; Leaf 8 3; Leaf 16 7]) =
  Seq meta0 [Leaf 7 7; Leaf 8 3; Leaf 16 7].
Proof. vm_compute. reflexivity. Qed.
(* labels mod 10 as key: the survivor is the first (rm = true) or the last (rm = false) member of the run *)
Definition key10 (e : ev) : Z := label_of e mod 10.
Example ex_tie_run3_first : tie_flat (key_cond key10) true (Leaf 1 7) [Leaf 2 17; Leaf 4 27; Leaf 8 3; Leaf 16 7] =
  [Leaf 7 7; Leaf 8 3; Leaf 16 7].
Proof. vm_compute. reflexivity. Qed.
Example ex_tie_run3_last : tie_flat (key_cond key10) false (Leaf 1 7) [Leaf 2 17; Leaf 4 27; Leaf 8 3; Leaf 16 7] =
  [Leaf 7 27; Leaf 8 3; Leaf 16 7].
Proof. vm_compute. reflexivity. Qed.
Example ex_runs : runs key10 [Leaf 1 7; Leaf 2 17; Leaf 4 27; Leaf 8 3; Leaf 16 7] =
  [[Leaf 1 7; Leaf 2 17; Leaf 4 27]; [Leaf 8 3]; [Leaf 16 7]].
Proof. vm_compute. reflexivity. Qed.
Example ex_key10_label : forall d d' l, key10 (Leaf d l) = key10 (Leaf d' l).
Proof. reflexivity. Qed.
(* nested: the inner sequence and the inner simultaneity are tied, a container interrupts a run of leaves *)
Example ex_tie_nested :
  tie_by same_label true
    (Seq (tg 5) [Leaf 1 7; Leaf 1 7; Seq (tg 6) [Leaf 2 1; Leaf 2 1; Leaf 2 2]; Leaf 1 7; Sim (tg 8) [Leaf 3 4; Leaf 3 4]; Leaf 1 7; Leaf 1 7]) =
  Seq (tg 5) [Leaf 2 7; Seq (tg 6) [Leaf 4 1; Leaf 2 2]; Leaf 1 7; Sim (tg 8) [Leaf 6 4]; Leaf 2 7].
Proof. vm_compute. reflexivity. Qed.
Example ex_no_sim : no_sim (Seq (tg 5) [Leaf 1 7; Seq (tg 6) [Leaf 2 1; Leaf 2 1]; Leaf 1 7]).
Proof. vm_compute. tauto. Qed.

Print Assumptions first_with_tag_spec.
Print Assumptions first_with_tag_none.
Print Assumptions get_by_tag_first.
Print Assumptions get_by_tag_keyerror.
Print Assumptions set_by_tag_spec.
Print Assumptions set_by_tag_effect.
Print Assumptions del_by_tag_spec.
Print Assumptions del_by_tag_effect.
Print Assumptions with_children_shape.
Print Assumptions lslice_sublist.
Print Assumptions seq_add_content.
Print Assumptions remove_by_spec.
Print Assumptions remove_by_order.
Print Assumptions tie_flat_dsum.
Print Assumptions tie_by_dur.
Print Assumptions tie_by_wf.
Print Assumptions tie_by_sim_refuted.
Print Assumptions runs_unique.
Print Assumptions tie_flat_runs.
Print Assumptions tie_flat_runs_props.
Print Assumptions tie_flat_runs_cond.
Print Assumptions tie_by_nested_seq.
