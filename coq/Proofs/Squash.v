(* squash_in: the new event replaces the range [start, start + dur new) of every voice;
   everything before start and after start + dur new keeps its time. *)
From Coq Require Import ZArith List Bool Lia ZifyBool Arith.
From MV Require Import Base.Res Model.EventTree Model.TreeOps Proofs.TreeLemmas Proofs.CutOut Proofs.CutOff
  Proofs.SplitBase Proofs.SplitSingle.
Import ListNotations.
Open Scope Z_scope.

(* ---------------------------------------------------------------- _cut_off on a child list *)
Lemma cf_seq_spec cs s en : wfs cs -> 0 <= s -> s < en ->
  exists r, cf_seq s en 0 cs = Ok r /\ wfs r /\
    dsum r = dsum cs - (Z.min en (dsum cs) - Z.min s (dsum cs)) /\
    forall x, at_seq r x = at_seq cs (if x <? s then x else x + (en - s)).
Proof.
  intros Hw Hs Hse.
  assert (Hwe : wf (Seq meta0 cs)) by (rewrite wf_seq; exact Hw).
  assert (Hle : s <= en) by lia.
  destruct (cutoff_total (Seq meta0 cs) s en Hwe Hs Hle) as [e' E].
  pose proof (cutoff_dur _ _ _ _ Hwe Hs Hle E) as [Hd Hw'].
  pose proof (cutoff_at _ _ _ _ Hwe Hs Hle E) as Ha.
  rewrite cut_off_seq_ok in E by lia.
  destruct (0 <? en - s) eqn:Ez; [|lia].
  destruct (cf_seq s en 0 cs) as [r|k] eqn:Er; simpl in E; [|discriminate].
  inversion E; subst e'. exists r. rewrite dur_seq in Hd. rewrite wf_seq in Hw'.
  split; [reflexivity|]. split; [exact Hw'|]. split; [exact Hd|]. intros x. exact (Ha x).
Qed.

(* ---------------------------------------------------------------- inserting an event between two lists *)
Lemma ins_shape A B new start : wfs A -> wfs B -> wf new -> dsum A = start ->
  wfs (A ++ new :: B) /\ dsum (A ++ new :: B) = dsum (A ++ B) + dur new /\
  (forall x, at_seq (A ++ new :: B) x =
     if x <? start then at_seq (A ++ B) x
     else if x <? start + dur new then at_ new (x - start) else at_seq (A ++ B) (x - dur new)) /\
  nth_error (A ++ new :: B) (length A) = Some new /\
  dsum (firstn (length A) (A ++ new :: B)) = start.
Proof.
  intros WA WB Wn DA. pose proof (dur_nonneg new Wn) as Hd.
  assert (WnB : wfs (new :: B)) by (split; assumption).
  split; [apply wfs_app; split; assumption|].
  split; [rewrite !dsum_app, dsum_cons; lia|].
  split.
  - intros x. rewrite !at_seq_app by assumption. rewrite at_seq_cons, DA.
    set (d := dur new) in *.
    destruct (x <? start) eqn:E1; [reflexivity|].
    destruct (x <? start + d) eqn:E2.
    + destruct ((0 <=? x - start) && (x - start <? d)) eqn:E3; [reflexivity|lia].
    + destruct ((0 <=? x - start) && (x - start <? d)) eqn:E3; [lia|].
      destruct (x - d <? start) eqn:E4; [lia|]. f_equal. lia.
  - split; [apply nth_error_length_app|]. rewrite firstn_length_app. exact DA.
Qed.

(* ---------------------------------------------------------------- unfolding *)
(* the second half of Consecution.squash_in: where the new event is put *)
Definition sq_insert (cs1 : list ev) (start : Z) (new : ev) : res (list ev) :=
  let abl := starts cs1 in let durf := dsum cs1 in
  match index_of start abl with
  | Some i => Ok (insert_at i new cs1)
  | None =>
    if durf <=? start then Ok (cs1 ++ [new]) else
    match index_at_from start abl durf with
    | None => Err ETypeError
    | Some a =>
      let sp := start - nth a abl 0 in
      match nth_error cs1 a with
      | None => Err EIndexError
      | Some ch =>
        if (0 <? sp) && (sp <? dur ch) then
          parts <- split_at ch [sp] false ;
          match parts with
          | p0 :: p1 :: _ => Ok (insert_at (S a) new (firstn a cs1 ++ p0 :: p1 :: skipn (S a) cs1))
          | _ => Err EIndexError
          end
        else Ok (insert_at a new cs1)
      end
    end
  end.

Lemma seq_squash_unfold cs start new : seq_squash cs start new =
  (_ <- check_time start ;
   if dsum cs <? start then Err EInvalidStartValue else
   cs1 <- (if 0 <? dur new then cf_seq start (start + dur new) 0 cs else Ok cs) ;
   sq_insert cs1 start new).
Proof. reflexivity. Qed.

Definition sq_sim (start : Z) (new : ev) := fix go (l : list ev) : res (list ev) :=
         match l with
         | [] => Ok []
         | Leaf _ _ :: _ => Err EImpossibleToSquashIn
         | c :: r => c' <- squash_in c start new ; r' <- go r ; Ok (c' :: r')
         end.
Lemma squash_in_seq_unfold m cs start new : squash_in (Seq m cs) start new =
  (r <- seq_squash cs start new ; Ok (Seq m r)).
Proof. reflexivity. Qed.
Lemma squash_in_sim_unfold m cs start new : squash_in (Sim m cs) start new =
  (_ <- check_time start ;
   if dmax cs <? start then Err EInvalidStartValue else
   r <- sq_sim start new cs ; Ok (Sim m r)).
Proof. reflexivity. Qed.
Lemma sq_sim_nil start new : sq_sim start new [] = Ok []. Proof. reflexivity. Qed.
Lemma sq_sim_leaf start new d l r : sq_sim start new (Leaf d l :: r) = Err EImpossibleToSquashIn.
Proof. reflexivity. Qed.
Lemma sq_sim_cons start new c r : is_leaf c = false ->
  sq_sim start new (c :: r) = (c' <- squash_in c start new ; r' <- sq_sim start new r ; Ok (c' :: r')).
Proof. destruct c; [discriminate|reflexivity|reflexivity]. Qed.

(* ---------------------------------------------------------------- where the new event is put *)
(* the result is A ++ new :: B with A of duration start and A ++ B denoting the same as the input *)
Lemma sq_insert_shape cs1 start new : wfs cs1 -> 0 <= start <= dsum cs1 ->
  exists A B, sq_insert cs1 start new = Ok (A ++ new :: B) /\ wfs A /\ wfs B /\ dsum A = start /\
    dsum (A ++ B) = dsum cs1 /\ forall x, at_seq (A ++ B) x = at_seq cs1 x.
Proof.
  intros Hwf Hst. unfold sq_insert. cbv zeta.
  destruct (index_of start (starts cs1)) as [i|] eqn:Ei.
  - apply index_of_some in Ei. apply starts_nth_inv in Ei. destruct Ei as [Hi Hs].
    exists (firstn i cs1), (skipn i cs1). unfold insert_at. rewrite firstn_skipn.
    split; [reflexivity|]. split; [apply wfs_firstn; assumption|]. split; [apply wfs_skipn; assumption|].
    split; [lia|]. split; reflexivity.
  - destruct (dsum cs1 <=? start) eqn:Ed.
    + exists cs1, []. rewrite app_nil_r. split; [reflexivity|]. split; [assumption|]. split; [exact I|].
      split; [lia|]. split; reflexivity.
    + unfold index_at_from. destruct ((start <? dsum cs1) && (0 <=? start)) eqn:E; [|lia].
      assert (Hin : 0 <= start < 0 + dsum cs1) by lia.
      destruct (bisect_starts cs1 0 start Hwf Hin) as (a & ch & Hb & Hn & Hr).
      fold (starts cs1) in Hb. rewrite Hb. cbn [Nat.pred].
      assert (Ha : (a < length cs1)%nat) by (apply nth_error_Some; congruence).
      rewrite (nth_error_nth (starts cs1) a 0 (starts_nth cs1 a Ha)). rewrite Hn.
      destruct ((0 <? start - dsum (firstn a cs1)) && (start - dsum (firstn a cs1) <? dur ch)) eqn:Esp.
      * destruct (nth_error_split cs1 a Hn) as (A0 & B0 & HAB & HlenA). subst cs1 a.
        rewrite firstn_length_app in *.
        assert (Hwc : wf ch) by (eapply wfs_In; [exact Hwf|apply in_elt]).
        assert (Hsp : 0 < start - dsum A0 < dur ch) by lia.
        destruct (split_at_single ch (start - dsum A0) false Hwc Hsp) as (p0 & p1 & Es & Hins).
        rewrite Es. cbn [bind]. rewrite skipn_S_length_app. unfold insert_at.
        rewrite firstn_S_length_app, skipn_S_length_app.
        destruct (replace_parts A0 ch B0 p0 p1 (start - dsum A0) Hwf Hins Hsp) as (R1 & R2 & R3 & _ & R5 & _).
        exists (A0 ++ [p0]), (p1 :: B0). split; [reflexivity|].
        rewrite <- app_assoc. change ([p0] ++ p1 :: B0) with (p0 :: p1 :: B0).
        apply wfs_app in R1. destruct R1 as [WA0 [Wp0 [Wp1 WB0]]].
        destruct Hins as (D0 & _).
        split; [apply wfs_app; split; [assumption|split; [assumption|exact I]]|].
        split; [split; assumption|].
        split; [rewrite dsum_app, dsum_cons; simpl; lia|].
        split; [exact R2|exact R3].
      * exists (firstn a cs1), (skipn a cs1). unfold insert_at. rewrite firstn_skipn.
        split; [reflexivity|]. split; [apply wfs_firstn; assumption|]. split; [apply wfs_skipn; assumption|].
        split; [lia|]. split; reflexivity.
Qed.

(* ---------------------------------------------------------------- Consecution.squash_in *)
Lemma seq_squash_full cs start new : wf new -> wfs cs -> 0 <= start <= dsum cs ->
  exists A B, seq_squash cs start new = Ok (A ++ new :: B) /\ wfs (A ++ new :: B) /\ dsum A = start /\
    dsum (A ++ new :: B) = Z.max (dsum cs) (start + dur new) /\
    forall x, at_seq (A ++ new :: B) x =
      if (start <=? x) && (x <? start + dur new) then at_ new (x - start) else at_seq cs x.
Proof.
  intros Hn Hw Hst. pose proof (dur_nonneg new Hn) as Hd.
  rewrite seq_squash_unfold, check_time_ok by lia. cbn [bind].
  destruct (dsum cs <? start) eqn:E; [lia|].
  set (d := dur new) in *.
  assert (H1 : exists cs1, (if 0 <? d then cf_seq start (start + d) 0 cs else Ok cs) = Ok cs1 /\ wfs cs1 /\
             dsum cs1 = dsum cs - (Z.min (start + d) (dsum cs) - start) /\
             forall x, at_seq cs1 x = at_seq cs (if x <? start then x else x + d)).
  { destruct (0 <? d) eqn:Ed.
    - assert (Hs0 : 0 <= start) by lia. assert (Hse : start < start + d) by lia.
      destruct (cf_seq_spec cs start (start + d) Hw Hs0 Hse) as (r & Er & W & D & A).
      exists r. split; [exact Er|]. split; [exact W|]. split; [lia|].
      intros x. rewrite A. f_equal. destruct (x <? start); lia.
    - exists cs. split; [reflexivity|]. split; [exact Hw|]. split; [lia|].
      intros x. f_equal. destruct (x <? start); lia. }
  destruct H1 as (cs1 & -> & W1 & D1 & A1). cbn [bind].
  assert (Hst1 : 0 <= start <= dsum cs1) by lia.
  destruct (sq_insert_shape cs1 start new W1 Hst1) as (A & B & -> & WA & WB & DA & DAB & AAB).
  destruct (ins_shape A B new start WA WB Hn DA) as (S1 & S2 & S3 & _ & _).
  exists A, B. split; [reflexivity|]. split; [exact S1|]. split; [exact DA|]. fold d in S2, S3.
  split; [lia|].
  intros x. rewrite S3, !AAB, !A1.
  repeat match goal with |- context [if ?c then _ else _] => destruct c eqn:? end;
    try reflexivity; try lia; try (f_equal; lia).
Qed.

Section Squash.
  Variable new : ev.
  Variable start : Z.
  Hypothesis Hnew : wf new.
  Let d := dur new.

  (* 1. the new event occupies [start, start + d); the rest keeps its time *)
  Theorem seq_squash_spec cs : wfs cs -> 0 <= start <= dsum cs ->
    exists r, seq_squash cs start new = Ok r /\ wfs r /\ dsum r = Z.max (dsum cs) (start + d) /\
      forall x, at_seq r x = if (start <=? x) && (x <? start + d) then at_ new (x - start) else at_seq cs x.
  Proof.
    intros Hw Hst. destruct (seq_squash_full cs start new Hnew Hw Hst) as (A & B & E & W & _ & D & H).
    exists (A ++ new :: B). repeat split; assumption.
  Qed.

  (* 2. the new event itself is a child of the result and begins exactly at start *)
  Theorem seq_squash_new_at_start cs r : wfs cs -> 0 <= start <= dsum cs ->
    seq_squash cs start new = Ok r ->
    exists i, nth_error r i = Some new /\ dsum (firstn i r) = start.
  Proof.
    intros Hw Hst Er. destruct (seq_squash_full cs start new Hnew Hw Hst) as (A & B & E & _ & DA & _).
    rewrite E in Er. inversion Er; subst r. exists (length A).
    split; [apply nth_error_length_app|]. rewrite firstn_length_app. exact DA.
  Qed.

  (* 3. the method on a Consecution: same container attributes *)
  Theorem squash_in_seq m cs : wfs cs -> 0 <= start <= dsum cs ->
    exists r, squash_in (Seq m cs) start new = Ok (Seq m r) /\ wfs r /\ dsum r = Z.max (dsum cs) (start + d) /\
      (forall x, at_seq r x = if (start <=? x) && (x <? start + d) then at_ new (x - start) else at_seq cs x) /\
      exists i, nth_error r i = Some new /\ dsum (firstn i r) = start.
  Proof.
    intros Hw Hst. destruct (seq_squash_full cs start new Hnew Hw Hst) as (A & B & E & W & DA & D & H).
    exists (A ++ new :: B). rewrite squash_in_seq_unfold, E. cbn [bind].
    split; [reflexivity|]. split; [exact W|]. split; [exact D|]. split; [exact H|].
    exists (length A). split; [apply nth_error_length_app|]. rewrite firstn_length_app. exact DA.
  Qed.

  (* ---------------------------------------------------------------- Concurrence.squash_in *)
  (* A voice of a Concurrence may itself be a Concurrence; then the content of `new` shows up once per
     innermost Consecution.  `emb e s` is the slice s seen through the nesting of e. *)
  Fixpoint emb (e : ev) (s : option slice) : option slice :=
    match e with
    | Leaf _ _ => s
    | Seq _ _ => s
    | Sim _ cs => match (fix go (l : list ev) : list slice := match l with [] => [] | c :: r =>
                    match emb c s with Some v => v :: go r | None => go r end end) cs with
                  | [] => None | vs => Some (SN vs) end
    end.
  Definition emb_list (s : option slice) := fix go (l : list ev) : list slice := match l with [] => [] | c :: r =>
                    match emb c s with Some v => v :: go r | None => go r end end.
  Lemma emb_sim m cs s : emb (Sim m cs) s = match emb_list s cs with [] => None | vs => Some (SN vs) end.
  Proof. reflexivity. Qed.
  Lemma emb_seq m cs s : emb (Seq m cs) s = s. Proof. reflexivity. Qed.
  Lemma emb_list_cons s c r : emb_list s (c :: r) = match emb c s with Some v => v :: emb_list s r | None => emb_list s r end.
  Proof. reflexivity. Qed.

  (* the events squash_in accepts: no leaf as a voice, every innermost Consecution reaches start,
     no empty Concurrence *)
  Fixpoint sq_ok (e : ev) : Prop :=
    match e with
    | Leaf _ _ => False
    | Seq _ cs => start <= dsum cs
    | Sim _ cs => cs <> [] /\ (fix go (l : list ev) : Prop := match l with [] => True | c :: r => sq_ok c /\ go r end) cs
    end.
  Definition sq_oks := fix go (l : list ev) : Prop := match l with [] => True | c :: r => sq_ok c /\ go r end.
  Lemma sq_ok_sim m cs : sq_ok (Sim m cs) = (cs <> [] /\ sq_oks cs). Proof. reflexivity. Qed.
  Lemma sq_oks_In cs : sq_oks cs <-> forall c, In c cs -> sq_ok c.
  Proof.
    induction cs as [|c r IH]; simpl; [split; [intros _ c []|auto]|]. rewrite IH. split.
    - intros [H1 H2] x [<-|Hx]; auto.
    - intros H. split; [apply H; left; reflexivity|intros x Hx; apply H; right; exact Hx].
  Qed.

  Lemma sq_ok_not_leaf e : sq_ok e -> is_leaf e = false.
  Proof. destruct e; simpl; tauto. Qed.

  Lemma sq_ok_dur e : sq_ok e -> start <= dur e.
  Proof.
    clear Hnew d. induction e as [dl l|m cs IH|m cs IH] using ev_ind'; intros H.
    - destruct H.
    - exact H.
    - rewrite sq_ok_sim in H. destruct H as [Hne Hok]. rewrite dur_sim.
      destruct cs as [|c r]; [congruence|]. inversion IH as [|? ? Hc _]; subst.
      destruct Hok as [Hokc _]. specialize (Hc Hokc). rewrite dmax_cons. lia.
  Qed.

  (* what squash_in does to one event *)
  Definition sq_post (e e' : ev) : Prop :=
    dur e' = Z.max (dur e) (start + d) /\ wf e' /\ same_shape e e' /\
    forall x, at_ e' x = if (start <=? x) && (x <? start + d) then emb e (at_ new (x - start)) else at_ e x.

  Hypothesis Hstart : 0 <= start.

  Lemma sq_post_voices cs r : Forall2 sq_post cs r ->
    wfs r /\ dmax r = match cs with [] => 0 | _ => Z.max (dmax cs) (start + d) end /\
    forall x, at_sim x r = if (start <=? x) && (x <? start + d) then emb_list (at_ new (x - start)) cs else at_sim x cs.
  Proof.
    pose proof (dur_nonneg new Hnew) as Hd. fold d in Hd.
    induction 1 as [|c c' cs r (P1 & P2 & P3 & P4) HF (I1 & I2 & I3)].
    - split; [exact I|]. split; [reflexivity|]. intros x. destruct ((start <=? x) && (x <? start + d)); reflexivity.
    - split; [split; assumption|]. split.
      + rewrite dmax_cons, P1, I2. destruct cs as [|c2 cs]; [cbn [dmax]|]; rewrite ?dmax_cons; lia.
      + intros x. rewrite !at_sim_cons, emb_list_cons, P4, I3.
        destruct ((start <=? x) && (x <? start + d)); reflexivity.
  Qed.

  Lemma sq_sim_spec cs : Forall (fun e => wf e -> sq_ok e -> exists e', squash_in e start new = Ok e' /\ sq_post e e') cs ->
    wfs cs -> sq_oks cs -> exists r, sq_sim start new cs = Ok r /\ Forall2 sq_post cs r.
  Proof.
    induction cs as [|c rest IHrest]; intros IH Hw Hok.
    - exists []. split; [reflexivity|constructor].
    - inversion IH as [|? ? Hc Hrest]; subst. destruct Hw as [Hwc Hwr]. destruct Hok as [Hokc Hokr].
      destruct (Hc Hwc Hokc) as (c' & Ec & Pc). destruct (IHrest Hrest Hwr Hokr) as (r' & Er & Pr).
      rewrite sq_sim_cons by (apply sq_ok_not_leaf; assumption). rewrite Ec, Er. cbn [bind].
      exists (c' :: r'). split; [reflexivity|constructor; assumption].
  Qed.

  (* the general statement, at every nesting depth *)
  Theorem squash_in_spec : forall e, wf e -> sq_ok e -> exists e', squash_in e start new = Ok e' /\ sq_post e e'.
  Proof.
    induction e as [dl l|m cs IH|m cs IH] using ev_ind'; intros Hw Hok.
    - destruct Hok.
    - rewrite wf_seq in Hw. simpl in Hok.
      assert (Hst : 0 <= start <= dsum cs) by lia.
      destruct (squash_in_seq m cs Hw Hst) as (r & E & W & D & H & _).
      exists (Seq m r). split; [exact E|]. unfold sq_post. rewrite !dur_seq, wf_seq.
      split; [exact D|]. split; [exact W|]. split; [reflexivity|].
      intros x. rewrite !at_seq_eq, emb_seq. apply H.
    - pose proof (sq_ok_dur _ Hok) as Hdur. rewrite dur_sim in Hdur.
      rewrite wf_sim in Hw. rewrite sq_ok_sim in Hok. destruct Hok as [Hne Hoks].
      destruct (sq_sim_spec cs IH Hw Hoks) as (r & Er & HF).
      rewrite squash_in_sim_unfold, check_time_ok by lia. cbn [bind].
      destruct (dmax cs <? start) eqn:E; [lia|]. rewrite Er. cbn [bind].
      exists (Sim m r). split; [reflexivity|].
      destruct (sq_post_voices cs r HF) as (V1 & V2 & V3).
      unfold sq_post. rewrite !dur_sim, wf_sim.
      split; [destruct cs; [congruence|exact V2]|]. split; [exact V1|]. split; [reflexivity|].
      intros x. rewrite !at_sim_eq, emb_sim, V3. destruct ((start <=? x) && (x <? start + d)); reflexivity.
  Qed.

  (* 3. the method on a Concurrence: every voice is squashed *)
  Theorem squash_in_sim_spec m cs : wfs cs -> (forall c, In c cs -> sq_ok c) -> start <= dmax cs ->
    exists r, squash_in (Sim m cs) start new = Ok (Sim m r) /\ Forall2 sq_post cs r.
  Proof.
    intros Hw Hok Hdur. apply sq_oks_In in Hok.
    assert (IH : Forall (fun e => wf e -> sq_ok e -> exists e', squash_in e start new = Ok e' /\ sq_post e e') cs).
    { apply Forall_forall. intros e _. apply squash_in_spec. }
    destruct (sq_sim_spec cs IH Hw Hok) as (r & Er & HF).
    rewrite squash_in_sim_unfold, check_time_ok by lia. cbn [bind].
    destruct (dmax cs <? start) eqn:E; [lia|]. rewrite Er. cbn [bind].
    exists r. split; [reflexivity|exact HF].
  Qed.

  Definition is_seq (e : ev) : bool := match e with Seq _ _ => true | _ => false end.

  Lemma Forall2_impl_In {A B} (P Q : A -> B -> Prop) l l' :
    Forall2 P l l' -> (forall a b, In a l -> P a b -> Q a b) -> Forall2 Q l l'.
  Proof.
    induction 1 as [|a b l l' Hab HF IH]; intros H; constructor.
    - apply H; [left; reflexivity|exact Hab].
    - apply IH. intros a' b' Hin. apply H. right. exact Hin.
  Qed.

  (* the usual case: the voices are Consecutions *)
  Theorem squash_in_sim_seq_voices m cs : wfs cs -> cs <> [] ->
    (forall c, In c cs -> is_seq c = true /\ start <= dur c) ->
    exists r, squash_in (Sim m cs) start new = Ok (Sim m r) /\
      Forall2 (fun c c' => dur c' = Z.max (dur c) (start + d) /\ wf c' /\ same_shape c c' /\
                 forall x, at_ c' x = if (start <=? x) && (x <? start + d) then at_ new (x - start) else at_ c x) cs r.
  Proof.
    intros Hw Hne Hv.
    assert (Hok : forall c, In c cs -> sq_ok c).
    { intros c Hc. destruct (Hv c Hc) as [Hs Hd]. destruct c; try discriminate. exact Hd. }
    assert (Hdur : start <= dmax cs).
    { destruct cs as [|c r]; [congruence|]. destruct (Hv c (or_introl eq_refl)) as [_ Hd]. rewrite dmax_cons. lia. }
    destruct (squash_in_sim_spec m cs Hw Hok Hdur) as (r & E & HF).
    exists r. split; [exact E|]. apply (Forall2_impl_In _ _ _ _ HF).
    intros c c' Hc (P1 & P2 & P3 & P4). destruct (Hv c Hc) as [Hs _]. destruct c; try discriminate.
    repeat split; assumption.
  Qed.

  (* ---------------------------------------------------------------- rejections *)
  Theorem squash_in_beyond e : is_leaf e = false -> dur e < start ->
    squash_in e start new = Err EInvalidStartValue.
  Proof.
    intros Hl Hd. destruct e as [dl l|m cs|m cs]; [discriminate| |].
    - rewrite squash_in_seq_unfold, seq_squash_unfold, check_time_ok by lia. cbn [bind].
      rewrite dur_seq in Hd. destruct (dsum cs <? start) eqn:E; [reflexivity|lia].
    - rewrite squash_in_sim_unfold, check_time_ok by lia. cbn [bind].
      rewrite dur_sim in Hd. destruct (dmax cs <? start) eqn:E; [reflexivity|lia].
  Qed.

  (* a leaf as a voice (the voices before it being acceptable) *)
  Theorem squash_in_leaf_voice m A dl l B : wfs A -> (forall c, In c A -> sq_ok c) ->
    start <= dmax (A ++ Leaf dl l :: B) ->
    squash_in (Sim m (A ++ Leaf dl l :: B)) start new = Err EImpossibleToSquashIn.
  Proof.
    intros Hw Hok Hdur. rewrite squash_in_sim_unfold, check_time_ok by lia. cbn [bind].
    destruct (dmax (A ++ Leaf dl l :: B) <? start) eqn:E; [lia|].
    assert (G : sq_sim start new (A ++ Leaf dl l :: B) = Err EImpossibleToSquashIn).
    { clear E Hdur. induction A as [|c A IHA]; [reflexivity|]. destruct Hw as [Hwc HwA].
      assert (Hokc : sq_ok c) by (apply Hok; left; reflexivity).
      destruct (squash_in_spec c Hwc Hokc) as (c' & Ec & _).
      simpl app. rewrite sq_sim_cons by (apply sq_ok_not_leaf; assumption). rewrite Ec. cbn [bind].
      rewrite IHA; [reflexivity|assumption|]. intros x Hx. apply Hok. right. exact Hx. }
    rewrite G. reflexivity.
  Qed.

  Corollary squash_in_leaf_first m dl l r : start <= Z.max dl (dmax r) ->
    squash_in (Sim m (Leaf dl l :: r)) start new = Err EImpossibleToSquashIn.
  Proof. intros H. apply (squash_in_leaf_voice m [] dl l r); [exact I|intros c []|exact H]. Qed.
End Squash.

Theorem squash_in_negative e start new : is_leaf e = false -> start < 0 ->
  squash_in e start new = Err EInvalidAbsoluteTime.
Proof.
  intros Hl Hs. destruct e as [dl l|m cs|m cs]; [discriminate| |].
  - rewrite squash_in_seq_unfold, seq_squash_unfold, check_time_err by lia. reflexivity.
  - rewrite squash_in_sim_unfold, check_time_err by lia. reflexivity.
Qed.

Theorem squash_in_leaf e start new : is_leaf e = true -> squash_in e start new = Err EAttributeError.
Proof. destruct e; [reflexivity|discriminate|discriminate]. Qed.

(* ---------------------------------------------------------------- examples *)
(* counterexamples to the per-voice statement with only `is_leaf c = false /\ start <= dur c` as hypothesis:
   an empty Concurrence rejects start > 0, a leaf below a nested Concurrence is still rejected,
   and below a nested Concurrence the content of `new` is seen through the nesting (SN [SL 9], not SL 9) *)
Example squash_counterexamples :
  squash_in (Sim meta0 []) 1 (Leaf 2 9) = Err EInvalidStartValue /\
  squash_in (Sim meta0 [Sim meta0 [Leaf 5 1]]) 1 (Leaf 2 9) = Err EImpossibleToSquashIn /\
  squash_in (Sim meta0 [Sim meta0 [Seq meta0 [Leaf 5 1]; Seq meta0 []]]) 1 (Leaf 2 9) = Err EInvalidStartValue /\
  squash_in (Sim meta0 [Sim meta0 [Seq meta0 [Leaf 5 1]]]) 0 (Leaf 2 9) = Ok (Sim meta0 [Sim meta0 [Seq meta0 [Leaf 2 9; Leaf 3 1]]]) /\
  at_ (Sim meta0 [Seq meta0 [Leaf 2 9; Leaf 3 1]]) 0 = Some (SN [SL 9]) /\ at_ (Leaf 2 9) 0 = Some (SL 9) /\
  (* an empty nested Concurrence is accepted at 0 but keeps duration 0 *)
  squash_in (Sim meta0 [Sim meta0 []]) 0 (Leaf 2 9) = Ok (Sim meta0 [Sim meta0 []]).
Proof. vm_compute. repeat split; reflexivity. Qed.

Definition squash_ex : ev :=
  Sim meta0 [Seq meta0 [Leaf 10 1; Sim meta0 [Leaf 5 2; Seq meta0 [Leaf 3 3; Leaf 4 4]]; Leaf 0 5; Leaf 6 6];
             Sim (mkMeta 7 0) [Seq meta0 [Leaf 30 7]; Seq meta0 [Leaf 12 8; Leaf 12 9]]].
Definition squash_new : ev := Seq (mkMeta 3 0) [Leaf 2 10; Leaf 1 11].

Example squash_example_hyps : wf squash_ex /\ wf squash_new /\ dur squash_ex = 30 /\
  sq_ok 12 squash_ex /\ sq_ok 23 squash_ex /\ ~ sq_ok 24 squash_ex.
Proof.
  split; [apply wfb_wf; vm_compute; reflexivity|]. split; [apply wfb_wf; vm_compute; reflexivity|].
  split; [vm_compute; reflexivity|]. simpl.
  repeat split; try congruence; try lia.
Qed.

(* first voice: the nested Concurrence under 12 is cut ([12,15) removed) and split at 12;
   second voice (itself a Concurrence): both inner sequences receive the new event *)
Example squash_example :
  squash_in squash_ex 12 squash_new =
    Ok (Sim meta0
         [Seq meta0 [Leaf 10 1; Sim meta0 [Leaf 2 2; Seq meta0 [Leaf 2 3]]; squash_new;
                     Sim meta0 [Seq meta0 [Leaf 2 4]]; Leaf 0 5; Leaf 6 6];
          Sim (mkMeta 7 0) [Seq meta0 [Leaf 12 7; squash_new; Leaf 15 7];
                            Seq meta0 [Leaf 12 8; squash_new; Leaf 9 9]]]) /\
  (* at the end of the shorter voice: appended there, squashed into the longer ones *)
  squash_in squash_ex 23 squash_new =
    Ok (Sim meta0
         [Seq meta0 [Leaf 10 1; Sim meta0 [Leaf 5 2; Seq meta0 [Leaf 3 3; Leaf 4 4]]; Leaf 0 5; Leaf 6 6; squash_new];
          Sim (mkMeta 7 0) [Seq meta0 [Leaf 23 7; squash_new; Leaf 4 7];
                            Seq meta0 [Leaf 12 8; Leaf 11 9; squash_new]]]) /\
  (* zero-length new event: the child under 12 is split, nothing is removed *)
  squash_in squash_ex 12 (Leaf 0 10) =
    Ok (Sim meta0
         [Seq meta0 [Leaf 10 1; Sim meta0 [Leaf 2 2; Seq meta0 [Leaf 2 3]]; Leaf 0 10;
                     Sim meta0 [Leaf 3 2; Seq meta0 [Leaf 1 3; Leaf 4 4]]; Leaf 0 5; Leaf 6 6];
          Sim (mkMeta 7 0) [Seq meta0 [Leaf 12 7; Leaf 0 10; Leaf 18 7];
                            Seq meta0 [Leaf 12 8; Leaf 0 10; Leaf 12 9]]]) /\
  squash_in squash_ex 24 squash_new = Err EInvalidStartValue /\
  squash_in squash_ex 31 squash_new = Err EInvalidStartValue /\
  squash_in squash_ex (-1) squash_new = Err EInvalidAbsoluteTime /\
  squash_in (Sim meta0 [Seq meta0 [Leaf 4 1]; Leaf 4 2]) 2 squash_new = Err EImpossibleToSquashIn.
Proof. vm_compute. repeat split; reflexivity. Qed.

(* the theorem instantiated on the example *)
Example squash_example_spec : exists e', squash_in squash_ex 12 squash_new = Ok e' /\
  dur e' = 30 /\ wf e' /\ at_ e' 11 = at_ squash_ex 11 /\ at_ e' 15 = at_ squash_ex 15 /\
  at_ e' 13 = Some (SN [SL 10; SN [SL 10; SL 10]]).
Proof.
  destruct squash_example_hyps as (Hw & Hn & _ & Hok & _).
  destruct (squash_in_spec squash_new 12 Hn ltac:(lia) squash_ex Hw Hok) as (e' & E & D & W & _ & A).
  exists e'. split; [exact E|]. split; [rewrite D; vm_compute; reflexivity|]. split; [exact W|].
  rewrite !A. vm_compute. repeat split; reflexivity.
Qed.

Print Assumptions seq_squash_spec.
Print Assumptions seq_squash_new_at_start.
Print Assumptions squash_in_seq.
Print Assumptions squash_in_spec.
Print Assumptions squash_in_sim_spec.
Print Assumptions squash_in_sim_seq_voices.
Print Assumptions squash_in_negative.
Print Assumptions squash_in_beyond.
Print Assumptions squash_in_leaf_voice.
