(* Result monad with the documented error kinds of mutwo.core as a small enum. *)
From Coq Require Import List.
Import ListNotations.

Inductive err :=
| EInvalidAbsoluteTime      (* core_utilities.InvalidAbsoluteTime *)
| EInvalidStartAndEnd       (* InvalidStartAndEndValueError *)
| EInvalidCutOut            (* InvalidCutOutStartAndEndValuesError *)
| EInvalidStartValue        (* InvalidStartValueError *)
| ESplitError               (* SplitError *)
| ESplitUnavailableChild    (* SplitUnavailableChildError *)
| ENoSplitTime              (* NoSplitTimeError *)
| EImpossibleToSquashIn
| EImpossibleToSlideIn
| EIneffectiveExtendUntil
| EImpossibleToExtendUntil
| EConcatenation
| ENoTag
| EKeyError
| EIndexError
| ERuntimeError
| ETypeError
| EAttributeError
| EEmptyEnvelope
| ECannotSetDurationOfEmpty
| ECannotParse
| EValueError
| EZeroDivision
| EFuel.                    (* model artefact: never returned when fuel >= height (proved) *)

Inductive res (A : Type) := Ok (a : A) | Err (e : err).
Arguments Ok {A} a.
Arguments Err {A} e.

Definition bind {A B} (r : res A) (f : A -> res B) : res B :=
  match r with Ok a => f a | Err k => Err k end.
Notation "x <- e ; f" := (bind e (fun x => f)) (at level 60, right associativity).
Notation "' p <- e ; f" := (bind e (fun p => f)) (at level 60, p pattern, right associativity).

Definition err_eqb (a b : err) : bool :=
  match a, b with
  | EInvalidAbsoluteTime, EInvalidAbsoluteTime | EInvalidStartAndEnd, EInvalidStartAndEnd
  | EInvalidCutOut, EInvalidCutOut | EInvalidStartValue, EInvalidStartValue
  | ESplitError, ESplitError | ESplitUnavailableChild, ESplitUnavailableChild
  | ENoSplitTime, ENoSplitTime | EImpossibleToSquashIn, EImpossibleToSquashIn
  | EImpossibleToSlideIn, EImpossibleToSlideIn | EIneffectiveExtendUntil, EIneffectiveExtendUntil
  | EImpossibleToExtendUntil, EImpossibleToExtendUntil | EConcatenation, EConcatenation
  | ENoTag, ENoTag | EKeyError, EKeyError | EIndexError, EIndexError | ERuntimeError, ERuntimeError
  | ETypeError, ETypeError | EAttributeError, EAttributeError | EEmptyEnvelope, EEmptyEnvelope
  | ECannotSetDurationOfEmpty, ECannotSetDurationOfEmpty | ECannotParse, ECannotParse
  | EValueError, EValueError | EZeroDivision, EZeroDivision | EFuel, EFuel => true
  | _, _ => false
  end.

Fixpoint mapM {A B} (f : A -> res B) (l : list A) : res (list B) :=
  match l with
  | [] => Ok []
  | a :: r => b <- f a ; r' <- mapM f r ; Ok (b :: r')
  end.
