(* Tie lemma: the model's join_tempo is the early return, the translated decision of Compound._concatenate_tempo
   executed on the first operand's trajectory, and the final append - for every number type. *)
From Coq Require Import ZArith List Bool Lia.
From MV Require Import Base.Res Model.Num Model.Envelope Model.Convert.
From MV.Gen Require Import K_concat_tempo.
Import ListNotations.
Open Scope Z_scope.

Section Tie.
  Context {F : Type} (N : Num F).

  (* what the three actions mean on the model's trajectory *)
  Definition run_tempo_action (ta : env F) (a : tempo_action) : res (env F) :=
    match a with
    | TCutOut s e => env_cut_out F N ta s e
    | TExtendUntil d => env_extend_until F N ta d
    | TNothing => Ok ta
    end.

  Definition nonempty (e : env F) : bool := match e with [] => false | _ => true end.
  Definition last_duration (e : env F) : Z := match rev e with l :: _ => pd l | [] => 0 end.

  Lemma tail_positive_fields (e : env F) : tail_positive F e = nonempty e && (0 <? last_duration e).
  Proof.
    unfold tail_positive, last_duration, nonempty.
    destruct e as [|p r]; [reflexivity|].
    destruct (rev (p :: r)) as [|l q] eqn:E; [|reflexivity].
    apply (f_equal (@length _)) in E. rewrite rev_length in E. discriminate.
  Qed.

  Theorem K_concat_tempo_eq (fa fb : bool) (ta : env F) (da : Z) (tb : env F) :
    join_tempo F N fa fb ta da tb =
    if negb fa && negb fb && match ta, tb with p :: _, q :: _ => neqb N (pv p) (pv q) | _, _ => false end
    then Ok ta
    else (ta' <- run_tempo_action ta (K_concat_tempo da (pdur F ta) (nonempty ta) (last_duration ta)) ;
          Ok (ta' ++ tb)).
  Proof.
    unfold join_tempo, K_concat_tempo. cbv zeta.
    destruct (negb fa && negb fb && _); [reflexivity|].
    rewrite tail_positive_fields.
    destruct (da <? pdur F ta); [reflexivity|].
    destruct ((pdur F ta <? da) || (nonempty ta && (0 <? last_duration ta))); reflexivity.
  Qed.
End Tie.
Print Assumptions K_concat_tempo_eq.
