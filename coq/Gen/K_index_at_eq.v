(* Tie lemma: the translation of /repo's Consecution._get_index_at_from_absolute_time_tuple equals the model's
   index_at_from (Python's `bisect_right(...) - 1` is an integer; it is >= 0 whenever the first start is 0 <= t). *)
From Coq Require Import ZArith List Bool Lia.
From MV Require Import Base.Res Model.EventTree Gen.K_index_at.
Import ListNotations.
Open Scope Z_scope.

Lemma K_index_at_eq : forall t abl durf,
  K_index_at t abl durf = option_map (fun n => Z.of_nat (bisect_right abl t) - 1) (index_at_from t abl durf).
Proof.
  intros. unfold K_index_at, index_at_from, bisect_right_z.
  destruct (t <? durf) eqn:E1; destruct (0 <=? t) eqn:E2; reflexivity.
Qed.

(* with the first start at or before t the Python integer is the model's natural number *)
Lemma K_index_at_nat : forall t x abl durf, x <= t ->
  K_index_at t (x :: abl) durf = option_map Z.of_nat (index_at_from t (x :: abl) durf).
Proof.
  intros t x abl durf H. rewrite K_index_at_eq. unfold index_at_from.
  destruct ((t <? durf) && (0 <=? t)); [|reflexivity]. cbn [option_map bisect_right].
  destruct (x <=? t) eqn:E; [|lia]. cbn [Nat.pred]. f_equal. lia.
Qed.
Print Assumptions K_index_at_eq.
Print Assumptions K_index_at_nat.
