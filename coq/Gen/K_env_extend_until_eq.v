(* Tie lemma: the translated Envelope.extend_until is the model's env_extend_until, for every number type. *)
From Coq Require Import ZArith List Bool.
From MV Require Import Base.Res Model.Num Model.Envelope.
From MV.Gen Require Import K_env_extend_until.
Import ListNotations.

Theorem K_env_extend_until_eq {F : Type} (N : Num F) (e : env F) d :
  K_env_extend_until N e d = env_extend_until F N e d.
Proof. unfold K_env_extend_until, env_extend_until. destruct e; reflexivity. Qed.
Print Assumptions K_env_extend_until_eq.
