(* Tie lemma: the translated Consecution._split_child_at is the model's split_child_core - for every recursive call
   `rec`, every list of children, time, start-time table and duration.  (A case distinction on the number of parts is
   a case distinction on the list of parts.)  All of split_at, split_child_at, squash_in, slide_in and sequentialize
   divide children through this function. *)
From Coq Require Import ZArith List Bool.
From MV Require Import Base.Res Model.EventTree Model.TreeOps.
From MV.Gen Require Import K_split_child_at.
Import ListNotations.
Open Scope Z_scope.

Theorem K_split_child_at_eq (rec : ev -> list Z -> bool -> res (list ev)) c t abl durf :
  K_split_child_at rec c t abl durf = split_child_core rec c t abl durf.
Proof.
  unfold K_split_child_at, split_child_core.
  destruct (check_time t) as [u|k]; cbn [bind]; [|reflexivity].
  destruct (index_at_from t abl durf) as [i|]; [|reflexivity].
  destruct (t =? nth i abl 0); [reflexivity|].
  destruct (nth_error c i) as [ch|]; [|reflexivity].
  destruct (rec ch [t - nth i abl 0] false) as [parts|k]; cbn [bind]; [|reflexivity].
  destruct parts as [|p0 [|p1 [|p2 r]]]; reflexivity.
Qed.
Print Assumptions K_split_child_at_eq.
