(* Tie lemma: the translation of /repo's Chronon.cut_off equals the leaf case of the model's cut_off. *)
From Coq Require Import ZArith List Bool Lia.
From MV Require Import Base.Res Model.EventTree Model.TreeOps Gen.K_chronon_cut_off.
Open Scope Z_scope.

Lemma K_chronon_cut_off_eq : forall d l s e,
  cut_off (Leaf d l) s e = match K_chronon_cut_off d s e with Ok d' => Ok (Leaf d' l) | Err k => Err k end.
Proof.
  intros d l s e. unfold K_chronon_cut_off. cbn [cut_off]. unfold check_time, check_start_end, bind. cbv zeta.
  repeat match goal with
         | |- context [if ?b then _ else _] => destruct b eqn:?
         end; try reflexivity; try discriminate; try (do 2 f_equal; lia); exfalso; lia.
Qed.
Print Assumptions K_chronon_cut_off_eq.
