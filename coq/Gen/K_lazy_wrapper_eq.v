(* Tie lemma: the translated wrapper of compute_lazy is the model's one-call function of the lazy cache (around a function
   that may raise), for every file content, argument and `force_to_compute`. *)
From Coq Require Import List Bool.
From MV Require Import Model.Tools Model.LazyExn.
From MV.Gen Require Import K_lazy_wrapper.

Theorem K_lazy_wrapper_eq (A B : Type) (aeqb : A -> A -> bool) (f : A -> option B) force st a :
  K_lazy_wrapper A B aeqb f force st a = lazy_call_x A B aeqb f force st a.
Proof.
  unfold K_lazy_wrapper, lazy_call_x. cbv zeta.
  destruct st as [[r p]|]; cbn [negb].
  - destruct (aeqb p a); cbn [negb orb]; destruct force; destruct (f a); reflexivity.
  - cbn [orb]. destruct (f a); reflexivity.
Qed.
Print Assumptions K_lazy_wrapper_eq.
