(* Tie lemma: the translated Envelope.split_at, with sample_at, Consecution.split_at on control points and value_at read
   as the model's sample_at, p_split and value_at, is the model's env_split_at - for every number type, list of control
   points, list of times and both values of ignore_invalid_split_point. *)
From Coq Require Import ZArith List Bool.
From MV Require Import Base.Res Model.EventTree Model.TreeOps Model.Num Model.Envelope.
From MV.Gen Require Import K_env_split_at.
Import ListNotations.
Open Scope Z_scope.

Section Tie.
  Context {F : Type} (N : Num F).
  Let SA := fun (e : env F) t a => sample_at F N e t a.
  Let VA := fun (e : env F) t => value_at F N e t.

  Lemma sample_loop_eq : forall ts e, K_sample_loop SA e ts = sample_all F N e ts.
  Proof.
    induction ts as [|t ts IH]; intros e; [reflexivity|]. cbn [K_sample_loop sample_all]. unfold SA at 1.
    destruct (sample_at F N e t 0) as [e'|k]; cbn [bind]; [apply IH|reflexivity].
  Qed.

  Lemma ends_loop_eq : forall parts, K_ends_loop N VA parts = add_ends F N parts.
  Proof.
    induction parts as [|s0 r IH]; [reflexivity|]. cbn [K_ends_loop add_ends].
    destruct r as [|s1 r']; [reflexivity|]. unfold VA at 1.
    destruct (value_at F N s1 0) as [v|k]; cbn [bind]; [|reflexivity]. rewrite IH. reflexivity.
  Qed.

  Theorem K_env_split_at_eq e ts ign :
    K_env_split_at N SA (p_split F) VA e ts ign = env_split_at F N e ts ign.
  Proof.
    unfold K_env_split_at, env_split_at, lastZ. destruct ts as [|t ts]; [reflexivity|]. cbv zeta.
    destruct ((pdur F e <? last (sortZ (t :: ts)) 0) && negb ign); [reflexivity|].
    rewrite sample_loop_eq. destruct (sample_all F N e (sortZ (t :: ts))) as [e1|k]; cbn [bind]; [|reflexivity].
    destruct (p_split F e1 (sortZ (t :: ts)) ign) as [parts|k]; cbn [bind]; [|reflexivity].
    rewrite ends_loop_eq. destruct (add_ends F N parts) as [parts1|k]; cbn [bind]; [|reflexivity].
    destruct (rev parts1) as [|s r] eqn:R.
    - apply (f_equal (@rev _)) in R. rewrite rev_involutive in R. rewrite R. reflexivity.
    - unfold VA. destruct (value_at F N e1 (pdur F e1)) as [v|k]; cbn [bind]; [|reflexivity].
      destruct (value_at F N s (pdur F s)) as [vs|k]; cbn [bind]; [|reflexivity].
      destruct (neqb N vs v); reflexivity.
  Qed.
End Tie.

Print Assumptions K_env_split_at_eq.
