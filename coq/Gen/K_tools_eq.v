(* Tie lemmas: the translated scale_sequence_to_sum, find_closest_index, cyclic_permutations and
   find_numbers_which_sums_up_to are the model's definitions - for all arguments. *)
From Coq Require Import ZArith QArith List Bool Lia Arith.
From MV Require Import Base.Res Model.EventTree Model.TreeOps Model.Tools.
From MV.Gen Require Import K_tools.
Import ListNotations.
Open Scope Z_scope.

Theorem K_scale_sequence_to_sum_eq l target : K_scale_sequence_to_sum l target = scale_sequence_to_sum l target.
Proof.
  unfold K_scale_sequence_to_sum, scale_sequence_to_sum. destruct l as [|x l]; [reflexivity|].
  cbv zeta. destruct (Qeq_bool (qsum (x :: l)) 0); reflexivity.
Qed.

Theorem K_find_closest_index_eq item data : K_find_closest_index item data = find_closest_index item data.
Proof.
  unfold K_find_closest_index, find_closest_index. cbv zeta.
  destruct data as [|x data].
  - reflexivity.
  - set (d := x :: data). set (sol := bisect_leftZ (sortZ d) item).
    destruct (Nat.eqb_spec sol (length d)) as [E|E].
    + destruct sol as [|k]; [discriminate E|]. reflexivity.
    + destruct (Nat.eqb_spec sol 0) as [Z0|Z0]; [rewrite Z0; reflexivity|].
      cbn [fst snd].
      set (d1 := Z.abs (- nth sol (sortZ d) 0 + item)). set (d0 := Z.abs (- nth (Nat.pred sol) (sortZ d) 0 + item)).
      destruct (Z.leb_spec d1 d0) as [L|L].
      * rewrite Z.min_l by lia. rewrite Z.eqb_refl. reflexivity.
      * rewrite Z.min_r by lia. destruct (Z.eqb_spec d1 d0); [lia|reflexivity].
Qed.

Theorem K_cyclic_permutations_eq {A} (l : list A) : K_cyclic_permutations l = cyclic_permutations l.
Proof. reflexivity. Qed.

Theorem K_find_numbers_eq target numbers counts :
  K_find_numbers_which_sums_up_to target numbers counts =
  find_sums target (match numbers with None | Some [] => default_numbers target | Some l => l end)
                   (match counts with None | Some [] => default_counts target | Some l => l end).
Proof. destruct numbers as [[|x l]|]; destruct counts as [[|y c]|]; reflexivity. Qed.

Print Assumptions K_scale_sequence_to_sum_eq.
Print Assumptions K_find_closest_index_eq.
Print Assumptions K_cyclic_permutations_eq.
Print Assumptions K_find_numbers_eq.
