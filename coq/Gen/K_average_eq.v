(* Tie lemma: the translated Envelope.get_average_value, with value_at and integrate_interval read as the model's, is the
   model's average at the times the defaults stand for - for every number type, envelope and pair of optional times. *)
From Coq Require Import ZArith List Bool.
From MV Require Import Base.Res Model.EventTree Model.Num Model.Envelope.
From MV.Gen Require Import K_average.
Import ListNotations.
Open Scope Z_scope.

Theorem K_average_eq {F} (N : Num F) (e : env F) (s en : option Z) :
  K_get_average_value N (value_at F N e) (integrate F N e) (pdur F e) s en =
  average F N e (match s with None => 0 | Some x => x end) (match en with None => pdur F e | Some x => x end).
Proof. reflexivity. Qed.

Print Assumptions K_average_eq.
