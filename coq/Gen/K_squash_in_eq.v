(* Tie lemma: the translated Consecution.squash_in, with `self._cut_off(s, e, d)` read as the model's cf_seq and the
   division of a child as the model's split_at, is the model's seq_squash - for every list of children, start and new
   event. *)
From Coq Require Import ZArith List Bool.
From MV Require Import Base.Res Model.EventTree Model.TreeOps.
From MV.Gen Require Import K_squash_in.
Import ListNotations.
Open Scope Z_scope.

Theorem K_squash_in_eq cs start new :
  K_squash_in (fun s e _ l => cf_seq s e 0 l) split_at cs start new = seq_squash cs start new.
Proof.
  unfold K_squash_in, seq_squash.
  destruct (check_time start) as [u|k]; cbn [bind]; [|reflexivity].
  destruct (dsum cs <? start); cbn [bind]; [reflexivity|].
  cbv zeta.
  destruct (if 0 <? dur new then cf_seq start (start + dur new) 0 cs else Ok cs) as [cs1|k]; cbn [bind]; [|reflexivity].
  destruct (index_of start (starts cs1)) as [i|]; [reflexivity|].
  destruct (dsum cs1 <=? start); [reflexivity|].
  destruct (index_at_from start (starts cs1) (dsum cs1)) as [a|]; [|reflexivity].
  destruct (nth_error cs1 a) as [ch|]; [|reflexivity].
  destruct ((0 <? start - nth a (starts cs1) 0) && (start - nth a (starts cs1) 0 <? dur ch)); [|reflexivity].
  destruct (split_at ch [start - nth a (starts cs1) 0] false) as [parts|k]; cbn [bind]; [|reflexivity].
  destruct parts as [|p0 [|p1 r]]; reflexivity.
Qed.
Print Assumptions K_squash_in_eq.
