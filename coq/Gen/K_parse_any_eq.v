(* Tie lemma: the translated Duration.from_any / Tempo.from_any, with the number parser and literal_eval read as below
   (digits: int; digits.digits: float; n/d: Fraction or ZeroDivisionError; a list literal and anything else: ValueError
   from the parser, a literal list from literal_eval), are the model's parse_duration / parse_tempo on every argument. *)
From Coq Require Import ZArith QArith List Bool.
From MV Require Import Base.Res Model.Numbers.
From MV.Gen Require Import K_parse_any.
Import ListNotations.

Definition number_of_string (s : pstr) : res pin :=
  match s with
  | SInt z => Ok (PInt z)
  | SFloat q => Ok (PFloat q)
  | SFrac n d => if (d =? 0)%Z then Err EZeroDivision else Ok (PFrac ((n # 1) / (d # 1))%Q)
  | SList | SJunk => Err EValueError
  end.
Definition literal_of_string (s : pstr) : option pin :=
  match s with SList => Some PPoints | _ => None end.

Theorem K_duration_from_any_eq x : K_duration_from_any number_of_string x = parse_duration x.
Proof. destruct x as [|z|q|q|s| |]; try reflexivity. destruct s as [z|q|n d| |]; try reflexivity. cbn. destruct (d =? 0)%Z; reflexivity. Qed.

Theorem K_tempo_from_any_eq x : K_tempo_from_any number_of_string literal_of_string x = parse_tempo x.
Proof. destruct x as [|z|q|q|s| |]; try reflexivity. destruct s as [z|q|n d| |]; try reflexivity. cbn. destruct (d =? 0)%Z; reflexivity. Qed.

Print Assumptions K_duration_from_any_eq.
Print Assumptions K_tempo_from_any_eq.
