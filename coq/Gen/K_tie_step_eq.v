(* Tie lemma: the model's tie_by (leaf-restricted form) on a container is the loop of Compound.tie_by - a pointer that
   stays after a merge and advances otherwise, the decision per pair being the translated loop body - followed by the
   treatment of the last child.  `rec` is tie_by_if_available: the same tie_by on a child that is a container, nothing on
   a leaf.  The loop is written with the pair's first element `a` and the rest `r` after it; the children before the
   pointer are final. *)
From Coq Require Import ZArith List Bool.
From MV Require Import Base.Res Model.EventTree Model.TreeOps.
From MV.Gen Require Import K_tie_step.
Import ListNotations.

Lemma pick_survivor {A} (rs : bool) (X : bool -> A) (d1 d2 : A) :
  match (if rs then TieKeepFirst else TieKeepSecond) with
  | TieKeepFirst => X true | TieKeepSecond => X false | TieAdvance => d1 | TieRecurseAdvance => d2 end = X rs.
Proof. destruct rs; reflexivity. Qed.

Section Loop.
  Variable cond : ev -> ev -> bool.
  Variable event_to_remove : bool.
  Notation rec := (tie_by cond event_to_remove).

  Fixpoint loop (a : ev) (r : list ev) : list ev :=
    match r with
    | [] => [rec a]                 (* after the loop: the last child is tied if it is a container *)
    | b :: r' =>
      match K_tie_step (is_leaf a && is_leaf b) (cond a b) event_to_remove with
      | TieKeepFirst => loop (merge_leaf true a b) r'
      | TieKeepSecond => loop (merge_leaf false a b) r'
      | TieAdvance => a :: loop b r'
      | TieRecurseAdvance => rec a :: loop b r'
      end
    end.

  Lemma rec_leaf a : is_leaf a = true -> rec a = a.
  Proof. destruct a; cbn; congruence. Qed.
  Lemma is_leaf_rec a : is_leaf (rec a) = is_leaf a.
  Proof. destruct a; reflexivity. Qed.
  Lemma merge_is_leaf b a c : is_leaf a = true -> is_leaf c = true -> is_leaf (merge_leaf b a c) = true.
  Proof. destruct a, c; cbn; try congruence. destruct b; reflexivity. Qed.

  Lemma loop_is_tie_flat : forall r a, loop a r = tie_flat cond event_to_remove (rec a) (map rec r).
  Proof.
    induction r as [|b r' IH]; intro a; [reflexivity|].
    cbn [loop map tie_flat]. rewrite !is_leaf_rec.
    destruct (is_leaf a) eqn:La; destruct (is_leaf b) eqn:Lb; cbn [andb K_tie_step].
    - rewrite (rec_leaf a La), (rec_leaf b Lb).
      destruct (cond a b); [|rewrite IH, (rec_leaf b Lb); reflexivity].
      rewrite (pick_survivor event_to_remove (fun k => loop (merge_leaf k a b) r')).
      rewrite IH, rec_leaf by (apply merge_is_leaf; assumption). reflexivity.
    - rewrite IH. reflexivity.
    - rewrite IH. reflexivity.
    - rewrite IH. reflexivity.
  Qed.

  Lemma map_fix cs : (fix go l := match l with [] => [] | c :: r => rec c :: go r end) cs = map rec cs.
  Proof. induction cs as [|c r IH]; [reflexivity|]. cbn [map]. rewrite <- IH. reflexivity. Qed.

  Theorem K_tie_step_eq m a r :
    tie_by cond event_to_remove (Seq m (a :: r)) = Seq m (loop a r) /\
    tie_by cond event_to_remove (Sim m (a :: r)) = Sim m (loop a r).
  Proof.
    split; cbn [tie_by]; rewrite map_fix; cbn [map]; rewrite loop_is_tie_flat; reflexivity.
  Qed.

  (* an empty receiver is returned as it is *)
  Theorem K_tie_empty m : tie_by cond event_to_remove (Seq m []) = Seq m [] /\ tie_by cond event_to_remove (Sim m []) = Sim m [].
  Proof. split; reflexivity. Qed.
End Loop.
Print Assumptions K_tie_step_eq.
Print Assumptions K_tie_empty.
