(* Tie lemma: an attribute of a leaf takes part in == exactly when its name is public, it is not the one excluded
   class attribute, and its value is not a bound method - whatever else the value is (a number, None, a function, a
   class ...).  The model's equality (Model/Equality.v) compares every additional parameter of a leaf. *)
From Coq Require Import Bool.
From MV.Gen Require Import K_compared.

Theorem K_compared_eq p x m : K_compared p x m = true <-> p = false /\ x = false /\ m = false.
Proof. unfold K_compared. destruct p, x, m; cbn; intuition discriminate. Qed.
Print Assumptions K_compared_eq.
