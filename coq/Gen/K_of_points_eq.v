(* Tie lemma: the translated Envelope._point_sequence_to_event_list on three-entry points with ascending times is the
   model's of_points (durations are the differences of successive times, the last control point has length 0, the first
   time itself is dropped) - for every number type and every such list of points. *)
From Coq Require Import ZArith List Bool Lia.
From MV Require Import Base.Res Model.EventTree Model.Num Model.Envelope.
From MV.Gen Require Import K_of_points.
Import ListNotations.
Open Scope Z_scope.

Section Tie.
  Context {F : Type}.
  Fixpoint asc_times (pl : list (point F)) : Prop :=
    match pl with
    | p0 :: ((p1 :: _) as r) => fst (fst p0) <= fst (fst p1) /\ asc_times r
    | _ => True
    end.

  Theorem K_of_points_eq : forall pl, asc_times pl -> K_point_sequence_to_event_list pl = Ok (of_points F pl).
  Proof.
    unfold K_point_sequence_to_event_list.
    induction pl as [|[[t0 v] c] pl IH]; intros A; [reflexivity|].
    destruct pl as [|[[t1 v1] c1] pl'].
    - cbn. rewrite Z.sub_diag. reflexivity.
    - destruct A as [A1 A2]. cbn [fst] in A1.
      change (map (@Some (point F)) ((t0, v, c) :: (t1, v1, c1) :: pl') ++ [None])
        with (Some (t0, v, c) :: (map (@Some (point F)) ((t1, v1, c1) :: pl') ++ [None])).
      specialize (IH A2).
      change (map (@Some (point F)) ((t1, v1, c1) :: pl') ++ [None])
        with (Some (t1, v1, c1) :: (map (@Some (point F)) pl' ++ [None])) in *.
      cbn [K_event_loop] in *. destruct (Z.leb_spec t0 t1); [|lia]. cbn [negb bind].
      rewrite IH. reflexivity.
  Qed.
End Tie.

Print Assumptions K_of_points_eq.
