(* Tie lemma: the Gallina translation of /repo's Chronon.cut_out (Gen/K_chronon_cut_out.v, regenerated on every run)
   computes exactly the model's leaf_cut_out, for all arguments.  Hand-written; re-checked on every run. *)
From Coq Require Import ZArith List Bool Lia.
From MV Require Import Base.Res Model.EventTree Model.TreeOps Gen.K_chronon_cut_out.
Open Scope Z_scope.

Lemma K_chronon_cut_out_eq : forall d s e, K_chronon_cut_out d s e = leaf_cut_out d s e.
Proof.
  intros d s e. unfold K_chronon_cut_out, leaf_cut_out, check_time, check_start_end_strict, bind. cbv zeta.
  repeat match goal with
         | |- context [if ?b then _ else _] => destruct b eqn:?
         end; try reflexivity; try discriminate; try (f_equal; lia); exfalso; lia.
Qed.

(* and through it the leaf case of the tree operation *)
Corollary K_chronon_cut_out_tree : forall d l s e,
  cut_out (Leaf d l) s e = match K_chronon_cut_out d s e with Ok d' => Ok (Leaf d' l) | Err k => Err k end.
Proof. intros. rewrite K_chronon_cut_out_eq. reflexivity. Qed.
Print Assumptions K_chronon_cut_out_eq.
