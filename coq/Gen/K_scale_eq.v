(* Tie lemma: the translation of /repo's core_utilities.scale equals the model's scale whenever the two documented
   guards pass (value inside [old_min, old_max], old span not 0); otherwise it is the ValueError / assertion. *)
From Coq Require Import ZArith List Bool.
From MV Require Import Base.Res Model.Num Model.Envelope Gen.K_scale.

Lemma K_scale_eq : forall F (N : Num F) v omin omax nmin nmax c,
  K_scale N v omin omax nmin nmax c =
  if nleb N omin v && nleb N v omax then
    if negb (neqb N (nsub N omax omin) (n0 N)) then Ok (scale F N v omin omax nmin nmax c) else Err EValueError
  else Err EValueError.
Proof.
  intros. unfold K_scale, scale. cbv zeta.
  destruct (nleb N omin v && nleb N v omax); [|reflexivity].
  destruct (neqb N (nsub N omax omin) (n0 N)); [reflexivity|]. cbn [negb].
  destruct (neqb N c (n0 N)); reflexivity.
Qed.
Print Assumptions K_scale_eq.
