(* Tie lemma: the model's set_duration on a container is the translated setter of Compound.duration, with scale read as
   the model's rescale, `duration / len(self)` as the rounded share and set_parameter('duration', f) as the traversal that
   serves every distinct leaf once - for every shared tree, heap of durations and new duration. *)
From Coq Require Import ZArith List Bool QArith.
From MV Require Import Base.Res Model.EventTree Model.Numbers Model.IdTree.
From MV.Gen Require Import K_set_duration.
Import ListNotations.
Open Scope Z_scope.

Theorem K_set_duration_eq i k cs new d :
  set_duration (INode i k cs) new d =
  K_set_duration (fun x old nw => rescale old nw x)
                 (fun nw n => rhe ((nw # 1) / (Z.of_nat n # 1))%Q)
                 (fun upd => snd (apply_once_dur upd (INode i k cs) ([], d)))
                 cs (idur (INode i k cs) d) new.
Proof.
  unfold K_set_duration, set_duration. destruct cs as [|c r]; [reflexivity|].
  cbv zeta. destruct (idur (INode i k (c :: r)) d =? 0); reflexivity.
Qed.

Print Assumptions K_set_duration_eq.
