(* Tie lemma: a leaf's destructive copy (= copy()) is a new object with the same content; nothing else changes.  This is
   the reading of copy() on which the object-graph model (Model/Heap.v: pcopy, dcopy) rests. *)
From Coq Require Import Arith Bool.
From MV.Gen Require Import K_event_copy.

Theorem K_event_copy_eq (S : Type) (h : nat -> S) fresh self : fresh <> self ->
  let '(r, h') := K_chronon_destructive_copy S h fresh self in
  r = fresh /\ h' fresh = h self /\ (forall j, j <> fresh -> h' j = h j).
Proof.
  intro H. unfold K_chronon_destructive_copy, K_copy. split; [reflexivity|]. split.
  - rewrite Nat.eqb_refl. reflexivity.
  - intros j Hj. destruct (Nat.eqb_spec j fresh); [contradiction|reflexivity].
Qed.
Print Assumptions K_event_copy_eq.
