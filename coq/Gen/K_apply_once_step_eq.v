(* Tie lemma: the model's traversal of the children (apply_children, the loop inside apply_once) is the fold of the
   translated loop body of Compound._apply_once_per_event over the children, the call on a child being the model's
   apply_once on that child with the same state. *)
From Coq Require Import ZArith List Bool.
From MV Require Import Model.IdTree.
From MV.Gen Require Import K_apply_once_step.
Import ListNotations.

Theorem K_apply_once_step_eq (upd : option Z -> option Z) : forall cs st,
  apply_children upd cs st = fold_left (fun st e => K_apply_once_step (apply_once upd) e st) cs st.
Proof.
  induction cs as [|c r IH]; intro st; [reflexivity|].
  cbn [apply_children fold_left]. unfold K_apply_once_step at 2. cbv zeta.
  destruct (memn (iid c) (fst st)); cbn [negb]; apply IH.
Qed.

(* and a container's apply_once is that traversal of its children *)
Theorem K_apply_once_node (upd : option Z -> option Z) i k cs st :
  apply_once upd (INode i k cs) st = fold_left (fun st e => K_apply_once_step (apply_once upd) e st) cs st.
Proof. rewrite <- K_apply_once_step_eq. reflexivity. Qed.
Print Assumptions K_apply_once_step_eq.
Print Assumptions K_apply_once_node.
