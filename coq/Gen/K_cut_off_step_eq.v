(* Tie lemma: the translated body of the child loop of /repo's Consecution._cut_off takes, for every child, exactly the
   decision of the model's cf_seq - both when the end of the child is handed in (t1 = the next start = t0 + duration)
   and for the last child (t1 is None and computed from the duration); cut_off_duration is end - start at every call
   site (Consecution.cut_off, squash_in). *)
From Coq Require Import ZArith List Bool Lia.
From MV Require Import Base.Res Model.EventTree Model.TreeOps Proofs.CutOff Gen.K_cut_off_step.
Import ListNotations.
Open Scope Z_scope.

Lemma K_cut_off_step_normal : forall t0 d s en t1, (t1 = None \/ t1 = Some (t0 + d)) ->
  K_cut_off_step t0 t1 d s en (en - s) =
  if (s <=? t0) && (t0 + d <=? en) && (t0 <? en) then ActRemove
  else if (t0 <=? s) && (s <=? t0 + d) then ActCall (s - t0) (s - t0 + (en - s))
  else if (t0 <? en) && (en <? t0 + d) then ActCall 0 ((en - s) - (t0 - s))
  else ActKeep.
Proof.
  intros t0 d s en t1 [-> | ->]; unfold K_cut_off_step; cbv zeta; reflexivity.
Qed.

Definition run_action (op : ev -> Z -> Z -> res ev) (c : ev) (rest : res (list ev)) (a : action) : res (list ev) :=
  match a with
  | ActCall x y => c' <- op c x y ; r' <- rest ; Ok (c' :: r')
  | ActKeep => r' <- rest ; Ok (c :: r')
  | ActRemove => rest
  end.

Theorem K_cut_off_step_eq : forall s en t0 c r t1, (t1 = None \/ t1 = Some (t0 + dur c)) ->
  cf_seq s en t0 (c :: r) = run_action cut_off c (cf_seq s en (t0 + dur c) r) (K_cut_off_step t0 t1 (dur c) s en (en - s)).
Proof.
  intros s en t0 c r t1 H. rewrite cf_seq_cons, (K_cut_off_step_normal _ _ _ _ _ H).
  destruct ((s <=? t0) && (t0 + dur c <=? en) && (t0 <? en)); [reflexivity|].
  destruct ((t0 <=? s) && (s <=? t0 + dur c)); [reflexivity|].
  destruct ((t0 <? en) && (en <? t0 + dur c)); reflexivity.
Qed.
Print Assumptions K_cut_off_step_eq.
