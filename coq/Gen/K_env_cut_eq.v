(* Tie lemmas: the translated Envelope.cut_out / cut_off - with sample_at, the index lookup, Consecution's cut_out and
   _cut_off on control points, squash_in and the time table read as the model's sample_at, pindex_at, validated p_cut_out,
   p_cut_off, p_squash, pstarts - are the model's env_cut_out / env_cut_off, for every number type, every list of control
   points and all times. *)
From Coq Require Import ZArith List Bool Lia.
From MV Require Import Base.Res Model.EventTree Model.TreeOps Model.Num Model.Envelope.
From MV.Gen Require Import K_env_cut.
Import ListNotations.
Open Scope Z_scope.

Section Tie.
  Context {F : Type} (N : Num F).

  Definition seq_cut_out (e : env F) (s en : Z) : res (env F) :=
    _ <- check_time s ; _ <- check_start_end s en ; Ok (p_cut_out F s en 0 e).

  Theorem K_env_cut_out_eq (e : env F) s en :
    K_env_cut_out (fun e t a => sample_at F N e t a) (pindex_at F) seq_cut_out e s en = env_cut_out F N e s en.
  Proof.
    unfold K_env_cut_out, env_cut_out, seq_cut_out.
    destruct (sample_at F N e s (en - s)) as [e1|k]; cbn [bind]; [|reflexivity].
    destruct (sample_at F N e1 en 0) as [e2|k]; cbn [bind]; [|reflexivity].
    destruct (pindex_at F e2 en) as [i|].
    - destruct (nth_error e2 i) as [p|]; cbn [bind]; [|reflexivity].
      destruct (check_time s); cbn [bind]; [|reflexivity]. destruct (check_start_end s en); reflexivity.
    - destruct (rev e2) as [|l r]; cbn [bind]; [reflexivity|].
      destruct (check_time s); cbn [bind]; [|reflexivity]. destruct (check_start_end s en); reflexivity.
  Qed.

  Theorem K_env_cut_off_eq (e : env F) s en :
    K_env_cut_off N (fun e t a => sample_at F N e t a) (fun e s en _ => p_cut_off F s en 0 e) (p_squash F) (pstarts F) e s en
    = env_cut_off F N e s en.
  Proof.
    unfold K_env_cut_off, env_cut_off, check_time, check_start_end_strict.
    destruct (s <? 0); cbn [bind]; [reflexivity|].
    destruct (Z.ltb_spec s en) as [L|L]; cbn [negb bind]; [|reflexivity].
    cbv zeta. destruct (Z.ltb_spec 0 (en - s)); [|lia].
    destruct (sample_at F N e s 0) as [e1|k]; cbn [bind]; [|reflexivity].
    destruct (index_of s (pstarts F e1)) as [i|]; cbn [bind]; [|reflexivity].
    destruct (nth_error e1 i) as [p|]; cbn [bind]; [|reflexivity].
    destruct (sample_at F N e1 en 0) as [e2|k]; cbn [bind]; reflexivity.
  Qed.
End Tie.

Print Assumptions K_env_cut_out_eq.
Print Assumptions K_env_cut_off_eq.
