(* Tie lemma: Envelope.sample_at with its read filled by the translated _point_at (over the translated _value_at and
   _curve_shape_at) is the model's sample_at - for every number type, every list of control points with non-negative
   lengths, every time and append_duration. *)
From Coq Require Import ZArith List Bool.
From MV Require Import Base.Res Model.EventTree Model.TreeOps Model.Num Model.Envelope Proofs.Resample.
From MV.Gen Require Import K_env_chain2 K_value_at_eq K_env_reads_eq K_sample_at_eq.
Import ListNotations.
Open Scope Z_scope.

Section Tie.
  Context {F : Type} (N : Num F).

  Lemma point_at_chain e t : gwf e ->
    K_point_at (K_value_at N) (K_curve_shape_at N) e t (pstarts F e) (pdur F e) = point_at F N e t.
  Proof.
    intros W. rewrite <- K_point_at_eq. unfold K_point_at.
    rewrite (K_value_at_eq N e t W), (K_curve_shape_at_eq N e t W). reflexivity.
  Qed.

  Lemma sample_congr (pa pa' : env F -> Z -> list Z -> Z -> res (point F)) sq e t a :
    pa e t (pstarts F e) (pdur F e) = pa' e t (pstarts F e) (pdur F e) ->
    K_sample_at N pa sq e t a = K_sample_at N pa' sq e t a.
  Proof. intros H. unfold K_sample_at. cbv zeta. rewrite H. reflexivity. Qed.

  Theorem KC_sample_at_eq e t a : gwf e -> KC_sample_at N e t a = sample_at F N e t a.
  Proof.
    intros W. rewrite <- K_sample_at_eq. unfold KC_sample_at. apply sample_congr. apply point_at_chain. exact W.
  Qed.
End Tie.

Print Assumptions KC_sample_at_eq.
