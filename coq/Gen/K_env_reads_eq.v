(* Tie lemmas: the translated Envelope._curve_shape_at, _point_at, time_range_to_point_tuple and integrate_interval, handed
   the model's time table, are the model's curve_shape_at, point_at, points_in_range and integrate - for every number
   type, every list of control points with non-negative lengths and all times.  _curve_shape_at finds the active point
   by bisection where the model walks the points; the other three are the model's definitions up to the order of
   their statements. *)
From Coq Require Import ZArith List Bool Lia.
From MV Require Import Base.Res Model.EventTree Model.TreeOps Model.Num Model.Envelope Proofs.Resample.
From MV.Gen Require Import K_env_reads.
Import ListNotations.
Open Scope Z_scope.

Section Tie.
  Context {F : Type} (N : Num F).
  Implicit Types (e front back : env F) (p q : pt F).

  Lemma cs_go_after : forall e t0 t, gwf e -> t0 + pdur F e <= t -> cs_go F N t0 e t = n0 N.
  Proof.
    induction e as [|p e IH]; intros t0 t W H; [reflexivity|].
    apply gwf_cons in W. destruct W as [Wp W]. cbn [cs_go pdur] in *. pose proof (gdur_nonneg e W).
    destruct (Z.ltb_spec t (t0 + pd p)); [lia|]. apply IH; [exact W|lia].
  Qed.

  Lemma cs_go_skip : forall front p back t0 t, gwf (front ++ p :: back) ->
    t0 + pdur F front <= t < t0 + pdur F front + pd p ->
    cs_go F N t0 (front ++ p :: back) t =
      nsub N (pc p) (nmul N (tround N (ndiv N (tof F N (t - (t0 + pdur F front))) (tof F N (pd p)))) (pc p)).
  Proof.
    induction front as [|x front IH]; intros p back t0 t W H.
    - cbn [app cs_go pdur] in *. destruct (Z.ltb_spec t (t0 + pd p)); [|lia]. rewrite Z.add_0_r. reflexivity.
    - cbn [app cs_go pdur] in *. apply gwf_cons in W. destruct W as [Wx W].
      pose proof W as W'. apply gwf_app in W'. destruct W' as [Wf _]. pose proof (gdur_nonneg front Wf).
      destruct (Z.ltb_spec t (t0 + pd x)); [lia|].
      rewrite (IH p back (t0 + pd x) t W) by lia.
      replace (t0 + pd x + pdur F front) with (t0 + (pd x + pdur F front)) by lia. reflexivity.
  Qed.

  Lemma seg_exists1 t : forall e t0, gwf e -> t0 <= t < t0 + pdur F e ->
    exists front p back, e = front ++ p :: back /\ t0 + pdur F front <= t < t0 + pdur F front + pd p.
  Proof.
    induction e as [|a e IH]; intros t0 W H; [cbn in H; lia|].
    cbn [pdur] in H. apply gwf_cons in W. destruct W as [Wa W].
    destruct (Z_lt_le_dec t (t0 + pd a)) as [L|L].
    - exists [], a, e. cbn [app pdur]. split; [reflexivity|lia].
    - destruct (IH (t0 + pd a) W) as (front & p & back & E & B); [lia|].
      exists (a :: front), p, back. cbn [app pdur]. split; [rewrite E; reflexivity|lia].
  Qed.

  Lemma inside_bisect_le front p back t : gwf (front ++ p :: back) ->
    pdur F front <= t < pdur F front + pd p ->
    bisect_right (pstarts F (front ++ p :: back)) t = S (length front).
  Proof.
    intros W B. apply gwf_app in W. destruct W as [Wf W]. apply gwf_cons in W. destruct W as [Wp Wb].
    unfold pstarts. rewrite pstarts_from_app. cbn [pstarts_from].
    rewrite bisect_right_app.
    2:{ apply Forall_forall. intros z Hz. apply starts_bounds in Hz; [lia|exact Wf]. }
    rewrite pstarts_from_length. cbn [bisect_right].
    destruct (Z.leb_spec (0 + pdur F front) t); [|lia].
    rewrite bisect_right_none; [lia|]. apply starts_gt; [exact Wb|lia].
  Qed.

  Theorem K_curve_shape_at_eq e t : gwf e ->
    K_curve_shape_at N e t (pstarts F e) (pdur F e) = curve_shape_at F N e t.
  Proof.
    intros W. unfold K_curve_shape_at, curve_shape_at. destruct e as [|p0 rest]; [reflexivity|].
    set (e := p0 :: rest) in *. unfold index_at_from.
    destruct (Z.leb_spec 0 t) as [T|T]; [|rewrite andb_false_r; reflexivity].
    destruct (Z.ltb_spec t (pdur F e)) as [E|E]; cbn [andb].
    - destruct (seg_exists1 t e 0 W) as (front & p & back & Ee & B); [lia|].
      rewrite Ee in *. rewrite inside_bisect_le; [|exact W|lia]. cbn [Nat.pred]. cbv zeta.
      rewrite nth_starts. rewrite app_nth2 by lia. rewrite Nat.sub_diag. cbn [nth].
      rewrite (cs_go_skip front p back 0 t W B). reflexivity.
    - f_equal. symmetry. apply cs_go_after; [exact W|lia].
  Qed.

  Theorem K_point_at_eq e t :
    K_point_at (fun e t _ _ => value_at F N e t) (fun e t _ _ => curve_shape_at F N e t) e t (pstarts F e) (pdur F e)
    = point_at F N e t.
  Proof.
    unfold K_point_at, point_at. destruct e as [|p0 rest]; [reflexivity|].
    destruct (index_of t (pstarts F (p0 :: rest))) as [i|]; [|reflexivity].
    destruct (nth_error (p0 :: rest) i); reflexivity.
  Qed.

  Lemma rev_nil {A} (l : list A) : rev l = [] -> l = [].
  Proof. intros H. rewrite <- (rev_involutive l), H. reflexivity. Qed.

  Theorem K_time_range_to_point_tuple_eq e s en :
    (if en <? s then Err EValueError
     else K_time_range_to_point_tuple N (fun e t _ _ => point_at F N e t) e (pstarts F e) (pdur F e) s en)
    = points_in_range F N e s en.
  Proof.
    unfold K_time_range_to_point_tuple, points_in_range. destruct (en <? s); [reflexivity|]. cbv zeta.
    destruct (index_of s (pstarts F e)) as [k|].
    - cbn [bind app]. destruct (index_of en (pstarts F e)) as [k1|]; cbn [bind]; [reflexivity|].
      destruct (point_at F N e en) as [[[tl vl] cl]|err]; cbn [bind]; [|reflexivity].
      unfold sub_shape_of_last.
      destruct (rev (zip_points F (lslice k (bisect_left (pstarts F e) en) (pstarts F e)) (lslice k (bisect_left (pstarts F e) en) e))) as [|[[t0 v0] c0] r] eqn:R;
        [apply rev_nil in R; rewrite R; reflexivity|reflexivity].
    - destruct (point_at F N e s) as [ps|err]; cbn [bind app]; [|reflexivity].
      destruct (index_of en (pstarts F e)) as [k1|]; cbn [bind]; [reflexivity|].
      destruct (point_at F N e en) as [[[tl vl] cl]|err]; cbn [bind]; [|reflexivity].
      unfold sub_shape_of_last. cbn [app].
      match goal with |- context [rev ?l] => destruct (rev l) as [|[[t0 v0] c0] r] eqn:R end;
        [apply rev_nil in R; discriminate R|reflexivity].
  Qed.

  Definition model_step (acc : F) (p0 p1 : point F) : F :=
    let '(t0, v0, c0) := p0 in let '(t1, v1, _) := p1 in
    if t0 <? t1 then nadd N acc (seg_area F N (tof F N (t1 - t0)) v0 v1 c0) else acc.

  Lemma fold_pairs : forall pl acc,
    fold_left (fun a '(p0, p1) => model_step a p0 p1) (pairs pl) acc = integrate_points F N acc pl.
  Proof.
    induction pl as [|[[t0 v0] c0] pl IH]; intros acc; [reflexivity|].
    destruct pl as [|[[t1 v1] c1] pl']; [reflexivity|].
    change (pairs ((t0, v0, c0) :: (t1, v1, c1) :: pl')) with (((t0, v0, c0), (t1, v1, c1)) :: pairs ((t1, v1, c1) :: pl')).
    cbn [fold_left]. rewrite IH. reflexivity.
  Qed.

  Theorem K_integrate_interval_eq e s en :
    K_integrate_interval N
      (K_time_range_to_point_tuple N (fun e t _ _ => point_at F N e t) e (pstarts F e) (pdur F e)) model_step s en
    = integrate F N e s en.
  Proof.
    unfold K_integrate_interval, integrate. destruct (s =? en); [reflexivity|].
    rewrite K_time_range_to_point_tuple_eq.
    destruct (points_in_range F N e s en) as [pl|k]; cbn [bind]; [|reflexivity].
    cbv zeta. rewrite fold_pairs. reflexivity.
  Qed.
End Tie.

Print Assumptions K_curve_shape_at_eq.
Print Assumptions K_point_at_eq.
Print Assumptions K_time_range_to_point_tuple_eq.
Print Assumptions K_integrate_interval_eq.
