(* Tie lemmas: the model's nested and flat reads of a container are the translated loop body mapped over the children,
   with the value the call on a child returns read as the model's unfiltered read of that child. *)
From Coq Require Import ZArith List Bool.
From MV Require Import Model.IdTree.
From MV.Gen Require Import K_get_parameter.
Import ListNotations.

Definition is_chronon (c : iev) : bool := match c with ILeaf _ => true | _ => false end.

Theorem K_get_parameter_nested_eq filt e h :
  get_parameter_nested filt e h =
  flat_map (fun c => K_get_parameter_body false filt (is_chronon c) (get_nested c h)) (ichildren e).
Proof.
  unfold get_parameter_nested. apply flat_map_ext. intros c. unfold K_get_parameter_body.
  destruct c as [i|i k cs]; cbn [is_chronon get_nested].
  - destruct filt; cbn [andb filter]; [|reflexivity]. unfold defined, is_none. destruct (h i); reflexivity.
  - destruct filt; reflexivity.
Qed.

(* the flat read: a child's own flat read (unfiltered) is the tuple of the values at its leaf positions *)
Definition flat_of_child (c : iev) (h : heap (option Z)) : pval :=
  match c with ILeaf i => PV (h i) | INode _ _ _ => PT (map (fun v => PV v) (get_flat c h)) end.

Lemma filter_map_pv (l : list (option Z)) :
  filter (fun v => negb (is_none v)) (map (fun v => PV v) l) = map (fun v => PV v) (filter defined l).
Proof.
  induction l as [|x l IH]; [reflexivity|]. cbn [map filter]. rewrite IH. destruct x; reflexivity.
Qed.

Theorem K_get_parameter_flat_eq filt i k cs h :
  map (fun v => PV v) (get_parameter_flat filt (INode i k cs) h) =
  flat_map (fun c => K_get_parameter_body true filt (is_chronon c) (flat_of_child c h)) cs.
Proof.
  unfold get_parameter_flat, get_flat. change (leaf_positions (INode i k cs)) with (leaf_positions_list cs).
  induction cs as [|c cs IH].
  - destruct filt; reflexivity.
  - cbn [leaf_positions_list flat_map]. fold leaf_positions_list. rewrite <- IH. clear IH.
    unfold K_get_parameter_body.
    destruct filt.
    + rewrite map_app, filter_app, map_app. f_equal.
      destruct c as [j|j kk ccs]; cbn [is_chronon flat_of_child leaf_positions map filter].
      * unfold defined, is_none. destruct (h j); reflexivity.
      * rewrite filter_map_pv. reflexivity.
    + rewrite map_app, map_app. f_equal.
      destruct c as [j|j kk ccs]; reflexivity.
Qed.

Print Assumptions K_get_parameter_nested_eq.
Print Assumptions K_get_parameter_flat_eq.
