(* Tie lemmas: the translated Consecution.get_event_index_at, handed the time table of the model, is the model's index_at;
   get_event_at returns the child at that index, and None exactly when there is no index - for every list of children
   and every time. *)
From Coq Require Import ZArith List Bool Lia.
From MV Require Import Base.Res Model.EventTree.
From MV.Gen Require Import K_get_event_at.
Import ListNotations.
Open Scope Z_scope.

Theorem K_get_event_index_at_eq cs t : K_get_event_index_at (starts cs, dsum cs) t = index_at cs t.
Proof. reflexivity. Qed.

Lemma bisect_right_le l t : (bisect_right l t <= length l)%nat.
Proof. induction l as [|x l IH]; cbn [bisect_right length]; [lia|]. destruct (x <=? t); lia. Qed.

Lemma starts_from_length cs : forall t0, length (starts_from t0 cs) = length cs.
Proof. induction cs as [|c cs IH]; intros t0; cbn [starts_from length]; [reflexivity|]. rewrite IH. reflexivity. Qed.

(* the index found always names a child *)
Theorem K_get_event_at_eq cs t :
  K_get_event_at cs (starts cs, dsum cs) t =
    Ok (match index_at cs t with Some i => nth_error cs i | None => None end)
  /\ (forall i, index_at cs t = Some i -> exists c, nth_error cs i = Some c).
Proof.
  assert (B : forall i, index_at cs t = Some i -> exists c, nth_error cs i = Some c).
  { intros i H. unfold index_at, index_at_from in H.
    destruct ((t <? dsum cs) && (0 <=? t)) eqn:G; [|discriminate]. injection H as <-.
    apply andb_prop in G. destruct G as [G1 G2].
    destruct cs as [|c0 cs']; [cbn in G1, G2; lia|].
    pose proof (bisect_right_le (starts (c0 :: cs')) t) as L. unfold starts in *. rewrite starts_from_length in L.
    assert (0 < bisect_right (starts_from 0 (c0 :: cs')) t)%nat as P.
    { apply Z.leb_le in G2. cbn [starts_from bisect_right]. destruct (Z.leb_spec 0 t); lia. }
    destruct (nth_error (c0 :: cs') (Nat.pred (bisect_right (starts_from 0 (c0 :: cs')) t))) as [c|] eqn:E; [exists c; reflexivity|].
    apply nth_error_None in E. lia. }
  split; [|exact B].
  unfold K_get_event_at. rewrite K_get_event_index_at_eq.
  destruct (index_at cs t) as [i|] eqn:E; [|reflexivity].
  destruct (B i eq_refl) as [c Hc]. rewrite Hc. reflexivity.
Qed.

Print Assumptions K_get_event_index_at_eq.
Print Assumptions K_get_event_at_eq.
