(* Tie lemmas: the model's cut_out / cut_off on a Concurrence is the translated Concurrence.cut_out / cut_off with the
   call on a child read as the model's cut_out / cut_off of that child - for every list of children and all times. *)
From Coq Require Import ZArith List Bool.
From MV Require Import Base.Res Model.EventTree Model.TreeOps.
From MV.Gen Require Import K_sim_cut.
Import ListNotations.
Open Scope Z_scope.

Lemma each_co s e cs : co_sim s e cs = K_for_each cut_out s e cs.
Proof. induction cs as [|c r IH]; [reflexivity|]. cbn [co_sim K_for_each]. fold (co_sim s e). rewrite IH. reflexivity. Qed.

Lemma each_cf s e cs : cf_sim s e cs = K_for_each cut_off s e cs.
Proof. induction cs as [|c r IH]; [reflexivity|]. cbn [cf_sim K_for_each]. fold (cf_sim s e). rewrite IH. reflexivity. Qed.

Theorem K_sim_cut_out_eq m cs s e : cut_out (Sim m cs) s e = (r <- K_sim_cut cut_out cs s e ; Ok (Sim m r)).
Proof.
  change (cut_out (Sim m cs) s e) with (_ <- check_time s ; _ <- check_start_end s e ; r <- co_sim s e cs ; Ok (Sim m r)).
  unfold K_sim_cut, check_time, check_start_end. rewrite (Z.ltb_antisym s e).
  destruct (s <? 0); cbn [bind]; [reflexivity|]. destruct (negb (s <=? e)); cbn [bind]; [reflexivity|].
  rewrite each_co. reflexivity.
Qed.

Theorem K_sim_cut_off_eq m cs s e : cut_off (Sim m cs) s e = (r <- K_sim_cut cut_off cs s e ; Ok (Sim m r)).
Proof.
  change (cut_off (Sim m cs) s e) with (_ <- check_time s ; _ <- check_start_end s e ; r <- cf_sim s e cs ; Ok (Sim m r)).
  unfold K_sim_cut, check_time, check_start_end. rewrite (Z.ltb_antisym s e).
  destruct (s <? 0); cbn [bind]; [reflexivity|]. destruct (negb (s <=? e)); cbn [bind]; [reflexivity|].
  rewrite each_cf. reflexivity.
Qed.

Print Assumptions K_sim_cut_out_eq.
Print Assumptions K_sim_cut_off_eq.
