(* Tie lemmas: the translated Concurrence._make_event_slice_tuple - slice lists padded with None, transposed by zip,
   filtered by truthiness - yields the rows of the model (row j collects the j-th part of every child, falsy parts and
   empty rows dropped), and the translated Concurrence.split_at is the model's sim_split; for every recursive call,
   list of children, list of times and both values of ignore_invalid_split_point. *)
From Coq Require Import ZArith List Bool Lia.
From MV Require Import Base.Res Model.EventTree Model.TreeOps.
From MV.Gen Require Import K_sim_split_at.
Import ListNotations.
Open Scope Z_scope.

Section Tie.
  Variable rec : ev -> list Z -> bool -> res (list ev).

  Lemma max_len_eq (pss : list (list ev)) :
    fold_right Nat.max 0%nat (map (@length (option ev)) (map (map (@Some ev)) pss)) = max_len pss.
  Proof. induction pss as [|ps pss IH]; cbn [map fold_right max_len]; [reflexivity|]. rewrite map_length, IH. reflexivity. Qed.

  Lemma length_le_max (pss : list (list ev)) ps : In ps pss -> (length ps <= max_len pss)%nat.
  Proof.
    induction pss as [|qs pss IH]; intros H; [destruct H|]. cbn [max_len fold_right]. destruct H as [->|H]; [lia|].
    specialize (IH H). unfold max_len in IH. lia.
  Qed.

  Lemma pad_length d (s : list (option ev)) : length (pad d s) = (length s + d)%nat.
  Proof. destruct d; cbn [pad]; [lia|]. rewrite app_length, repeat_length. reflexivity. Qed.

  Lemma nth_some_tail (tail : list (option ev)) : (forall k, nth k tail None = None) ->
    forall (s : list ev) j, nth j (map (@Some ev) s ++ tail) None = nth_error s j.
  Proof.
    intros T. induction s as [|a s IH]; intros j.
    - cbn [map app]. rewrite T. destruct j; reflexivity.
    - destruct j; cbn [map app nth nth_error]; [reflexivity|apply IH].
  Qed.

  Lemma nth_pad d (s : list ev) j : nth j (pad d (map (@Some ev) s)) None = nth_error s j.
  Proof.
    destruct d; cbn [pad].
    - rewrite <- (app_nil_r (map (@Some ev) s)). apply nth_some_tail. intros k. destruct k; reflexivity.
    - apply nth_some_tail. intros k. apply nth_repeat.
  Qed.

  Lemma min_fold M (P : list (list (option ev))) : Forall (fun s => length s = M) P ->
    fold_right (fun s n => Nat.min (length s) n) M P = M.
  Proof. induction 1 as [|s P Hs HP IH]; cbn [fold_right]; [reflexivity|]. rewrite IH, Hs. apply Nat.min_id. Qed.

  Definition padded (pss : list (list ev)) : list (list (option ev)) :=
    map (fun s => pad (max_len pss - length s) s) (map (map (@Some ev)) pss).

  Lemma padded_lengths pss : Forall (fun s => length s = max_len pss) (padded pss).
  Proof.
    unfold padded. rewrite map_map. apply Forall_forall. intros s Hs. apply in_map_iff in Hs.
    destruct Hs as (ps & <- & Hps). rewrite pad_length, map_length. pose proof (length_le_max pss ps Hps). lia.
  Qed.

  Lemma column pss j : map (fun s => nth j s None) (padded pss) = map (fun ps => nth_error ps j) pss.
  Proof. unfold padded. rewrite !map_map. apply map_ext. intros ps. apply nth_pad. Qed.

  Lemma row_eq pss j : somes (filter truthy_opt (map (fun ps => nth_error ps j) pss)) = row pss j.
  Proof.
    unfold row. induction pss as [|ps pss IH]; [reflexivity|].
    cbn [map flat_map]. rewrite filter_app. cbn [filter].
    destruct (nth_error ps j) as [p|]; cbn [truthy_opt filter app].
    - destruct (truthy p); cbn [somes flat_map app]; [f_equal|]; exact IH.
    - exact IH.
  Qed.

  Lemma rows_eq m (f : nat -> list ev) : forall js,
    flat_map (fun j => match f j with [] => [] | _ :: _ => [Sim m (f j)] end) js
    = map (fun r => Sim m r) (filter (fun r => match r with [] => false | _ => true end) (map f js)).
  Proof.
    induction js as [|j js IH]; [reflexivity|]. cbn [flat_map map filter].
    destruct (f j) eqn:E; cbn [app map]; rewrite IH; reflexivity.
  Qed.

  Lemma zip_star_padded pss : pss <> [] ->
    zip_star (padded pss) = map (fun j => map (fun ps => nth_error ps j) pss) (seq 0 (max_len pss)).
  Proof.
    intros NE. pose proof (padded_lengths pss) as L. unfold zip_star.
    destruct (padded pss) as [|s0 P] eqn:E.
    - unfold padded in E. destruct pss; [congruence|discriminate E].
    - inversion L as [|? ? H0 HP]; subst. rewrite H0. rewrite (min_fold (max_len pss) (s0 :: P) L).
      apply map_ext. intros j. rewrite <- E. apply column.
  Qed.

  Theorem K_make_event_slice_tuple_eq m cs sl :
    K_make_event_slice_tuple rec cs sl (fun r => Sim m r) = (pss <- slices_of rec cs sl ; Ok (map (fun r => Sim m r) (rows pss))).
  Proof.
    unfold K_make_event_slice_tuple, slices_of. cbv zeta.
    destruct (mapM (fun c => match sl with [] => Ok [c] | _ :: _ => rec c sl true end) cs) as [pss|k]; cbn [bind]; [|reflexivity].
    f_equal. unfold rows.
    destruct pss as [|ps0 pss']; [reflexivity|].
    set (pss := ps0 :: pss').
    change (match map (map (@Some ev)) pss with
            | [] => map (map (@Some ev)) pss
            | _ :: _ => map (fun s => pad (fold_right Nat.max 0%nat (map (@length (option ev)) (map (map (@Some ev)) pss)) - length s) s)
                          (map (map (@Some ev)) pss)
            end) with (map (fun s => pad (fold_right Nat.max 0%nat (map (@length (option ev)) (map (map (@Some ev)) pss)) - length s) s)
                          (map (map (@Some ev)) pss)).
    rewrite max_len_eq. fold (padded pss). rewrite zip_star_padded by discriminate.
    rewrite flat_map_concat_map, map_map, <- flat_map_concat_map.
    rewrite (flat_map_ext _ (fun j => match row pss j with [] => [] | _ :: _ => [Sim m (row pss j)] end)).
    - apply rows_eq.
    - intros j. rewrite row_eq. reflexivity.
  Qed.

  Theorem K_sim_split_at_eq m cs ts ign : K_sim_split_at rec m cs ts ign = sim_split rec m cs ts ign.
  Proof.
    unfold K_sim_split_at, sim_split, lastZ. destruct ts as [|t ts]; [reflexivity|]. cbv zeta.
    destruct (check_time (hd 0 (sortZ (t :: ts)))); cbn [bind]; [|reflexivity].
    destruct ((dmax cs <? last (sortZ (t :: ts)) 0) && negb ign); [reflexivity|].
    apply K_make_event_slice_tuple_eq.
  Qed.
End Tie.

Print Assumptions K_make_event_slice_tuple_eq.
Print Assumptions K_sim_split_at_eq.
