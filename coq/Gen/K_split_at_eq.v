(* Tie lemma: the translated Consecution.split_at - the loop over the sorted times as the translated body run from the
   state (copy, start-time table, indices, first-time flag), the statements before and after it - is the model's
   seq_split, for every recursive call `rec`, every list of children with non-negative lengths (so that the start-time
   table is ascending, which is when `append` + `sort` is the sorted insertion of the model), every list of times and
   both values of ignore_invalid_split_point. *)
From Coq Require Import ZArith List Bool Lia Permutation.
From MV Require Import Base.Res Model.EventTree Model.TreeOps Proofs.SplitSort.
From MV.Gen Require Import K_split_at.
Import ListNotations.
Open Scope Z_scope.

Lemma ins_front x l : (forall y, In y l -> x <= y) -> insert_sorted x l = x :: l.
Proof.
  induction l as [|z l IH]; simpl; intros H; [reflexivity|].
  destruct (Z.ltb_spec x z); [reflexivity|].
  assert (x = z) by (specialize (H z (or_introl eq_refl)); lia). subst z.
  rewrite IH; [reflexivity|]. intros y Hy. apply H. right. exact Hy.
Qed.

Lemma sortZ_sorted_id l : sorted l -> sortZ l = l.
Proof.
  induction l as [|x l IH]; simpl; intros H; [reflexivity|]. destruct H as [H1 H2].
  rewrite IH by exact H2. apply ins_front. exact H1.
Qed.

Lemma sort_append t l : sorted l -> sortZ (l ++ [t]) = insert_sorted t l.
Proof.
  intros H. rewrite (sortZ_perm (l ++ [t]) (t :: l)).
  - cbn [sortZ]. rewrite (sortZ_sorted_id l H). reflexivity.
  - apply Permutation_sym, Permutation_cons_append.
Qed.

Lemma starts_from_sorted : forall cs t0, Forall (fun c => 0 <= dur c) cs -> sorted (starts_from t0 cs) /\
  (forall y, In y (starts_from t0 cs) -> t0 <= y).
Proof.
  induction cs as [|c cs IH]; intros t0 W; cbn [starts_from sorted]; [split; [exact I|intros y []]|].
  inversion W as [|? ? Wc Wr]; subst. destruct (IH (t0 + dur c) Wr) as [S B].
  assert (forall y, In y (starts_from (t0 + dur c) cs) -> t0 <= y) as B' by (intros y Hy; specialize (B y Hy); lia).
  split; [split; assumption|]. intros y [<-|Hy]; [lia|auto].
Qed.

Lemma starts_sorted cs : Forall (fun c => 0 <= dur c) cs -> sorted (starts cs).
Proof. intros W. apply (starts_from_sorted cs 0 W). Qed.

Section Tie.
  Variable rec : ev -> list Z -> bool -> res (list ev).

  Lemma K_split_at_loop_eq ign durf : forall ts c abl idx first, sorted abl ->
    K_split_at_loop rec ign durf ts c abl idx first = seq_split_loop rec ign first durf ts c abl idx.
  Proof.
    induction ts as [|t ts IH]; intros c abl idx first S; [reflexivity|].
    cbn [K_split_at_loop seq_split_loop]. unfold K_split_at_body.
    assert (F : (if first then false else first) = false) by (destruct first; reflexivity).
    destruct (if first then check_time t else Ok tt) as [u|k]; cbn [bind]; [|reflexivity].
    cbv zeta. rewrite F.
    destruct (index_of t abl) as [i|]; [apply IH; exact S|].
    destruct (t =? durf); [apply IH; exact S|].
    destruct (split_child_core rec c t abl durf) as [[c' i]|k].
    - rewrite (sort_append t abl S). apply IH. apply insert_sorted_sorted. exact S.
    - destruct k; try reflexivity. destruct ign; reflexivity.
  Qed.

  Theorem K_split_at_eq m cs ts ign : Forall (fun c => 0 <= dur c) cs ->
    K_split_at rec m cs ts ign = seq_split rec m cs ts ign.
  Proof.
    intros W. unfold K_split_at, seq_split. destruct ts as [|t0 ts]; [reflexivity|].
    cbv zeta. rewrite K_split_at_loop_eq by (apply starts_sorted; exact W).
    destruct (seq_split_loop rec ign true (dsum cs) (sortZ (t0 :: ts)) cs (starts cs) []) as [[c idx]|k]; cbn [bind]; [|reflexivity].
    destruct (memN 0%nat idx); cbn [negb];
      match goal with |- context [memN (length c) ?l] => destruct (memN (length c) l) end; reflexivity.
  Qed.
End Tie.

Print Assumptions K_split_at_eq.
