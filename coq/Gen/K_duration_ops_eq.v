(* Tie lemmas for the translated Duration arithmetic:
   - the operators +, -, *, / return a NEW object (the one copy() made) holding the result and leave both operands as
     they were - for every concrete duration class (getter / setter uninterpreted) and every pair of operand objects,
     also when both operands are the same object;
   - the named in-place forms update the receiver and return it; another operand object is untouched;
   - with the model's state of a duration object (Model/Numbers.v: dstate, st_beat, st_set) the in-place forms are the
     model's update step `st_step (UArith o b)`, for every operation whose result is defined. *)
From Coq Require Import Arith Bool ZArith QArith Lia.
From MV Require Import Base.Res Model.Numbers.
From MV.Gen Require Import K_duration_ops.

Section Pure.
  Variables S V : Type.
  Variable beat_count : S -> V.
  Variable set_beat_count : S -> V -> S.
  Notation heap := (nat -> S).

  Lemma upd_same (h : heap) i s : upd S h i s i = s.
  Proof. unfold upd. rewrite Nat.eqb_refl. reflexivity. Qed.
  Lemma upd_other (h : heap) i s j : j <> i -> upd S h i s j = h j.
  Proof. intro H. unfold upd. destruct (Nat.eqb_spec j i); [contradiction|reflexivity]. Qed.

  (* one statement for the four operators: K is K__add / K__sub / K__mul / K__truediv *)
  Definition pure_operator (K : (V -> V -> V) -> heap -> nat -> nat -> nat -> nat * heap) : Prop :=
    forall (op : V -> V -> V) (h : heap) fresh self other, fresh <> self -> fresh <> other ->
      let '(r, h') := K op h fresh self other in
      r = fresh /\
      h' fresh = set_beat_count (h self) (op (beat_count (h self)) (beat_count (h other))) /\
      (forall j, j <> fresh -> h' j = h j).

  Lemma dunder_pure K :
    (forall op h fresh self other, K op h fresh self other =
       let '(c, h1) := K_copy S h fresh self in K_math_operation S V beat_count set_beat_count op h1 c other) ->
    pure_operator K.
  Proof.
    intros E op h fresh self other Hs Ho. rewrite E. unfold K_copy, K_math_operation.
    split; [reflexivity|]. split.
    - rewrite upd_same, upd_same. rewrite (upd_other h fresh (h self) other) by congruence. reflexivity.
    - intros j Hj. rewrite !upd_other by exact Hj. reflexivity.
  Qed.

  Theorem K_add_pure : pure_operator (K__add S V beat_count set_beat_count).
  Proof. apply dunder_pure. reflexivity. Qed.
  Theorem K_sub_pure : pure_operator (K__sub S V beat_count set_beat_count).
  Proof. apply dunder_pure. reflexivity. Qed.
  Theorem K_mul_pure : pure_operator (K__mul S V beat_count set_beat_count).
  Proof. apply dunder_pure. reflexivity. Qed.
  Theorem K_truediv_pure : pure_operator (K__truediv S V beat_count set_beat_count).
  Proof. apply dunder_pure. reflexivity. Qed.

  (* the in-place forms *)
  Theorem K_inplace (op : V -> V -> V) (h : heap) self other :
    let '(r, h') := K_math_operation S V beat_count set_beat_count op h self other in
    r = self /\ h' self = set_beat_count (h self) (op (beat_count (h self)) (beat_count (h other))) /\
    (forall j, j <> self -> h' j = h j).
  Proof.
    unfold K_math_operation. split; [reflexivity|]. split; [apply upd_same|]. intros j Hj. apply upd_other. exact Hj.
  Qed.
  Theorem K_named_forms_are_math_operation op h self other :
    K_add S V beat_count set_beat_count op h self other = K_math_operation S V beat_count set_beat_count op h self other /\
    K_subtract S V beat_count set_beat_count op h self other = K_math_operation S V beat_count set_beat_count op h self other /\
    K_multiply S V beat_count set_beat_count op h self other = K_math_operation S V beat_count set_beat_count op h self other /\
    K_divide S V beat_count set_beat_count op h self other = K_math_operation S V beat_count set_beat_count op h self other.
  Proof. repeat split. Qed.
End Pure.

(* ---- the model's duration objects *)
Definition beatQ (s : dstate) : Q := ((st_beat s # 1) / (tpb # 1))%Q.

Theorem K_inplace_is_model_step (o : aop) (s : dstate) (b : dstate) :
  (o = ODiv -> Qeq_bool (beatQ b) 0 = false) ->
  st_step s (UArith o (beatQ b)) =
  Ok (snd (K_math_operation dstate Q beatQ st_set (q_apply o)
             (fun i => if Nat.eqb i 0 then s else b) 0 1) 0%nat).
Proof.
  intro H. unfold K_math_operation, upd. cbn [snd Nat.eqb]. unfold st_step, beatQ in *.
  destruct o; try reflexivity. rewrite (H eq_refl). reflexivity.
Qed.

Print Assumptions K_add_pure.
Print Assumptions K_truediv_pure.
Print Assumptions K_inplace.
Print Assumptions K_inplace_is_model_step.
