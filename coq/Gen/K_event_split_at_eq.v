(* Tie lemma: the translated Event.split_at, with `self.duration` the length d of a leaf and `self.copy().cut_out(t0, t1)`
   the leaf cut to leaf_cut_out d t0 t1 (kernel K_chronon_cut_out), is the model's leaf_split - for every length, label,
   list of times and both values of ignore_invalid_split_point. *)
From Coq Require Import ZArith List Bool.
From MV Require Import Base.Res Model.EventTree Model.TreeOps.
From MV.Gen Require Import K_event_split_at.
Import ListNotations.
Open Scope Z_scope.

Definition leaf_cut (d l t0 t1 : Z) : res ev := d' <- leaf_cut_out d t0 t1 ; Ok (Leaf d' l).

Definition leaf_go (d l : Z) (ign : bool) := fix go (ps : list (Z * Z)) : res (list ev) :=
  match ps with
  | [] => Ok []
  | (t0, t1) :: r =>
    match leaf_cut_out d t0 t1 with
    | Ok d' => r' <- go r ; Ok (Leaf d' l :: r')
    | Err EInvalidStartAndEnd | Err EInvalidCutOut => if ign then go r else Err ESplitError
    | Err k => Err k
    end
  end.

Lemma loop_eq d l ign : forall ps acc,
  K_event_split_loop (leaf_cut d l) ign ps acc = (r <- leaf_go d l ign ps ; Ok (acc ++ r)).
Proof.
  induction ps as [|[t0 t1] ps IH]; intros acc; cbn [K_event_split_loop leaf_go bind]; [rewrite app_nil_r; reflexivity|].
  unfold leaf_cut at 1. destruct (leaf_cut_out d t0 t1) as [d'|k]; cbn [bind].
  - rewrite IH. destruct (leaf_go d l ign ps) as [r|k]; cbn [bind]; [|reflexivity].
    rewrite <- app_assoc. reflexivity.
  - destruct k; try reflexivity; destruct ign; cbn [negb]; try reflexivity; apply IH.
Qed.

Theorem K_event_split_at_eq d l ts ign :
  K_event_split_at d (leaf_cut d l) ts ign = leaf_split d l ts ign.
Proof.
  unfold K_event_split_at, leaf_split. destruct ts as [|t ts]; [reflexivity|].
  cbv zeta. destruct (check_time (hd 0 (sortZ (t :: ts)))) as [u|k]; cbn [bind]; [|reflexivity].
  unfold lastZ.
  destruct (memZ 0 (sortZ (t :: ts))); cbn [negb];
    match goal with |- context [last ?l 0 <? d] =>
      destruct (last l 0 <? d); cbn [bind];
      [|destruct ((d <? last l 0) && negb ign); cbn [bind]; [reflexivity|]] end;
    rewrite loop_eq;
    match goal with |- context [leaf_go d l ign ?ps] => change (leaf_go d l ign ps) with (leaf_go d l ign ps);
      destruct (leaf_go d l ign ps) eqn:E end;
    unfold leaf_go in E; rewrite E; reflexivity.
Qed.

Print Assumptions K_event_split_at_eq.
