(* Tie lemmas: the model's squash_in / slide_in / split_child_at on a Concurrence are the translated loops, with the call
   on a child read as the model's operation on that child.  The code reaches its handler through the child's
   AttributeError, the model by asking whether the child is a leaf: Proofs/NoAttr.v shows that in the model that error
   is the answer of a leaf and of nothing else, so the two coincide - for every list of children and all arguments. *)
From Coq Require Import ZArith List Bool.
From MV Require Import Base.Res Model.EventTree Model.TreeOps Proofs.NoAttr.
From MV.Gen Require Import K_sim_handlers.
Import ListNotations.
Open Scope Z_scope.

Definition sq_go (start : Z) (new : ev) := fix go (l : list ev) : res (list ev) :=
  match l with
  | [] => Ok []
  | Leaf _ _ :: _ => Err EImpossibleToSquashIn
  | c :: r => c' <- squash_in c start new ; r' <- go r ; Ok (c' :: r')
  end.
Definition sl_go (start : Z) (new : ev) := fix go (l : list ev) : res (list ev) :=
  match l with
  | [] => Ok []
  | Leaf _ _ :: _ => Err EImpossibleToSlideIn
  | c :: r => c' <- slide_in c start new ; r' <- go r ; Ok (c' :: r')
  end.
Definition sc_go (t : Z) := fix go (l : list ev) : res (list ev) :=
  match l with
  | [] => Ok []
  | Leaf d l0 :: r => ps <- leaf_split d l0 [t] false ; r' <- go r ; Ok (Seq meta0 ps :: r')
  | c :: r => c' <- split_child_at c t ; r' <- go r ; Ok (c' :: r')
  end.

Lemma pass {A} (r : res A) (h : res A) : r <> Err EAttributeError ->
  match r with Err EAttributeError => h | r0 => r0 end = r.
Proof. intros H. destruct r as [x|k]; [reflexivity|]. destruct k; try reflexivity. contradiction H; reflexivity. Qed.

Lemma sq_loop start new : forall cs, K_put_loop squash_in EImpossibleToSquashIn start new cs = sq_go start new cs.
Proof.
  induction cs as [|c cs IH]; [reflexivity|]. cbn [K_put_loop]. rewrite IH.
  destruct c as [d l|m1 cs1|m1 cs1]; [reflexivity| |];
    (cbn [sq_go]; fold (sq_go start new);
     match goal with |- context [squash_in ?c start new] => destruct (squash_in c start new) as [c'|k] eqn:E end;
     [reflexivity|destruct k; try reflexivity; exfalso;
      eapply squash_in_attribute_error_only_from_leaf; [|exact E]; reflexivity]).
Qed.

Lemma sl_loop start new : forall cs, K_put_loop slide_in EImpossibleToSlideIn start new cs = sl_go start new cs.
Proof.
  induction cs as [|c cs IH]; [reflexivity|]. cbn [K_put_loop]. rewrite IH.
  destruct c as [d l|m1 cs1|m1 cs1]; [reflexivity| |];
    (cbn [sl_go]; fold (sl_go start new);
     match goal with |- context [slide_in ?c start new] => destruct (slide_in c start new) as [c'|k] eqn:E end;
     [reflexivity|destruct k; try reflexivity; exfalso;
      eapply slide_in_attribute_error_only_from_leaf; [|exact E]; reflexivity]).
Qed.

Theorem K_sim_squash_in_eq m cs start new :
  squash_in (Sim m cs) start new = (r <- K_sim_put squash_in EImpossibleToSquashIn (dmax cs) cs start new ; Ok (Sim m r)).
Proof.
  change (squash_in (Sim m cs) start new) with
    (_ <- check_time start ; if dmax cs <? start then Err EInvalidStartValue else r <- sq_go start new cs ; Ok (Sim m r)).
  unfold K_sim_put. destruct (check_time start); cbn [bind]; [|reflexivity].
  destruct (dmax cs <? start); cbn [bind]; [reflexivity|]. rewrite sq_loop. reflexivity.
Qed.

Theorem K_sim_slide_in_eq m cs start new :
  slide_in (Sim m cs) start new = (r <- K_sim_put slide_in EImpossibleToSlideIn (dmax cs) cs start new ; Ok (Sim m r)).
Proof.
  change (slide_in (Sim m cs) start new) with
    (_ <- check_time start ; if dmax cs <? start then Err EInvalidStartValue else r <- sl_go start new cs ; Ok (Sim m r)).
  unfold K_sim_put. destruct (check_time start); cbn [bind]; [|reflexivity].
  destruct (dmax cs <? start); cbn [bind]; [reflexivity|]. rewrite sl_loop. reflexivity.
Qed.

Lemma sc_loop t : forall cs, K_sim_split_child_at split_child_at split_at cs t = sc_go t cs.
Proof.
  induction cs as [|c cs IH]; [reflexivity|]. cbn [K_sim_split_child_at]. rewrite IH.
  destruct c as [d l|m1 cs1|m1 cs1].
  - cbn [split_child_at sc_go]. fold (sc_go t).
    change (split_at (Leaf d l) [t] false) with (leaf_split d l [t] false).
    destruct (leaf_split d l [t] false); reflexivity.
  - cbn [sc_go]; fold (sc_go t);
    match goal with |- context [split_child_at ?c t] => destruct (split_child_at c t) as [c'|k] eqn:E end;
      [reflexivity|destruct k; try reflexivity; exfalso;
       eapply split_child_at_attribute_error_only_from_leaf; [|exact E]; reflexivity].
  - cbn [sc_go]; fold (sc_go t);
    match goal with |- context [split_child_at ?c t] => destruct (split_child_at c t) as [c'|k] eqn:E end;
      [reflexivity|destruct k; try reflexivity; exfalso;
       eapply split_child_at_attribute_error_only_from_leaf; [|exact E]; reflexivity].
Qed.

Theorem K_sim_split_child_at_eq m cs t :
  split_child_at (Sim m cs) t = (r <- K_sim_split_child_at split_child_at split_at cs t ; Ok (Sim m r)).
Proof.
  change (split_child_at (Sim m cs) t) with (r <- sc_go t cs ; Ok (Sim m r)). rewrite sc_loop. reflexivity.
Qed.

Print Assumptions K_sim_squash_in_eq.
Print Assumptions K_sim_slide_in_eq.
Print Assumptions K_sim_split_child_at_eq.
