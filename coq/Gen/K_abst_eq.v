(* Tie lemma: the translated Consecution._abst_tuple_and_dur is the model's (starts, total). *)
From Coq Require Import ZArith List Bool Lia.
From MV Require Import Base.Res Model.EventTree.
From MV.Gen Require Import K_abst.
Import ListNotations.
Open Scope Z_scope.

Lemma accumulate_spec cs : forall t0,
  accumulate_from_n (map (fun e => duration e) cs) t0 = starts_from t0 cs ++ [t0 + dsum cs].
Proof.
  induction cs as [|c r IH]; intro t0; cbn [map accumulate_from_n starts_from dsum app].
  - f_equal. lia.
  - rewrite IH. unfold duration. cbn [app]. f_equal. f_equal. f_equal. lia.
Qed.

Theorem K_abst_eq cfg cs : K_abst cfg cs = (starts cs, dsum cs).
Proof.
  unfold K_abst. cbv zeta. rewrite accumulate_spec, removelast_last, last_last. reflexivity.
Qed.
Print Assumptions K_abst_eq.
