(* Tie lemma: the model's destructive copy of a container (dcopy: a fresh identity for every slot, children in order,
   counter threaded) is the translated Compound.destructive_copy with the copy of a child read as dcopy of that child. *)
From Coq Require Import List Bool Arith.
From MV Require Import Model.Heap.
From MV.Gen Require Import K_destructive_copy.
Import ListNotations.

Lemma children_eq : forall cs n, K_copy_children dcopy cs n = dcopy_list cs n.
Proof.
  induction cs as [|c cs IH]; intros n; [reflexivity|]. cbn [K_copy_children dcopy_list]. fold dcopy_list.
  destruct (dcopy c n) as [c' n1]. rewrite IH. reflexivity.
Qed.

Theorem K_destructive_copy_eq i k t cs n :
  dcopy (GNode i k t cs) n = K_compound_destructive_copy dcopy k cs n.
Proof.
  unfold K_compound_destructive_copy, K_empty_copy.
  change (dcopy (GNode i k t cs) n) with (let '(cs', n') := dcopy_list cs (S (S n)) in (GNode n k (S n) cs', n')).
  cbv zeta. pose proof (children_eq cs (S (S n))) as E. destruct (dcopy_list cs (S (S n))) as [cs' n']. rewrite E. reflexivity.
Qed.

Print Assumptions K_destructive_copy_eq.
