(* Tie lemma: the translated Envelope._value_at, handed the model's time table (start of every control point, total
   duration), is the model's value_at - for every number type, every list of control points with non-negative lengths
   (zero-length points and jumps included) and every time.  The library finds the active segment by bisection in the
   time table and reads both ends by index; the model walks the points; the lemma shows the two coincide. *)
From Coq Require Import ZArith List Bool Lia.
From MV Require Import Base.Res Model.EventTree Model.TreeOps Model.Num Model.Envelope Proofs.Resample.
From MV.Gen Require Import K_value_at.
Import ListNotations.
Open Scope Z_scope.

Section Tie.
  Context {F : Type} (N : Num F).
  Implicit Types (e front back : env F) (p q : pt F).

  Lemma va_go_last d : forall rest p t0 t, gwf (p :: rest) -> t0 + pdur F (removelast (p :: rest)) <= t ->
    va_go F N t0 p rest t = pv (last (p :: rest) d).
  Proof.
    induction rest as [|q rest IH]; intros p t0 t W H; [reflexivity|].
    cbn [va_go]. apply gwf_cons in W. destruct W as [Wp W].
    change (removelast (p :: q :: rest)) with (p :: removelast (q :: rest)) in H. cbn [pdur] in H.
    pose proof (gdur_nonneg (removelast (q :: rest))) as G.
    assert (gwf (removelast (q :: rest))) as Wr.
    { rewrite (app_removelast_last d (l := q :: rest)) in W by discriminate. apply gwf_app in W. tauto. }
    specialize (G Wr).
    destruct (Z.ltb_spec t (t0 + pd p)); [lia|].
    rewrite (IH q (t0 + pd p) t W) by lia. reflexivity.
  Qed.

  Lemma va_go_step t0 p q r t : va_go F N t0 p (q :: r) t =
    if t <? t0 + pd p then scale F N (tof F N t) (tof F N t0) (tof F N (t0 + pd p)) (pv p) (pv q) (pc p)
    else va_go F N (t0 + pd p) q r t.
  Proof. reflexivity. Qed.

  Lemma va_go_skip : forall front p q back a rest t0 t, a :: rest = front ++ p :: q :: back -> gwf (a :: rest) ->
    t0 + pdur F front <= t < t0 + pdur F front + pd p ->
    va_go F N t0 a rest t =
      scale F N (tof F N t) (tof F N (t0 + pdur F front)) (tof F N (t0 + pdur F front + pd p)) (pv p) (pv q) (pc p).
  Proof.
    induction front as [|x front IH]; intros p q back a rest t0 t E W H.
    - cbn [app] in E. injection E as -> ->. rewrite va_go_step. cbn [pdur] in *.
      destruct (Z.ltb_spec t (t0 + pd p)); [|lia]. rewrite Z.add_0_r. reflexivity.
    - cbn [app] in E. injection E as -> ->. cbn [pdur] in H.
      apply gwf_cons in W. destruct W as [Wx W].
      pose proof W as W'. apply gwf_app in W'. destruct W' as [Wf _]. pose proof (gdur_nonneg front Wf).
      destruct front as [|y front'].
      + cbn [app]. rewrite va_go_step. cbn [pdur] in H. destruct (Z.ltb_spec t (t0 + pd x)); [lia|].
        rewrite (IH p q back p (q :: back) (t0 + pd x) t eq_refl W) by (cbn [pdur]; lia).
        cbn [pdur]. cbn [pdur]. f_equal; f_equal; lia.
      + cbn [app]. rewrite va_go_step. destruct (Z.ltb_spec t (t0 + pd x)); [lia|].
        rewrite (IH p q back y (front' ++ p :: q :: back) (t0 + pd x) t eq_refl W) by lia.
        cbn [pdur]. f_equal; f_equal; lia.
  Qed.

  Lemma seg_exists t : forall e t0, gwf e -> t0 <= t < t0 + pdur F (removelast e) ->
    exists front p q back, e = front ++ p :: q :: back /\ t0 + pdur F front <= t < t0 + pdur F front + pd p.
  Proof.
    induction e as [|a e IH]; intros t0 W H; [cbn in H; lia|].
    destruct e as [|b e]; [cbn in H; lia|].
    change (removelast (a :: b :: e)) with (a :: removelast (b :: e)) in H. cbn [pdur] in H.
    apply gwf_cons in W. destruct W as [Wa W].
    destruct (Z_lt_le_dec t (t0 + pd a)) as [L|L].
    - exists [], a, b, e. cbn [app pdur]. split; [reflexivity|lia].
    - destruct (IH (t0 + pd a) W) as (front & p & q & back & E & B); [lia|].
      exists (a :: front), p, q, back. cbn [app pdur]. split; [rewrite E; reflexivity|lia].
  Qed.

  (* the bisection lands on the point whose half-open segment holds t, also when t lies on a control point *)
  Lemma inside_bisect_le front p back t : gwf (front ++ p :: back) ->
    pdur F front <= t < pdur F front + pd p ->
    bisect_right (pstarts F (front ++ p :: back)) t = S (length front).
  Proof.
    intros W B. apply gwf_app in W. destruct W as [Wf W]. apply gwf_cons in W. destruct W as [Wp Wb].
    unfold pstarts. rewrite pstarts_from_app. cbn [pstarts_from].
    rewrite bisect_right_app.
    2:{ apply Forall_forall. intros z Hz. apply starts_bounds in Hz; [lia|exact Wf]. }
    rewrite pstarts_from_length. cbn [bisect_right].
    destruct (Z.leb_spec (0 + pdur F front) t); [|lia].
    rewrite bisect_right_none; [lia|]. apply starts_gt; [exact Wb|lia].
  Qed.

  Lemma last_starts : forall e t0 d, e <> [] -> last (pstarts_from F t0 e) d = t0 + pdur F (removelast e).
  Proof.
    induction e as [|a e IH]; intros t0 d H; [congruence|].
    destruct e as [|b e]; [cbn; lia|].
    change (removelast (a :: b :: e)) with (a :: removelast (b :: e)). cbn [pdur pstarts_from].
    change (last (t0 :: t0 + pd a :: pstarts_from F (t0 + pd a + pd b) e) d)
      with (last (pstarts_from F (t0 + pd a) (b :: e)) d).
    rewrite IH by discriminate. lia.
  Qed.

  Lemma pdur_removelast d e : e <> [] -> pdur F e = pdur F (removelast e) + pd (last e d).
  Proof.
    intros H. rewrite (app_removelast_last d H) at 1. rewrite pdur_app. cbn [pdur]. lia.
  Qed.

  Theorem K_value_at_eq e t : gwf e ->
    K_value_at N e t (pstarts F e) (pdur F e) = value_at F N e t.
  Proof.
    intros W. unfold K_value_at, value_at. cbv zeta.
    destruct e as [|p rest]; [reflexivity|].
    unfold pstarts. cbn [pstarts_from].
    destruct (Z.leb_spec t 0) as [T|T]; cbn [orb hd]; [reflexivity|].
    set (e := p :: rest) in *.
    assert (NE : e <> []) by discriminate.
    assert (L : (if 0 <? pd (last e (dummy N)) then last (0 :: pstarts_from F (0 + pd p) rest) 0 else pdur F e)
                = pdur F (removelast e)).
    { change (0 :: pstarts_from F (0 + pd p) rest) with (pstarts_from F 0 e).
      rewrite (last_starts e 0 0 NE). rewrite (pdur_removelast (dummy N) e NE).
      assert (0 <= pd (last e (dummy N))) as G.
      { rewrite (app_removelast_last (dummy N) NE) in W. apply gwf_app in W. destruct W as [_ W].
        apply gwf_cons in W. tauto. }
      destruct (Z.ltb_spec 0 (pd (last e (dummy N)))); lia. }
    rewrite L.
    destruct (Z.leb_spec (pdur F (removelast e)) t) as [E|E].
    - f_equal. symmetry. apply va_go_last; [exact W|]. fold e. lia.
    - destruct (seg_exists t e 0 W) as (front & a & b & back & Ee & B); [lia|].
      change (0 :: pstarts_from F (0 + pd p) rest) with (pstarts F e).
      pose proof (pdur_removelast (dummy N) e NE) as PD.
      assert (0 <= pd (last e (dummy N))) as G.
      { rewrite (app_removelast_last (dummy N) NE) in W. apply gwf_app in W. destruct W as [_ W].
        apply gwf_cons in W. tauto. }
      unfold index_at_from.
      destruct (Z.ltb_spec t (pdur F e)); [|lia]. destruct (Z.leb_spec 0 t); [|lia]. cbn [andb].
      rewrite (va_go_skip front a b back p rest 0 t Ee W B).
      rewrite Ee. rewrite inside_bisect_le; [|rewrite <- Ee; exact W|lia]. cbn [Nat.pred].
      rewrite nth_starts.
      assert (E2 : front ++ a :: b :: back = (front ++ [a]) ++ b :: back) by (rewrite <- app_assoc; reflexivity).
      assert (N2 : nth (S (length front)) (pstarts F (front ++ a :: b :: back)) 0 = pdur F front + pd a).
      { rewrite E2. replace (S (length front)) with (length (front ++ [a])) by (rewrite app_length; cbn; lia).
        rewrite nth_starts. rewrite pdur_app. cbn [pdur]. lia. }
      rewrite N2.
      assert (N3 : nth (length front) (front ++ a :: b :: back) (dummy N) = a).
      { rewrite app_nth2 by lia. rewrite Nat.sub_diag. reflexivity. }
      assert (N4 : nth (S (length front)) (front ++ a :: b :: back) (dummy N) = b).
      { rewrite app_nth2 by lia. replace (S (length front) - length front)%nat with 1%nat by lia. reflexivity. }
      rewrite N3, N4. reflexivity.
  Qed.
End Tie.

Print Assumptions K_value_at_eq.
