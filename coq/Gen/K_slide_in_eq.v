(* Tie lemma: the translated Consecution.slide_in is the model's seq_slide - for every list of children, start and
   event to slide in. *)
From Coq Require Import ZArith List Bool.
From MV Require Import Base.Res Model.EventTree Model.TreeOps.
From MV.Gen Require Import K_slide_in.
Import ListNotations.
Open Scope Z_scope.

Theorem K_slide_in_eq m cs start new : K_slide_in m cs start new = seq_slide m cs start new.
Proof.
  unfold K_slide_in, seq_slide.
  destruct (check_time start) as [u|k]; cbn [bind]; [|reflexivity].
  cbv zeta. destruct (start =? 0); [reflexivity|].
  destruct (dsum cs <? start); cbn [bind]; [reflexivity|].
  destruct (split_at (Seq m cs) [start] false) as [parts|k]; cbn [bind]; [|reflexivity].
  destruct parts as [|a [|b [|c r]]]; reflexivity.
Qed.

Print Assumptions K_slide_in_eq.
