(* Tie lemmas: the model's extend_until on a Consecution / Concurrence is the translated code, with the white-space maker
   read as a rest of the given length, the call on a child as the model's extend_until of that child and
   `e.duration += difference` as the new length of a leaf.  The handler of AttributeError is reached exactly for leaf
   children: the model's extend_until answers EAttributeError for a leaf and for nothing else (extend_only_leaf_lacks). *)
From Coq Require Import ZArith List Bool.
From MV Require Import Base.Res Model.EventTree Model.TreeOps.
From MV.Gen Require Import K_extend_until.
Import ListNotations.
Open Scope Z_scope.

Definition set_dur (e : ev) (x : Z) : ev := match e with Leaf _ l => Leaf x l | _ => e end.
Definition is_leaf (e : ev) : bool := match e with Leaf _ _ => true | _ => false end.

Definition eu_go (prolong : bool) (d : Z) := fix go (l : list ev) : res (list ev) :=
  match l with
  | [] => Ok []
  | Leaf d0 l0 :: r =>
      if prolong then (r' <- go r ; Ok (Leaf (if 0 <? d - d0 then d0 + (d - d0) else d0) l0 :: r'))
      else Err EImpossibleToExtendUntil
  | c :: r => c' <- extend_until prolong c d ; r' <- go r ; Ok (c' :: r')
  end.

Lemma eu_sim prolong m cs d : extend_until prolong (Sim m cs) d =
  match cs with [] => Err EIneffectiveExtendUntil | _ => r <- eu_go prolong d cs ; Ok (Sim m r) end.
Proof. reflexivity. Qed.

Lemma extend_only_leaf_lacks prolong d : forall e, is_leaf e = false -> extend_until prolong e d <> Err EAttributeError.
Proof.
  induction e as [d0 l0|m cs IH|m cs IH] using ev_ind'; intros L; [discriminate|cbn [extend_until]; discriminate|].
  rewrite eu_sim. destruct cs as [|c0 r0]; [discriminate|].
  assert (G : eu_go prolong d (c0 :: r0) <> Err EAttributeError).
  { clear L. induction (c0 :: r0) as [|c r IHr]; [discriminate|].
    inversion IH as [|? ? Hc Hr]; subst. specialize (IHr Hr).
    destruct c as [d1 l1|m1 cs1|m1 cs1].
    - cbn [eu_go]. fold (eu_go prolong d). destruct prolong; [|discriminate].
      destruct (eu_go true d r) as [r'|k]; cbn [bind]; [discriminate|]. intros E. apply IHr. exact E.
    - cbn [eu_go]. fold (eu_go prolong d). cbn [extend_until bind].
      destruct (eu_go prolong d r) as [r'|k]; cbn [bind]; [discriminate|]. intros E. apply IHr. exact E.
    - cbn [eu_go]. fold (eu_go prolong d). specialize (Hc eq_refl).
      destruct (extend_until prolong (Sim m1 cs1) d) as [c'|k]; cbn [bind]; [|intros E; apply Hc; injection E as ->; reflexivity].
      destruct (eu_go prolong d r) as [r'|k]; cbn [bind]; [discriminate|]. intros E. apply IHr. exact E. }
  destruct (eu_go prolong d (c0 :: r0)) as [r|k]; cbn [bind]; [discriminate|]. intros E. apply G. injection E as ->. reflexivity.
Qed.

Theorem K_seq_extend_until_eq prolong m cs d :
  extend_until prolong (Seq m cs) d = Ok (Seq m (K_seq_extend_until (fun x => Leaf x rest_label) cs d)).
Proof. unfold K_seq_extend_until. cbn [extend_until]. cbv zeta. reflexivity. Qed.

Lemma loop_eq prolong d : forall cs,
  eu_go prolong d cs = K_sim_extend_loop (fun c => extend_until prolong c d) set_dur prolong d cs.
Proof.
  induction cs as [|c r IH]; [reflexivity|].
  cbn [K_sim_extend_loop]. rewrite <- IH.
  destruct c as [d1 l1|m1 cs1|m1 cs1].
  - cbn [eu_go extend_until dur set_dur]. fold (eu_go prolong d). destruct prolong; [|reflexivity]. cbv zeta.
    destruct (0 <? d - d1); cbn [bind]; reflexivity.
  - cbn [eu_go]. fold (eu_go prolong d). cbn [extend_until bind]. reflexivity.
  - cbn [eu_go]. fold (eu_go prolong d).
    pose proof (extend_only_leaf_lacks prolong d (Sim m1 cs1) eq_refl) as NA.
    destruct (extend_until prolong (Sim m1 cs1) d) as [c'|k]; [reflexivity|].
    destruct k; try reflexivity. contradiction NA; reflexivity.
Qed.

Theorem K_sim_extend_until_eq prolong m cs d :
  extend_until prolong (Sim m cs) d =
    (r <- K_sim_extend_until (fun c => extend_until prolong c d) set_dur prolong cs d ; Ok (Sim m r)).
Proof.
  rewrite eu_sim. unfold K_sim_extend_until. destruct cs as [|c r]; [reflexivity|]. rewrite loop_eq. reflexivity.
Qed.

Print Assumptions K_seq_extend_until_eq.
Print Assumptions K_sim_extend_until_eq.
