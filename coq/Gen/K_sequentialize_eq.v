(* Tie lemma: the translated Concurrence.sequentialize, with _make_event_slice_tuple read as the rows of the children's
   slices (what K_sim_split_at's lemma shows it computes), is the model's sequentialize - for every Concurrence. *)
From Coq Require Import ZArith List Bool.
From MV Require Import Base.Res Model.EventTree Model.TreeOps.
From MV.Gen Require Import K_sequentialize.
Import ListNotations.
Open Scope Z_scope.

Lemma times_eq c : K_times_of_child c = seq_times c.
Proof. destruct c as [d l|m cs|m cs]; reflexivity. Qed.

Theorem K_sequentialize_eq m cs :
  K_sequentialize (fun cs sl f => pss <- slices_of (split_at_f (hmax cs)) cs sl ; Ok (map f (rows pss))) (tag m) cs
  = sequentialize (Sim m cs).
Proof.
  unfold K_sequentialize, sequentialize. cbv zeta.
  rewrite (flat_map_ext K_times_of_child seq_times times_eq).
  destruct (slices_of (split_at_f (hmax cs)) cs (removelast (dedup (sortZ (flat_map seq_times cs))))); reflexivity.
Qed.

Print Assumptions K_sequentialize_eq.
