(* Tie lemma: the translated Consecution.start_and_end_time_per_event is the model's list of half-open ranges. *)
From Coq Require Import ZArith List Bool Lia.
From MV Require Import Base.Res Model.EventTree.
From MV.Gen Require Import K_ranges.
Import ListNotations.
Open Scope Z_scope.

Lemma ranges_spec cs : forall t0,
  let acc := accumulate_from_n (map (fun e => duration e) cs) t0 in
  combine acc (tl acc) = ranges_from t0 cs /\ hd 0 acc = t0.
Proof.
  induction cs as [|c r IH]; intro t0; cbn [map accumulate_from_n ranges_from tl hd combine].
  - split; reflexivity.
  - destruct (IH (t0 + duration c)) as [IH1 IH2]. cbv zeta in IH1, IH2. split; [|reflexivity].
    destruct (accumulate_from_n (map (fun e => duration e) r) (t0 + duration c)) as [|a l] eqn:E.
    + destruct r; discriminate.
    + cbn [combine tl hd] in *. subst a. unfold duration in *. rewrite IH1. reflexivity.
Qed.

Theorem K_ranges_eq cfg cs : K_ranges cfg cs = ranges cs.
Proof.
  unfold K_ranges, ranges. cbv zeta. rewrite map_id. apply (ranges_spec cs 0).
Qed.
Print Assumptions K_ranges_eq.
