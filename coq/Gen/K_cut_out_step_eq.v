(* Tie lemma: the translated body of the child loop of /repo's Consecution.cut_out (Gen/K_cut_out_step.v) takes, for
   every child, exactly the decision of the model's co_seq; the model's recursion is therefore the fold of the
   translated loop body over the children with the running start time. *)
From Coq Require Import ZArith List Bool Lia.
From MV Require Import Base.Res Model.EventTree Model.TreeOps Proofs.CutOut Gen.K_cut_out_step.
Import ListNotations.
Open Scope Z_scope.

(* the decision in the model's own terms *)
Lemma K_cut_out_step_normal : forall t0 d s en,
  K_cut_out_step t0 d s en =
  let a := if t0 <? s then s - t0 else 0 in
  let b := if en <? t0 + d then d - (t0 + d - en) else d in
  if a <? b then ActCall a b
  else if (d =? 0) && (s <=? t0) && (t0 <=? en) then ActKeep else ActRemove.
Proof.
  intros. unfold K_cut_out_step. cbv zeta.
  destruct (t0 <? s) eqn:E1; destruct (en <? t0 + d) eqn:E2;
    repeat match goal with
           | |- context [if ?b then _ else _] => destruct b eqn:?
           end; try reflexivity; try discriminate; try (f_equal; lia); exfalso; lia.
Qed.

Definition run_action (op : ev -> Z -> Z -> res ev) (c : ev) (rest : res (list ev)) (a : action) : res (list ev) :=
  match a with
  | ActCall x y => c' <- op c x y ; r' <- rest ; Ok (c' :: r')
  | ActKeep => r' <- rest ; Ok (c :: r')
  | ActRemove => rest
  end.

Theorem K_cut_out_step_eq : forall s en t0 c r,
  co_seq s en t0 (c :: r) = run_action cut_out c (co_seq s en (t0 + dur c) r) (K_cut_out_step t0 (dur c) s en).
Proof.
  intros. rewrite co_seq_cons, K_cut_out_step_normal. cbv zeta.
  destruct ((if t0 <? s then s - t0 else 0) <? (if en <? t0 + dur c then dur c - (t0 + dur c - en) else dur c)); [reflexivity|].
  destruct ((dur c =? 0) && (s <=? t0) && (t0 <=? en)); reflexivity.
Qed.
Print Assumptions K_cut_out_step_eq.
