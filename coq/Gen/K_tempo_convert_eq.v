(* Tie lemmas: the translated TempoConverter._integrate is the model's integrate_c (the memo table as an association list),
   and the translated traversal - start times of a sequence's children read once from the time table, the memo table
   threaded through every visit - is the model's convert_c, whose sequence case uses the running sum; for every number
   type, trajectory, memo table, event tree and start time. *)
From Coq Require Import ZArith List Bool Lia.
From MV Require Import Base.Res Model.EventTree Model.Num Model.Envelope Model.Convert.
From MV.Gen Require Import K_tempo_convert.
Import ListNotations.
Open Scope Z_scope.

Section Tie.
  Context {F : Type} (N : Num F) (senv : env F).

  Theorem K_integrate_eq st a b : K_integrate (integrate F N senv) st a b = integrate_c F N senv st a b.
  Proof. reflexivity. Qed.

  Definition KE := K_convert_event (integrate F N senv).

  Lemma seq_loop_eq : forall l, Forall (fun c => forall st t, KE st c t = convert_c F N senv st t c) l ->
    forall st u t0, K_convert_consecution_loop KE st t0 (starts_from u l) l = convc_seq F N senv st (u + t0) l.
  Proof.
    induction l as [|c l IH]; intros H st u t0; [reflexivity|].
    inversion H as [|? ? Hc Hl]; subst.
    cbn [K_convert_consecution_loop starts_from convc_seq]. fold (convc_seq F N senv).
    rewrite Hc. destruct (convert_c F N senv st (u + t0) c) as [[a st1]|k]; cbn [bind]; [|reflexivity].
    rewrite (IH Hl st1 (u + dur c) t0). replace (u + dur c + t0) with (u + t0 + dur c) by lia. reflexivity.
  Qed.

  Lemma sim_loop_eq : forall l, Forall (fun c => forall st t, KE st c t = convert_c F N senv st t c) l ->
    forall st t0, K_convert_concurrence_loop KE st t0 l = convc_sim F N senv t0 st l.
  Proof.
    induction l as [|c l IH]; intros H st t0; [reflexivity|].
    inversion H as [|? ? Hc Hl]; subst.
    cbn [K_convert_concurrence_loop convc_sim]. fold (convc_sim F N senv t0).
    rewrite Hc. destruct (convert_c F N senv st t0 c) as [[a st1]|k]; cbn [bind]; [|reflexivity].
    rewrite (IH Hl st1 t0). reflexivity.
  Qed.

  Theorem K_convert_event_eq : forall e st t0, KE st e t0 = convert_c F N senv st t0 e.
  Proof.
    induction e as [d l|m cs IH|m cs IH] using ev_ind'; intros st t0.
    - reflexivity.
    - change (KE st (Seq m cs) t0) with (K_convert_consecution_loop KE st t0 (starts_from 0 cs) cs).
      rewrite (seq_loop_eq cs IH st 0 t0). reflexivity.
    - change (KE st (Sim m cs) t0) with (K_convert_concurrence_loop KE st t0 cs).
      rewrite (sim_loop_eq cs IH st t0). reflexivity.
  Qed.
End Tie.

Print Assumptions K_integrate_eq.
Print Assumptions K_convert_event_eq.
