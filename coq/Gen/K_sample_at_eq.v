(* Tie lemma: the translated Envelope.sample_at, with `_point_at` read as the model's point_at and `squash_in` as the
   model's p_squash, is the model's sample_at - for every number type, every list of control points, time and
   append_duration.  The code asks squash_in and handles its InvalidStartValueError; the model tests the duration first:
   p_squash answers with that error exactly when the time lies behind the end (squash_invalid_start_iff). *)
From Coq Require Import ZArith List Bool Lia.
From MV Require Import Base.Res Model.EventTree Model.TreeOps Model.Num Model.Envelope.
From MV.Gen Require Import K_sample_at.
Import ListNotations.
Open Scope Z_scope.

Section Tie.
  Context {F : Type} (N : Num F).

  Lemma mem_index t : forall l, memZ t l = false -> index_of t l = None.
  Proof.
    induction l as [|y l IH]; cbn [memZ index_of]; intros H; [reflexivity|].
    destruct (t =? y); cbn [orb] in H; [discriminate|]. rewrite (IH H). reflexivity.
  Qed.

  Lemma pdur_replace (p' : pt F) : forall (e : env F) i p, nth_error e i = Some p -> pd p' = pd p ->
    pdur F (replace_at i p' e) = pdur F e.
  Proof.
    unfold replace_at. induction e as [|a e IH]; intros i p H E; [destruct i; discriminate|].
    destruct i as [|i]; cbn [nth_error] in H.
    - injection H as ->. cbn [firstn skipn app pdur]. lia.
    - simpl. f_equal. apply (IH i p H E).
  Qed.

  Lemma pdur_set_shape i c (e : env F) : pdur F (set_shape F i c e) = pdur F e.
  Proof.
    unfold set_shape. destruct (nth_error e i) as [p|] eqn:H; [|reflexivity].
    apply (pdur_replace _ e i p H). reflexivity.
  Qed.

  Lemma squash_not_invalid (e : env F) t new : 0 <= t -> pdur F e <? t = false ->
    p_squash F e t new <> Err EInvalidStartValue.
  Proof.
    intros T H. unfold p_squash, check_time. destruct (Z.ltb_spec t 0); [lia|]. cbn [bind]. rewrite H. cbv zeta.
    match goal with |- context [index_of t ?s] => destruct (index_of t s) end; [discriminate|].
    match goal with |- context [?a <=? t] => destruct (a <=? t) end; [discriminate|].
    match goal with |- context [index_at_from t ?s ?d] => destruct (index_at_from t s d) as [a|] end; [|discriminate].
    match goal with |- context [nth_error ?l a] => destruct (nth_error l a) end; [|discriminate].
    match goal with |- context [if ?b then _ else _] => destruct b end; discriminate.
  Qed.

  Lemma squash_invalid (e : env F) t new : 0 <= t -> pdur F e <? t = true ->
    p_squash F e t new = Err EInvalidStartValue.
  Proof.
    intros T H. unfold p_squash, check_time. destruct (Z.ltb_spec t 0); [lia|]. cbn [bind]. rewrite H. reflexivity.
  Qed.

  Lemma point_at_off (e : env F) t : e <> [] -> memZ t (pstarts F e) = false ->
    point_at F N e t = (v <- value_at F N e t ; c <- curve_shape_at F N e t ; Ok (t, v, c)).
  Proof.
    intros NE M. unfold point_at. destruct e as [|p0 rest]; [congruence|]. rewrite (mem_index t _ M). reflexivity.
  Qed.

  Theorem K_sample_at_eq (e : env F) t a :
    K_sample_at N (fun e t _ _ => point_at F N e t) (p_squash F) e t a = sample_at F N e t a.
  Proof.
    unfold K_sample_at, sample_at. destruct e as [|p0 rest]; [reflexivity|].
    remember (p0 :: rest) as e eqn:He.
    unfold check_time. destruct (Z.ltb_spec t 0) as [T|T]; cbn [bind]; [reflexivity|].
    cbv zeta. destruct (memZ t (pstarts F e)) eqn:M; cbn [negb]; [reflexivity|].
    assert (NE : e <> []) by (subst e; discriminate).
    rewrite (point_at_off e t NE M).
    destruct (value_at F N e t) as [v|k]; cbn [bind]; [|reflexivity].
    destruct (curve_shape_at F N e t) as [c|k]; cbn [bind]; [|reflexivity].
    unfold pindex_at.
    set (e1 := match index_at_from t (pstarts F e) (pdur F e) with
               | Some i => match nth_error e i with Some p => set_shape F i (nsub N (pc p) c) e | None => e end
               | None => e end).
    assert (D : pdur F e1 = pdur F e).
    { unfold e1. destruct (index_at_from t (pstarts F e) (pdur F e)) as [i|]; [|reflexivity].
      destruct (nth_error e i); [apply pdur_set_shape|reflexivity]. }
    unfold find_dur. cbv zeta.
    destruct (pdur F e1 <? t) eqn:L.
    - rewrite (squash_invalid e1 t _ T L). rewrite D. reflexivity.
    - pose proof (squash_not_invalid e1 t
        {| pd := match nth_error (pstarts F e) (bisect_right (pstarts F e) t) with Some ns => ns - t | None => a end;
           pv := v; pc := c |} T L) as NI.
      match goal with |- match ?r with _ => _ end = ?r' => change r' with r; destruct r as [x|k] end; [reflexivity|].
      destruct k; try reflexivity. contradiction NI; reflexivity.
  Qed.
End Tie.

Print Assumptions K_sample_at_eq.
