(* Tie lemmas for the composed envelope reads: with every callee filled by its translation, the translated _point_at,
   time_range_to_point_tuple, integrate_interval and get_average_value are the model's point_at, points_in_range, integrate
   and average - for every number type, every list of control points with non-negative lengths and all times.  Built from
   the lemmas of the single kernels; the only additional fact is that each function calls its callee with the arguments
   it was itself given. *)
From Coq Require Import ZArith List Bool Lia.
From MV Require Import Base.Res Model.EventTree Model.TreeOps Model.Num Model.Envelope Proofs.Resample.
From MV.Gen Require Import K_env_chain K_value_at_eq K_env_reads_eq K_average_eq.
Import ListNotations.
Open Scope Z_scope.

Section Tie.
  Context {F : Type} (N : Num F).

  Theorem KC_value_at_eq e t : gwf e -> KC_value_at N e t = value_at F N e t.
  Proof. intros W. apply K_value_at_eq. exact W. Qed.

  Theorem KC_point_at_eq e t : gwf e -> KC_point_at N e t (pstarts F e) (pdur F e) = point_at F N e t.
  Proof.
    intros W. rewrite <- K_point_at_eq. unfold KC_point_at, K_point_at.
    rewrite (K_value_at_eq N e t W), (K_curve_shape_at_eq N e t W). reflexivity.
  Qed.

  Lemma range_congr (pa pa' : env F -> Z -> list Z -> Z -> res (point F)) e tb d s en :
    (forall t, pa e t tb d = pa' e t tb d) ->
    K_time_range_to_point_tuple N pa e tb d s en = K_time_range_to_point_tuple N pa' e tb d s en.
  Proof. intros H. unfold K_time_range_to_point_tuple. cbv zeta. rewrite !H. reflexivity. Qed.

  Theorem KC_time_range_to_point_tuple_eq e s en : gwf e ->
    (if en <? s then Err EValueError else KC_time_range_to_point_tuple N e (pstarts F e) (pdur F e) s en)
    = points_in_range F N e s en.
  Proof.
    intros W. rewrite <- K_time_range_to_point_tuple_eq. unfold KC_time_range_to_point_tuple.
    rewrite (range_congr (KC_point_at N) (fun e t _ _ => point_at F N e t)); [reflexivity|].
    intros t. apply KC_point_at_eq. exact W.
  Qed.

  Lemma integrate_congr (f f' : Z -> Z -> res (list (point F))) body s en :
    (en <? s = false -> f s en = f' s en) ->
    K_integrate_interval N f body s en = K_integrate_interval N f' body s en.
  Proof.
    intros H. unfold K_integrate_interval. destruct (s =? en); [reflexivity|].
    destruct (en <? s); [reflexivity|]. rewrite H by reflexivity. reflexivity.
  Qed.

  Theorem KC_integrate_interval_eq e s en : gwf e ->
    KC_integrate_interval N (model_step N) e s en = integrate F N e s en.
  Proof.
    intros W. rewrite <- K_integrate_interval_eq. unfold KC_integrate_interval.
    apply integrate_congr. intros _. unfold KC_time_range_to_point_tuple.
    apply range_congr. intros t. apply KC_point_at_eq. exact W.
  Qed.

  Theorem KC_get_average_value_eq e s en : gwf e ->
    KC_get_average_value N (model_step N) e s en =
    average F N e (match s with None => 0 | Some x => x end) (match en with None => pdur F e | Some x => x end).
  Proof.
    intros W. rewrite <- K_average_eq. unfold KC_get_average_value, K_get_average_value. cbv zeta.
    destruct (_ =? 0); [apply KC_value_at_eq; exact W|].
    rewrite KC_integrate_interval_eq by exact W. reflexivity.
  Qed.
End Tie.

Print Assumptions KC_point_at_eq.
Print Assumptions KC_time_range_to_point_tuple_eq.
Print Assumptions KC_integrate_interval_eq.
Print Assumptions KC_get_average_value_eq.
