(* Tie lemma: the translation of /repo's Tempo.seconds (a plain property, decorators compared) is the beat length the
   conversion model starts from: 60 / bpm, as used by seconds_env (every control point) and metrize (constant tempi). *)
From Coq Require Import ZArith List Bool.
From MV Require Import Base.Res Model.Num Model.Envelope Model.Convert Gen.K_tempo_seconds.

Lemma K_tempo_seconds_eq : forall F (N : Num F) bpm,
  K_tempo_seconds N bpm = Ok (ndiv N (n60 F N) bpm).
Proof. intros. reflexivity. Qed.
Print Assumptions K_tempo_seconds_eq.
