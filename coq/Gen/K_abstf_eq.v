(* Tie lemma: the translated Consecution._abstf_tuple_and_dur is the model's table of start times and the total,
   each entry rounded once, after accumulation, with the precision read at call time. *)
From Coq Require Import ZArith List Bool Lia.
From MV Require Import Base.Res Model.EventTree.
From MV.Gen Require Import K_abstf.
Import ListNotations.
Open Scope Z_scope.

Lemma accumulate_spec cs : forall t0,
  accumulate_from_n (map (fun e => beat_count (duration e)) cs) t0 = starts_from t0 cs ++ [t0 + dsum cs].
Proof.
  induction cs as [|c r IH]; intro t0; cbn [map accumulate_from_n starts_from dsum app].
  - f_equal. lia.
  - rewrite IH. unfold beat_count, duration. cbn [app]. f_equal. f_equal. f_equal. lia.
Qed.

Theorem K_abstf_eq (rf : Z -> Z -> Z) cfg cs :
  K_abstf rf cfg cs = (map (fun d => rf d cfg) (starts cs), rf (dsum cs) cfg).
Proof.
  unfold K_abstf. cbv zeta. rewrite accumulate_spec, map_app. cbn [map].
  rewrite removelast_last, last_last. reflexivity.
Qed.

(* with the model's reading of rounding on tick-exact values (the identity) *)
Corollary K_abstf_model cfg cs : K_abstf (fun d _ => d) cfg cs = (starts cs, dsum cs).
Proof. rewrite K_abstf_eq. rewrite map_id. reflexivity. Qed.
Print Assumptions K_abstf_eq.
