(* Tie lemma: the translated loop body of /repo's Envelope.integrate_interval adds exactly the model's seg_area. *)
From Coq Require Import ZArith List Bool.
From MV Require Import Base.Res Model.Num Model.Envelope Gen.K_segment_step.

Lemma K_segment_step_eq : forall F (N : Num F) acc t0 v0 c t1 v1,
  K_segment_step N acc t0 v0 c t1 v1 =
  if nltb N (n0 N) (nsub N t1 t0) then nadd N acc (seg_area F N (nsub N t1 t0) v0 v1 c) else acc.
Proof.
  intros. unfold K_segment_step, seg_area. cbv zeta.
  destruct (nltb N (n0 N) (nsub N t1 t0)); [|reflexivity].
  destruct (neqb N c (n0 N)); reflexivity.
Qed.
Print Assumptions K_segment_step_eq.
