(* Tie lemma: the translated Consecution.duration is the sum of the children's durations (0 if there are none). *)
From Coq Require Import ZArith List Bool Lia.
From MV Require Import Base.Res Model.EventTree.
From MV.Gen Require Import K_seq_duration.
Import ListNotations.
Open Scope Z_scope.

Lemma fold_add l : forall a, fold_left Z.add (map (fun e => duration e) l) a = a + dsum l.
Proof. induction l as [|c r IH]; intro a; cbn [map fold_left dsum]; [lia|]. rewrite IH. unfold duration. lia. Qed.

Theorem K_seq_duration_eq cfg m cs : K_seq_duration cfg cs = dur (Seq m cs).
Proof.
  unfold K_seq_duration, reduce_add_or. change (dur (Seq m cs)) with (dsum cs).
  destruct cs as [|c r]; cbn [map dsum]; [reflexivity|]. rewrite fold_add. reflexivity.
Qed.
Print Assumptions K_seq_duration_eq.
