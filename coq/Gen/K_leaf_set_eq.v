(* Tie lemma: the translated Chronon._set_parameter is the model's edit of one leaf, for a function and for a plain value. *)
From Coq Require Import ZArith List Bool.
From MV Require Import Model.IdTree.
From MV.Gen Require Import K_leaf_set.

Theorem K_leaf_set_eq su g old : K_leaf_set su (Callable g) old = leaf_set su g old.
Proof. unfold K_leaf_set, leaf_set. destruct old, su; reflexivity. Qed.

Theorem K_leaf_set_plain su v old : K_leaf_set su (Plain v) old = leaf_set su (fun _ => v) old.
Proof. unfold K_leaf_set, leaf_set. destruct old, su; reflexivity. Qed.
Print Assumptions K_leaf_set_eq.
Print Assumptions K_leaf_set_plain.
