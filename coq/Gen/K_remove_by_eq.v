(* Tie lemma: the translated loop of Compound.remove_by (deleting by index from the back) keeps exactly the children that
   satisfy the condition, in order - it is the model's `filter`. *)
From Coq Require Import List Bool Arith Lia.
From MV Require Import Base.Res Model.EventTree Model.TreeOps.
From MV.Gen Require Import K_remove_by.
Import ListNotations.

Lemma delete_at_length {A} (xs : list A) x tail : delete_at (length xs) ((xs ++ [x]) ++ tail) = xs ++ tail.
Proof.
  unfold delete_at. rewrite <- app_assoc. cbn [app].
  rewrite firstn_app, firstn_all, Nat.sub_diag. cbn [firstn]. rewrite app_nil_r.
  replace (S (length xs)) with (length (xs ++ [x])) by (rewrite app_length; cbn; lia).
  change (xs ++ x :: tail) with (xs ++ [x] ++ tail). rewrite app_assoc, skipn_app, skipn_all, Nat.sub_diag. reflexivity.
Qed.

Lemma remove_by_loop (c : ev -> bool) : forall cs tail,
  fold_left (fun self_ '(i, e) => if negb (c e) then delete_at i self_ else self_)
            (combine (rev (seq 0 (length cs))) (rev cs)) (cs ++ tail) = filter c cs ++ tail.
Proof.
  intro cs. induction cs as [|x xs IH] using rev_ind; intro tail; [reflexivity|].
  rewrite app_length. cbn [length]. rewrite Nat.add_1_r, seq_S, !rev_unit. cbn [plus combine fold_left].
  rewrite filter_app. cbn [filter].
  destruct (c x); cbn [negb].
  - rewrite <- !app_assoc. cbn [app]. apply IH.
  - rewrite delete_at_length, app_nil_r. apply IH.
Qed.

Theorem K_remove_by_eq (c : ev -> bool) cs : K_remove_by c cs = filter c cs.
Proof.
  unfold K_remove_by. rewrite <- (app_nil_r cs) at 3. rewrite remove_by_loop. apply app_nil_r.
Qed.

(* hence the model's remove_by is the translated loop on the children, kind / tag / tempo kept *)
Corollary K_remove_by_model (c : ev -> bool) e : remove_by c e = with_children e (K_remove_by c (children e)).
Proof. rewrite K_remove_by_eq. reflexivity. Qed.
Print Assumptions K_remove_by_eq.
