(* Tie lemmas: on a RatioDuration the translated setter and getter of ratio / beat_count are the model's st_set and
   st_read - the setter drops the stored beat count, a read returns the stored one or computes and stores it. *)
From Coq Require Import ZArith QArith List Bool.
From MV Require Import Base.Res Model.Numbers.
From MV.Gen Require Import K_ratio_duration.

Theorem K_ratio_set_eq s q : skind s = KRatio -> K_ratio_beat_count_set s q = st_set s q.
Proof. intros H. unfold K_ratio_beat_count_set, K_ratio_set, st_set. rewrite H. reflexivity. Qed.

Theorem K_ratio_read_eq s : K_ratio_beat_count_get to_ticks s = st_read s.
Proof.
  unfold K_ratio_beat_count_get, K_ratio_cached_beat_count, st_read, st_beat.
  destruct s as [k r [c|]]; reflexivity.
Qed.

Print Assumptions K_ratio_set_eq.
Print Assumptions K_ratio_read_eq.
