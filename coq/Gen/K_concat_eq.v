(* Tie lemma: the model's concatenation (concat_fuel: children afterwards and the error raised, if any) is the translated
   concatenate_by_index / concatenate_by_tag, with _extend_ancestor read as the translated K_extend_ancestor over the two
   recursive calls, extend_until as the model's extend_until on the receiver and the padding of a new voice as pad_front -
   for every fuel, receiver, list of voices to append and both ways of matching voices. *)
From Coq Require Import ZArith List Bool Lia Arith.
From MV Require Import Base.Res Model.EventTree Model.TreeOps.
From MV.Gen Require Import K_concat.
Import ListNotations.
Open Scope Z_scope.

Definition EU (m : meta) (cs : list ev) (d : Z) : res (list ev) := e <- extend_until true (Sim m cs) d ; Ok (children e).
Definition ext_anc (n : nat) := K_extend_ancestor (concat_fuel n true) (concat_fuel n false).

Definition mgo (n : nat) (by_tag : bool) (d : Z) :=
  fix go (i : nat) (cur : list ev) (os : list ev) : (list ev * option err) :=
         match os with
         | [] => (cur, None)
         | e :: r =>
           if by_tag && (tag (meta_of e) =? 0) then (cur, Some ENoTag) else
           let anc_i := if by_tag then first_with_tag (tag (meta_of e)) 0%nat cur
                        else (if Nat.ltb i (length cur) then Some i else None) in
           match anc_i with
           | None =>
             match (if 0 <? d then pad_front e d else Ok e) with
             | Err k => (cur, Some k)
             | Ok e' => go (S i) (cur ++ [e']) r
             end
           | Some j =>
             match nth_error cur j with
             | None => (cur, Some EIndexError)
             | Some (Leaf _ _) => (cur, Some EConcatenation)
             | Some (Seq ma acs) =>
               match e with
               | Leaf _ _ => (cur, Some ETypeError)
               | _ => go (S i) (replace_at j (Seq ma (acs ++ children e)) cur) r
               end
             | Some (Sim ma acs) =>
               match e with
               | Leaf _ _ => (cur, Some ETypeError)
               | _ =>
                 let '(acs1, er1) := concat_fuel n true ma acs (children e) in
                 match er1 with
                 | None => go (S i) (replace_at j (Sim ma acs1) cur) r
                 | Some ENoTag =>
                   let '(acs2, er2) := concat_fuel n false ma acs1 (children e) in
                   match er2 with
                   | None => go (S i) (replace_at j (Sim ma acs2) cur) r
                   | Some k => (replace_at j (Sim ma acs2) cur, Some k)
                   end
                 | Some k => (replace_at j (Sim ma acs1) cur, Some k)
                 end
               end
             end
           end
         end.

Lemma concat_fuel_S n by_tag m cs os :
  concat_fuel (S n) by_tag m cs os =
  match pre_extend m cs with Err k => (cs, Some k) | Ok cs0 => mgo n by_tag (dmax cs) 0%nat cs0 os end.
Proof. reflexivity. Qed.

Lemma replace_at_same {A} : forall (l : list A) j a, nth_error l j = Some a -> replace_at j a l = l.
Proof.
  unfold replace_at. induction l as [|x l IH]; intros j a H; [destruct j; discriminate|].
  destruct j as [|j]; cbn [nth_error] in H; [injection H as ->; reflexivity|].
  cbn [firstn skipn app]. f_equal. apply IH. exact H.
Qed.

(* what the translated call does with a found ancestor is what the model's loop does *)
Lemma onto_eq n by_tag d i r cur j a e (IHr : forall i cur, mgo n by_tag d i cur r = (if by_tag then K_by_tag_loop pad_front (ext_anc n) d cur r
                                                                                   else K_by_index_loop pad_front (ext_anc n) d cur i r)) :
  nth_error cur j = Some a ->
  match a with
  | Leaf _ _ => (cur, Some EConcatenation)
  | Seq ma acs => match e with Leaf _ _ => (cur, Some ETypeError) | _ => mgo n by_tag d (S i) (replace_at j (Seq ma (acs ++ children e)) cur) r end
  | Sim ma acs =>
    match e with
    | Leaf _ _ => (cur, Some ETypeError)
    | _ => let '(acs1, er1) := concat_fuel n true ma acs (children e) in
           match er1 with
           | None => mgo n by_tag d (S i) (replace_at j (Sim ma acs1) cur) r
           | Some ENoTag => let '(acs2, er2) := concat_fuel n false ma acs1 (children e) in
                            match er2 with None => mgo n by_tag d (S i) (replace_at j (Sim ma acs2) cur) r
                                      | Some k => (replace_at j (Sim ma acs2) cur, Some k) end
           | Some k => (replace_at j (Sim ma acs1) cur, Some k)
           end
    end
  end =
  match K_onto_ancestor (ext_anc n) cur j a e with
  | (c, None) => if by_tag then K_by_tag_loop pad_front (ext_anc n) d c r else K_by_index_loop pad_front (ext_anc n) d c (S i) r
  | raised => raised
  end.
Proof.
  intros E. unfold K_onto_ancestor, ext_anc, K_extend_ancestor.
  destruct a as [da la|ma acs|ma acs].
  - rewrite (replace_at_same cur j _ E). reflexivity.
  - destruct e as [de le|me ecs|me ecs]; [rewrite (replace_at_same cur j _ E); reflexivity|apply IHr|apply IHr].
  - destruct e as [de le|me ecs|me ecs]; [rewrite (replace_at_same cur j _ E); reflexivity| |];
      (destruct (concat_fuel n true ma acs _) as [acs1 er1]; destruct er1 as [k|]; [|apply IHr];
       destruct k; try reflexivity;
       destruct (concat_fuel n false ma acs1 _) as [acs2 er2]; destruct er2 as [k2|]; [reflexivity|apply IHr]).
Qed.

Lemma index_loop_eq n d : forall os i cur,
  mgo n false d i cur os = K_by_index_loop pad_front (ext_anc n) d cur i os.
Proof.
  induction os as [|e r IH]; intros i cur; [reflexivity|].
  cbn [mgo K_by_index_loop]. fold (mgo n false d). cbn [andb]. cbv zeta. unfold K_by_index_body.
  destruct (Nat.ltb_spec i (length cur)) as [L|L].
  - destruct (nth_error cur i) as [a|] eqn:E; [|apply nth_error_None in E; lia].
    apply (onto_eq n false d i r cur i a e); [intros; apply IH|exact E].
  - assert (E : nth_error cur i = None) by (apply nth_error_None; lia). rewrite E. unfold K_new_voice.
    destruct (if 0 <? d then pad_front e d else Ok e) as [e'|k]; [apply IH|reflexivity].
Qed.

Lemma tag_loop_eq n d : forall os i cur,
  mgo n true d i cur os = K_by_tag_loop pad_front (ext_anc n) d cur os.
Proof.
  induction os as [|e r IH]; intros i cur; [reflexivity|].
  cbn [mgo K_by_tag_loop]. fold (mgo n true d). cbn [andb]. cbv zeta. unfold K_by_tag_body. cbv zeta.
  destruct (tag (meta_of e) =? 0); [reflexivity|].
  destruct (first_with_tag (tag (meta_of e)) 0 cur) as [j|].
  - destruct (nth_error cur j) as [a|] eqn:E; [|reflexivity].
    apply (onto_eq n true d i r cur j a e); [intros; apply IH|exact E].
  - unfold K_new_voice. destruct (if 0 <? d then pad_front e d else Ok e) as [e'|k]; [apply IH|reflexivity].
Qed.

Theorem K_concat_eq n by_tag m cs os :
  concat_fuel (S n) by_tag m cs os =
  if by_tag then K_concatenate_by_tag (EU m) pad_front (ext_anc n) (dmax cs) cs os
  else K_concatenate_by_index (EU m) pad_front (ext_anc n) (dmax cs) cs os.
Proof.
  rewrite concat_fuel_S. unfold pre_extend, K_concatenate_by_tag, K_concatenate_by_index, EU.
  destruct by_tag; destruct (if 0 <? dmax cs then _ else _) as [cs0|k]; try reflexivity;
    [apply tag_loop_eq|apply index_loop_eq].
Qed.

Print Assumptions K_concat_eq.
