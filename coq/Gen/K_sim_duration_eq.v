(* Tie lemma: the translated Concurrence.duration is the longest child (0 if there are none); durations are not negative. *)
From Coq Require Import ZArith List Bool Lia.
From MV Require Import Base.Res Model.EventTree.
From MV.Gen Require Import K_sim_duration.
Import ListNotations.
Open Scope Z_scope.

Lemma fold_max_spec l : forall a, 0 <= a -> fold_left Z.max (map (fun e => duration e) l) a = Z.max a (dmax l).
Proof.
  induction l as [|c r IH]; intros a Ha; cbn [map fold_left dmax].
  - lia.
  - rewrite IH by lia. unfold duration. lia.
Qed.

Theorem K_sim_duration_eq cfg m cs : Forall (fun c => 0 <= dur c) cs ->
  K_sim_duration cfg cs = dur (Sim m cs).
Proof.
  intro H. unfold K_sim_duration, max_or. change (dur (Sim m cs)) with (dmax cs).
  destruct cs as [|c r]; cbn [map dmax]; [reflexivity|].
  inversion H as [|x l Hc Hr]; subst. rewrite fold_max_spec by (unfold duration; exact Hc). unfold duration. reflexivity.
Qed.
Print Assumptions K_sim_duration_eq.
