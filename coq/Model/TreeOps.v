(* M1: the time-axis operations of Chronon / Consecution / Concurrence, modelled
   one-to-one with the methods of mutwo/core_events/basic.py and abc.py
   (tree *after* the fix: commits recorded in known_findings.json).
   Definitions only. *)
From Coq Require Import ZArith List Bool.
From MV Require Import Base.Res Model.EventTree.
Import ListNotations.
Open Scope Z_scope.

(* ------------------------------------------------------------ list helpers *)
Fixpoint insert_sorted (x : Z) (l : list Z) : list Z :=
  match l with [] => [x] | y :: r => if x <? y then x :: l else y :: insert_sorted x r end.
(* stable ascending sort (Python's sorted) *)
Fixpoint sortZ (l : list Z) : list Z :=
  match l with [] => [] | x :: r => insert_sorted x (sortZ r) end.
Fixpoint memZ (x : Z) (l : list Z) : bool :=
  match l with [] => false | y :: r => (x =? y) || memZ x r end.
(* list.index: first position *)
Fixpoint index_of (x : Z) (l : list Z) : option nat :=
  match l with [] => None | y :: r => if x =? y then Some 0%nat else option_map S (index_of x r) end.
Fixpoint memN (x : nat) (l : list nat) : bool :=
  match l with [] => false | y :: r => Nat.eqb x y || memN x r end.
Definition insert_at {A} (i : nat) (x : A) (l : list A) : list A := firstn i l ++ x :: skipn i l.
Definition replace_at {A} (i : nat) (x : A) (l : list A) : list A := firstn i l ++ x :: skipn (S i) l.
Definition lslice {A} (i0 i1 : nat) (l : list A) : list A := firstn (i1 - i0) (skipn i0 l).
Fixpoint dedup (l : list Z) : list Z :=   (* on a sorted list *)
  match l with
  | [] => []
  | x :: r => match r with [] => [x] | y :: _ => if x =? y then dedup r else x :: dedup r end
  end.
Fixpoint pairs {A} (l : list A) : list (A * A) :=   (* zip l l[1:] *)
  match l with [] => [] | x :: r => match r with [] => [] | y :: _ => (x, y) :: pairs r end end.
Definition lastZ (l : list Z) : Z := last l 0.

(* ------------------------------------------------------------ argument validation *)
Definition check_time (t : Z) : res unit := if t <? 0 then Err EInvalidAbsoluteTime else Ok tt.
Definition check_start_end (s e : Z) : res unit := if e <? s then Err EInvalidStartAndEnd else Ok tt.
Definition check_start_end_strict (s e : Z) : res unit := if s <? e then Ok tt else Err EInvalidStartAndEnd.

(* ------------------------------------------------------------ cut_out *)
(* Chronon.cut_out on the duration *)
Definition leaf_cut_out (d s e : Z) : res Z :=
  _ <- check_time s ; _ <- check_start_end_strict s e ;
  let diff := (if 0 <? s then s else 0) + (if e <? d then d - e else 0) in
  if d <=? diff then Err EInvalidCutOut else Ok (d - diff).

Fixpoint cut_out (e : ev) (s en : Z) : res ev :=
  match e with
  | Leaf d l => d' <- leaf_cut_out d s en ; Ok (Leaf d' l)
  | Seq m cs =>
      _ <- check_time s ; _ <- check_start_end s en ;
      r <- (fix go (t0 : Z) (l : list ev) : res (list ev) :=
         match l with
         | [] => Ok []
         | c :: r =>
           let d := dur c in let t1 := t0 + d in
           let a := if t0 <? s then s - t0 else 0 in
           let b := if en <? t1 then d - (t1 - en) else d in
           if a <? b then (c' <- cut_out c a b ; r' <- go t1 r ; Ok (c' :: r'))
           else if (d =? 0) && (s <=? t0) && (t0 <=? en) then (r' <- go t1 r ; Ok (c :: r'))
           else go t1 r
         end) 0 cs ; Ok (Seq m r)
  | Sim m cs =>
      _ <- check_time s ; _ <- check_start_end s en ;
      r <- (fix go (l : list ev) : res (list ev) :=
         match l with [] => Ok [] | c :: r => c' <- cut_out c s en ; r' <- go r ; Ok (c' :: r') end) cs ;
      Ok (Sim m r)
  end.
Definition co_seq (s en : Z) := fix go (t0 : Z) (l : list ev) : res (list ev) :=
         match l with
         | [] => Ok []
         | c :: r =>
           let d := dur c in let t1 := t0 + d in
           let a := if t0 <? s then s - t0 else 0 in
           let b := if en <? t1 then d - (t1 - en) else d in
           if a <? b then (c' <- cut_out c a b ; r' <- go t1 r ; Ok (c' :: r'))
           else if (d =? 0) && (s <=? t0) && (t0 <=? en) then (r' <- go t1 r ; Ok (c :: r'))
           else go t1 r
         end.
Definition co_sim (s en : Z) := fix go (l : list ev) : res (list ev) :=
         match l with [] => Ok [] | c :: r => c' <- cut_out c s en ; r' <- go r ; Ok (c' :: r') end.

(* ------------------------------------------------------------ cut_off *)
Fixpoint cut_off (e : ev) (s en : Z) : res ev :=
  match e with
  | Leaf d l =>
      _ <- check_time s ; _ <- check_start_end s en ;
      Ok (Leaf (if s <? d then d - (Z.min en d - s) else d) l)
  | Seq m cs =>
      _ <- check_time s ;
      if 0 <? en - s then
        r <- (fix go (t0 : Z) (l : list ev) : res (list ev) :=
           match l with
           | [] => Ok []
           | c :: r =>
             let t1 := t0 + dur c in
             if (s <=? t0) && (t1 <=? en) && (t0 <? en) then go t1 r
             else if (t0 <=? s) && (s <=? t1) then
               (c' <- cut_off c (s - t0) (s - t0 + (en - s)) ; r' <- go t1 r ; Ok (c' :: r'))
             else if (t0 <? en) && (en <? t1) then
               (c' <- cut_off c 0 ((en - s) - (t0 - s)) ; r' <- go t1 r ; Ok (c' :: r'))
             else (r' <- go t1 r ; Ok (c :: r'))
           end) 0 cs ; Ok (Seq m r)
      else Ok (Seq m cs)
  | Sim m cs =>
      _ <- check_time s ; _ <- check_start_end s en ;
      r <- (fix go (l : list ev) : res (list ev) :=
         match l with [] => Ok [] | c :: r => c' <- cut_off c s en ; r' <- go r ; Ok (c' :: r') end) cs ;
      Ok (Sim m r)
  end.
(* Consecution._cut_off (cut_off_duration is always en - s at every call site) *)
Definition cf_seq (s en : Z) := fix go (t0 : Z) (l : list ev) : res (list ev) :=
           match l with
           | [] => Ok []
           | c :: r =>
             let t1 := t0 + dur c in
             if (s <=? t0) && (t1 <=? en) && (t0 <? en) then go t1 r
             else if (t0 <=? s) && (s <=? t1) then
               (c' <- cut_off c (s - t0) (s - t0 + (en - s)) ; r' <- go t1 r ; Ok (c' :: r'))
             else if (t0 <? en) && (en <? t1) then
               (c' <- cut_off c 0 ((en - s) - (t0 - s)) ; r' <- go t1 r ; Ok (c' :: r'))
             else (r' <- go t1 r ; Ok (c :: r'))
           end.
Definition cf_sim (s en : Z) := fix go (l : list ev) : res (list ev) :=
         match l with [] => Ok [] | c :: r => c' <- cut_off c s en ; r' <- go r ; Ok (c' :: r') end.

(* ------------------------------------------------------------ split_at *)
(* Event.split_at as inherited by Chronon *)
Definition leaf_split (d l : Z) (ts : list Z) (ign : bool) : res (list ev) :=
  match ts with
  | [] => Err ENoSplitTime
  | _ =>
    let sl := sortZ ts in
    _ <- check_time (hd 0 sl) ;
    let sl1 := if memZ 0 sl then sl else 0 :: sl in
    let lastt := lastZ sl1 in
    sl2 <- (if lastt <? d then Ok (sl1 ++ [d])
            else if (d <? lastt) && negb ign then Err ESplitError else Ok sl1) ;
    (fix go (ps : list (Z * Z)) : res (list ev) :=
       match ps with
       | [] => Ok []
       | (t0, t1) :: r =>
         match leaf_cut_out d t0 t1 with
         | Ok d' => r' <- go r ; Ok (Leaf d' l :: r')
         | Err EInvalidStartAndEnd | Err EInvalidCutOut => if ign then go r else Err ESplitError
         | Err k => Err k
         end
       end) (pairs sl2)
  end.

Section OpenRec.
  (* the recursive call `child.split_at(times..., ignore_invalid_split_point=ign)` *)
  Variable rec : ev -> list Z -> bool -> res (list ev).

  (* Consecution._split_child_at on the child list c, with the caller's start-time list and duration *)
  Definition split_child_core (c : list ev) (t : Z) (abl : list Z) (durf : Z) : res (list ev * nat) :=
    _ <- check_time t ;
    match index_at_from t abl durf with
    | None => Err ESplitUnavailableChild
    | Some i =>
      if t =? nth i abl 0 then Ok (c, i)
      else match nth_error c i with
           | None => Err EIndexError
           | Some ch =>
             parts <- rec ch [t - nth i abl 0] false ;
             match parts with
             | [_] => Ok (c, S i)
             | [p0; p1] => Ok (firstn i c ++ p0 :: p1 :: skipn (S i) c, S i)
             | _ => Err ERuntimeError
             end
           end
    end.

  (* loop of Consecution.split_at over the sorted times; state: children, start-time list, indices *)
  Fixpoint seq_split_loop (ign first : bool) (durf : Z) (sl : list Z)
           (c : list ev) (abl : list Z) (idx : list nat) : res (list ev * list nat) :=
    match sl with
    | [] => Ok (c, idx)
    | t :: r =>
      _ <- (if first then check_time t else Ok tt) ;
      match index_of t abl with
      | Some i => seq_split_loop ign false durf r c abl (idx ++ [i])
      | None =>
        if t =? durf then seq_split_loop ign false durf r c abl idx
        else match split_child_core c t abl durf with
             | Err ESplitUnavailableChild => if ign then Ok (c, idx) else Err ESplitError
             | Err k => Err k
             | Ok (c', i) => seq_split_loop ign false durf r c' (insert_sorted t abl) (idx ++ [i])
             end
      end
    end.

  Definition seq_split (m : meta) (cs : list ev) (ts : list Z) (ign : bool) : res (list ev) :=
    match ts with
    | [] => Err ENoSplitTime
    | _ =>
      '(c, idx) <- seq_split_loop ign true (dsum cs) (sortZ ts) cs (starts cs) [] ;
      let idx1 := if memN 0%nat idx then idx else 0%nat :: idx in
      let idx2 := if memN (length c) idx1 then idx1 else idx1 ++ [length c] in
      Ok (map (fun '(i0, i1) => Seq m (lslice i0 i1 c)) (pairs idx2))
    end.

  (* Concurrence._make_event_slice_tuple: row j collects the j-th part of every child;
     None padding and falsy (empty container) parts are filtered, empty rows dropped *)
  Definition row (pss : list (list ev)) (j : nat) : list ev :=
    filter truthy (flat_map (fun ps => match nth_error ps j with Some p => [p] | None => [] end) pss).
  Definition max_len (pss : list (list ev)) : nat := fold_right (fun ps n => Nat.max (length ps) n) 0%nat pss.
  Definition rows (pss : list (list ev)) : list (list ev) :=
    filter (fun r => match r with [] => false | _ => true end) (map (row pss) (seq 0 (max_len pss))).

  Definition slices_of (cs : list ev) (sl : list Z) : res (list (list ev)) :=
    mapM (fun c => match sl with [] => Ok [c] | _ => rec c sl true end) cs.

  Definition sim_split (m : meta) (cs : list ev) (ts : list Z) (ign : bool) : res (list ev) :=
    match ts with
    | [] => Err ENoSplitTime
    | _ =>
      let sl := sortZ ts in
      _ <- check_time (hd 0 sl) ;
      if (dmax cs <? lastZ sl) && negb ign then Err ESplitError
      else pss <- slices_of cs sl ; Ok (map (fun r => Sim m r) (rows pss))
    end.
End OpenRec.

Fixpoint split_at_f (n : nat) (e : ev) (ts : list Z) (ign : bool) : res (list ev) :=
  match n with
  | O => Err EFuel
  | S n' =>
    match e with
    | Leaf d l => leaf_split d l ts ign
    | Seq m cs => seq_split (split_at_f n') m cs ts ign
    | Sim m cs => sim_split (split_at_f n') m cs ts ign
    end
  end.
(* event.split_at(times..., ignore_invalid_split_point=ign) *)
Definition split_at (e : ev) (ts : list Z) (ign : bool) : res (list ev) := split_at_f (height e) e ts ign.
(* the recursive call as seen from a method of e: children are lower than e *)
Definition split_rec (e : ev) := split_at_f (height e).

(* ------------------------------------------------------------ split_child_at *)
Fixpoint split_child_at (e : ev) (t : Z) : res ev :=
  match e with
  | Leaf _ _ => Err EAttributeError
  | Seq m cs =>
      '(c, _) <- split_child_core (split_at_f (hmax cs)) cs t (starts cs) (dsum cs) ; Ok (Seq m c)
  | Sim m cs =>
      r <- (fix go (l : list ev) : res (list ev) :=
         match l with
         | [] => Ok []
         | Leaf d l0 :: r => ps <- leaf_split d l0 [t] false ; r' <- go r ; Ok (Seq meta0 ps :: r')
         | c :: r => c' <- split_child_at c t ; r' <- go r ; Ok (c' :: r')
         end) cs ; Ok (Sim m r)
  end.

(* ------------------------------------------------------------ squash_in *)
Definition seq_squash (cs : list ev) (start : Z) (new : ev) : res (list ev) :=
  _ <- check_time start ;
  if dsum cs <? start then Err EInvalidStartValue else
  cs1 <- (if 0 <? dur new then cf_seq start (start + dur new) 0 cs else Ok cs) ;
  let abl := starts cs1 in let durf := dsum cs1 in
  match index_of start abl with
  | Some i => Ok (insert_at i new cs1)
  | None =>
    if durf <=? start then Ok (cs1 ++ [new]) else
    match index_at_from start abl durf with
    | None => Err ETypeError
    | Some a =>
      let sp := start - nth a abl 0 in
      match nth_error cs1 a with
      | None => Err EIndexError
      | Some ch =>
        if (0 <? sp) && (sp <? dur ch) then
          parts <- split_at ch [sp] false ;
          match parts with
          | p0 :: p1 :: _ => Ok (insert_at (S a) new (firstn a cs1 ++ p0 :: p1 :: skipn (S a) cs1))
          | _ => Err EIndexError
          end
        else Ok (insert_at a new cs1)
      end
    end
  end.

Fixpoint squash_in (e : ev) (start : Z) (new : ev) : res ev :=
  match e with
  | Leaf _ _ => Err EAttributeError
  | Seq m cs => r <- seq_squash cs start new ; Ok (Seq m r)
  | Sim m cs =>
      _ <- check_time start ;
      if dmax cs <? start then Err EInvalidStartValue else
      r <- (fix go (l : list ev) : res (list ev) :=
         match l with
         | [] => Ok []
         | Leaf _ _ :: _ => Err EImpossibleToSquashIn
         | c :: r => c' <- squash_in c start new ; r' <- go r ; Ok (c' :: r')
         end) cs ; Ok (Sim m r)
  end.

(* ------------------------------------------------------------ slide_in *)
Definition seq_slide (m : meta) (cs : list ev) (start : Z) (new : ev) : res (list ev) :=
  _ <- check_time start ;
  if start =? 0 then Ok (new :: cs) else
  if dsum cs <? start then Err EInvalidStartValue else
  parts <- split_at (Seq m cs) [start] false ;
  match parts with
  | [a; b] => Ok (children a ++ new :: children b)
  | _ => Ok (cs ++ [new])
  end.

Fixpoint slide_in (e : ev) (start : Z) (new : ev) : res ev :=
  match e with
  | Leaf _ _ => Err EAttributeError
  | Seq m cs => r <- seq_slide m cs start new ; Ok (Seq m r)
  | Sim m cs =>
      _ <- check_time start ;
      if dmax cs <? start then Err EInvalidStartValue else
      r <- (fix go (l : list ev) : res (list ev) :=
         match l with
         | [] => Ok []
         | Leaf _ _ :: _ => Err EImpossibleToSlideIn
         | c :: r => c' <- slide_in c start new ; r' <- go r ; Ok (c' :: r')
         end) cs ; Ok (Sim m r)
  end.

(* ------------------------------------------------------------ extend_until *)
(* prolong = prolong_chronon flag; d = target duration *)
Fixpoint extend_until (prolong : bool) (e : ev) (d : Z) : res ev :=
  match e with
  | Leaf _ _ => Err EAttributeError
  | Seq m cs => Ok (Seq m (if 0 <? d - dsum cs then cs ++ [Leaf (d - dsum cs) rest_label] else cs))
  | Sim m cs =>
      match cs with
      | [] => Err EIneffectiveExtendUntil
      | _ =>
        r <- (fix go (l : list ev) : res (list ev) :=
           match l with
           | [] => Ok []
           | Leaf d0 l0 :: r =>
               if prolong then (r' <- go r ; Ok (Leaf (if 0 <? d - d0 then d0 + (d - d0) else d0) l0 :: r'))
               else Err EImpossibleToExtendUntil
           | c :: r => c' <- extend_until prolong c d ; r' <- go r ; Ok (c' :: r')
           end) cs ; Ok (Sim m r)
      end
  end.
(* Concurrence.extend_until(None) *)
Definition extend_until_default (e : ev) : res ev :=
  match e with Sim _ _ => extend_until true e (dur e) | _ => Err ETypeError end.

(* ------------------------------------------------------------ sequentialize *)
Definition seq_times (c : ev) : list Z :=
  match c with
  | Seq _ cs => starts cs ++ [dsum cs]
  | _ => [0; dur c]
  end.
Definition sequentialize (e : ev) : res ev :=
  match e with
  | Sim m cs =>
      let sl := removelast (dedup (sortZ (flat_map seq_times cs))) in
      pss <- slices_of (split_at_f (hmax cs)) cs sl ;
      Ok (Seq (mkMeta (tag m) 0) (map (fun r => Sim meta0 r) (rows pss)))
  | _ => Err EAttributeError
  end.

(* ------------------------------------------------------------ joining on the time axis (content part) *)
Definition first_with_tag (tg : Z) := fix go (i : nat) (l : list ev) : option nat :=
  match l with [] => None | c :: r => if tg =? tag (meta_of c) then Some i else go (S i) r end.

(* e_new = e.empty_copy(); e_new.extend(e[:]); e_new.slide_in(0, Chronon(dur)) *)
Definition pad_front (e : ev) (d : Z) : res ev :=
  match e with
  | Leaf _ _ => Err EAttributeError
  | _ => slide_in e 0 (Leaf d rest_label)
  end.

(* self.extend_until(dur) if dur > 0, on the child list *)
Definition pre_extend (m : meta) (cs : list ev) : res (list ev) :=
  if 0 <? dmax cs then (e <- extend_until true (Sim m cs) (dmax cs) ; Ok (children e)) else Ok cs.

Fixpoint concat_fuel (n : nat) (by_tag : bool) (m : meta) (cs : list ev) (os : list ev)
  : (list ev * option err) :=
  (* returns the (possibly partially) updated children together with the raised error, if any *)
  match n with
  | O => (cs, Some EFuel)
  | S n' =>
    let d := dmax cs in
    match pre_extend m cs with
    | Err k => (cs, Some k)
    | Ok cs0 =>
      (fix go (i : nat) (cur : list ev) (os : list ev) : (list ev * option err) :=
         match os with
         | [] => (cur, None)
         | e :: r =>
           if by_tag && (tag (meta_of e) =? 0) then (cur, Some ENoTag) else
           let anc_i := if by_tag then first_with_tag (tag (meta_of e)) 0%nat cur
                        else (if Nat.ltb i (length cur) then Some i else None) in
           match anc_i with
           | None =>
             match (if 0 <? d then pad_front e d else Ok e) with
             | Err k => (cur, Some k)
             | Ok e' => go (S i) (cur ++ [e']) r
             end
           | Some j =>
             match nth_error cur j with
             | None => (cur, Some EIndexError)
             | Some (Leaf _ _) => (cur, Some EConcatenation)
             | Some (Seq ma acs) =>
               match e with
               | Leaf _ _ => (cur, Some ETypeError)
               | _ => go (S i) (replace_at j (Seq ma (acs ++ children e)) cur) r
               end
             | Some (Sim ma acs) =>
               match e with
               | Leaf _ _ => (cur, Some ETypeError)
               | _ =>
                 let '(acs1, er1) := concat_fuel n' true ma acs (children e) in
                 match er1 with
                 | None => go (S i) (replace_at j (Sim ma acs1) cur) r
                 | Some ENoTag =>
                   let '(acs2, er2) := concat_fuel n' false ma acs1 (children e) in
                   match er2 with
                   | None => go (S i) (replace_at j (Sim ma acs2) cur) r
                   | Some k => (replace_at j (Sim ma acs2) cur, Some k)
                   end
                 | Some k => (replace_at j (Sim ma acs1) cur, Some k)
                 end
               end
             end
           end
         end) 0%nat cs0 os
    end
  end.

Definition concatenate (by_tag : bool) (e other : ev) : res ev :=
  match e, other with
  | Sim m cs, Sim _ os | Sim m cs, Seq _ os =>
      match concat_fuel (S (height e)) by_tag m cs os with
      | (r, None) => Ok (Sim m r)
      | (_, Some k) => Err k
      end
  | _, _ => Err EAttributeError
  end.

(* Consecution.__add__ (content; the tempo part is modelled in M2) *)
Definition seq_add (e other : ev) : res ev :=
  match e with
  | Seq m cs => Ok (Seq m (cs ++ children other))
  | _ => Err EAttributeError
  end.

(* ------------------------------------------------------------ tags, slices, pruning, tying *)
Definition get_by_tag (cs : list ev) (tg : Z) : res ev :=
  match first_with_tag tg 0%nat cs with
  | None => Err EKeyError
  | Some i => match nth_error cs i with Some c => Ok c | None => Err EIndexError end
  end.
Definition set_by_tag (cs : list ev) (tg : Z) (new : ev) : res (list ev) :=
  match first_with_tag tg 0%nat cs with None => Err EKeyError | Some i => Ok (replace_at i new cs) end.
Definition del_by_tag (cs : list ev) (tg : Z) : res (list ev) :=
  match first_with_tag tg 0%nat cs with None => Err EKeyError | Some i => Ok (firstn i cs ++ skipn (S i) cs) end.

Definition with_children (e : ev) (cs : list ev) : ev :=
  match e with Leaf d l => Leaf d l | Seq m _ => Seq m cs | Sim m _ => Sim m cs end.

(* remove_by(condition): keep exactly the children satisfying the condition *)
Definition remove_by (keep : ev -> bool) (e : ev) : ev := with_children e (filter keep (children e)).

(* tie_by(condition, event_type_to_examine=Chronon, event_to_remove=remove_second),
   default process_surviving_event (durations are added).
   Only leaves are examined; nested containers are tied recursively. *)
Definition merge_leaf (remove_second : bool) (a b : ev) : ev :=
  match a, b with
  | Leaf d1 l1, Leaf d2 l2 => if remove_second then Leaf (d2 + d1) l1 else Leaf (d1 + d2) l2
  | _, _ => a
  end.
Definition tie_flat (cond : ev -> ev -> bool) (remove_second : bool) : ev -> list ev -> list ev :=
  fix go (a : ev) (r : list ev) : list ev :=
    match r with
    | [] => [a]
    | b :: r' =>
      if is_leaf a && is_leaf b && cond a b then go (merge_leaf remove_second a b) r'
      else a :: go b r'
    end.
Fixpoint tie_by (cond : ev -> ev -> bool) (remove_second : bool) (e : ev) : ev :=
  match e with
  | Leaf d l => Leaf d l
  | Seq m cs =>
      let cs' := (fix go l := match l with [] => [] | c :: r => tie_by cond remove_second c :: go r end) cs in
      Seq m (match cs' with [] => [] | a :: r => tie_flat cond remove_second a r end)
  | Sim m cs =>
      let cs' := (fix go l := match l with [] => [] | c :: r => tie_by cond remove_second c :: go r end) cs in
      Sim m (match cs' with [] => [] | a :: r => tie_flat cond remove_second a r end)
  end.
