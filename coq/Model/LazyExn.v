(* compute_lazy around a function that may raise: `f a = None` stands for "the bare function raises for a".
   The file is written only after the function has returned, so a call that raises leaves it as it was. *)
From Coq Require Import List Bool.
From MV Require Import Model.Tools.
Import ListNotations.

Section LazyExn.
  Variable A B : Type.
  Variable aeqb : A -> A -> bool.
  Variable f : A -> option B.
  (* one call: returned value (None = the exception of the bare function propagates), new file content, whether the
     wrapped function was entered *)
  Definition lazy_call_x (force : bool) (st : lstate A B) (args : A) : option B * lstate A B * bool :=
    let compute := match f args with
                   | Some v => (Some v, Some (v, args), true)
                   | None => (None, st, true)
                   end in
    match st with
    | None => compute
    | Some (r, prev) => if negb (aeqb prev args) || force then compute else (Some r, st, false)
    end.
  Fixpoint lazy_run_x (force : bool) (st : lstate A B) (calls : list A) : list (option B * bool) :=
    match calls with
    | [] => []
    | a :: r => let '(v, st', ran) := lazy_call_x force st a in (v, ran) :: lazy_run_x force st' r
    end.
End LazyExn.
