(* M2: the abstract number type over which envelopes and tempo conversion are modelled.
   One generic definition, two instances: the reals (theorems, Proofs/) and OCaml floats
   (execution: the record is passed by the hand-written driver; no Extract Constant). *)
From Coq Require Import ZArith.

Record Num (F : Type) := mkNum {
  n0 : F; n1 : F;
  nadd : F -> F -> F; nsub : F -> F -> F; nmul : F -> F -> F; ndiv : F -> F -> F;
  nexp : F -> F;
  nleb : F -> F -> bool;      (* a <= b *)
  nltb : F -> F -> bool;      (* a <  b *)
  neqb : F -> F -> bool;      (* a == b *)
  nint : Z -> F;              (* exact injection of an integer *)
  tround : F -> F             (* 10-digit rounding of a Duration quotient: identity over the reals *)
}.
Arguments n0 {F}. Arguments n1 {F}. Arguments nadd {F}. Arguments nsub {F}. Arguments nmul {F}.
Arguments ndiv {F}. Arguments nexp {F}. Arguments nleb {F}. Arguments nltb {F}. Arguments neqb {F}.
Arguments nint {F}. Arguments tround {F}.

Definition ticks_per_beat : Z := 10000000000.
