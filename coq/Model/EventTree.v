(* M1: event trees over integer ticks (1 tick = 1e-10 beat).
   Leaf = Chronon, Seq = Consecution, Sim = Concurrence.
   Definitions only; proofs live in Proofs/. *)
From Coq Require Import ZArith List Bool.
Import ListNotations.
Open Scope Z_scope.

(* side attributes of a container: tag (0 = None / falsy) and an opaque tempo id (0 = default) *)
Record meta := mkMeta { tag : Z; tempo : Z }.
Definition meta0 : meta := mkMeta 0 0.

Inductive ev :=
| Leaf (d : Z) (l : Z)                 (* duration in ticks, label (identity of the content) *)
| Seq (m : meta) (cs : list ev)
| Sim (m : meta) (cs : list ev).

Definition rest_label : Z := -1.      (* label of rests created by operations (Chronon without name) *)

(* ---------------------------------------------------------------- duration *)
Fixpoint dur (e : ev) : Z :=
  match e with
  | Leaf d _ => d
  | Seq _ cs => (fix go l := match l with [] => 0 | c :: r => dur c + go r end) cs
  | Sim _ cs => (fix go l := match l with [] => 0 | c :: r => Z.max (dur c) (go r) end) cs
  end.
Definition dsum := fix go (l : list ev) : Z := match l with [] => 0 | c :: r => dur c + go r end.
Definition dmax := fix go (l : list ev) : Z := match l with [] => 0 | c :: r => Z.max (dur c) (go r) end.

Fixpoint height (e : ev) : nat :=
  match e with
  | Leaf _ _ => 1%nat
  | Seq _ cs | Sim _ cs => S ((fix go l := match l with [] => 0%nat | c :: r => Nat.max (height c) (go r) end) cs)
  end.
Definition hmax := fix go (l : list ev) : nat := match l with [] => 0%nat | c :: r => Nat.max (height c) (go r) end.

(* well-formed: no negative leaf *)
Fixpoint wf (e : ev) : Prop :=
  match e with
  | Leaf d _ => 0 <= d
  | Seq _ cs | Sim _ cs => (fix go l := match l with [] => True | c :: r => wf c /\ go r end) cs
  end.
Definition wfs := fix go (l : list ev) : Prop := match l with [] => True | c :: r => wf c /\ go r end.

Fixpoint wfb (e : ev) : bool :=
  match e with
  | Leaf d _ => 0 <=? d
  | Seq _ cs | Sim _ cs => (fix go l := match l with [] => true | c :: r => wfb c && go r end) cs
  end.

(* ---------------------------------------------------------------- start times and lookup *)
(* absolute_time_tuple: running sums of the preceding durations *)
Fixpoint starts_from (t0 : Z) (cs : list ev) : list Z :=
  match cs with [] => [] | c :: r => t0 :: starts_from (t0 + dur c) r end.
Definition starts (cs : list ev) : list Z := starts_from 0 cs.

(* bisect.bisect_right on an ascending list *)
Fixpoint bisect_right (l : list Z) (t : Z) : nat :=
  match l with [] => 0%nat | x :: r => if x <=? t then S (bisect_right r t) else 0%nat end.
Fixpoint bisect_left (l : list Z) (t : Z) : nat :=
  match l with [] => 0%nat | x :: r => if x <? t then S (bisect_left r t) else 0%nat end.

(* Consecution._get_index_at_from_absolute_time_tuple *)
Definition index_at_from (t : Z) (abl : list Z) (durf : Z) : option nat :=
  if (t <? durf) && (0 <=? t) then Some (Nat.pred (bisect_right abl t)) else None.

(* Consecution.get_event_index_at *)
Definition index_at (cs : list ev) (t : Z) : option nat := index_at_from t (starts cs) (dsum cs).

(* start_and_end_time_per_event *)
Fixpoint ranges_from (t0 : Z) (cs : list ev) : list (Z * Z) :=
  match cs with [] => [] | c :: r => (t0, t0 + dur c) :: ranges_from (t0 + dur c) r end.
Definition ranges (cs : list ev) := ranges_from 0 cs.

(* ---------------------------------------------------------------- denotation *)
(* what is active at time t: sequences are transparent, a simultaneity lists its active voices *)
Inductive slice := SL (l : Z) | SN (vs : list slice).

Fixpoint at_ (e : ev) (t : Z) : option slice :=
  match e with
  | Leaf d l => if (0 <=? t) && (t <? d) then Some (SL l) else None
  | Seq _ cs => (fix go l t := match l with [] => None | c :: r =>
                 if (0 <=? t) && (t <? dur c) then at_ c t else go r (t - dur c) end) cs t
  | Sim _ cs => match (fix go l := match l with [] => [] | c :: r =>
                 match at_ c t with Some s => s :: go r | None => go r end end) cs with
              | [] => None | vs => Some (SN vs) end
  end.
Definition at_seq := fix go (l : list ev) (t : Z) : option slice := match l with [] => None | c :: r =>
                 if (0 <=? t) && (t <? dur c) then at_ c t else go r (t - dur c) end.
Definition at_sim (t : Z) := fix go (l : list ev) : list slice := match l with [] => [] | c :: r =>
                 match at_ c t with Some s => s :: go r | None => go r end end.

(* timeline: every leaf (zero-length ones included) with absolute start, stop, label and voice path *)
Definition fl := (Z * Z * Z * list nat)%type.
Fixpoint flat (t0 : Z) (p : list nat) (e : ev) : list fl :=
  match e with
  | Leaf d l => [(t0, t0 + d, l, p)]
  | Seq _ cs => (fix go t l := match l with [] => [] | c :: r => flat t p c ++ go (t + dur c) r end) t0 cs
  | Sim _ cs => (fix go i l := match l with [] => [] | c :: r => flat t0 (p ++ [i]) c ++ go (S i) r end) 0%nat cs
  end.
Definition flat_seq (p : list nat) := fix go (t : Z) (l : list ev) : list fl :=
  match l with [] => [] | c :: r => flat t p c ++ go (t + dur c) r end.
Definition flat_sim (t0 : Z) (p : list nat) := fix go (i : nat) (l : list ev) : list fl :=
  match l with [] => [] | c :: r => flat t0 (p ++ [i]) c ++ go (S i) r end.

Definition children (e : ev) : list ev := match e with Leaf _ _ => [] | Seq _ cs | Sim _ cs => cs end.
Definition meta_of (e : ev) : meta := match e with Leaf _ _ => meta0 | Seq m _ | Sim m _ => m end.
Definition is_leaf (e : ev) : bool := match e with Leaf _ _ => true | _ => false end.
(* Python truthiness: a Chronon is truthy, a container (a list) is truthy iff non-empty *)
Definition truthy (e : ev) : bool := match e with Leaf _ _ => true | Seq _ cs | Sim _ cs => negb (match cs with [] => true | _ => false end) end.

(* induction principle for the nested inductive type *)
Lemma ev_ind' (P : ev -> Prop)
  (HL : forall d l, P (Leaf d l))
  (HS : forall m cs, Forall P cs -> P (Seq m cs))
  (HP : forall m cs, Forall P cs -> P (Sim m cs)) : forall e, P e.
Proof.
  fix IH 1. intros [d l|m cs|m cs]; [apply HL|apply HS|apply HP];
  induction cs as [|c r IHr]; constructor; auto.
Qed.
