(* The duration setter on value trees and the UNRESTRICTED form of Compound.tie_by
   (event_type_to_examine = Event: every pair of neighbouring children is examined, leaves and containers alike).
   Definitions only; theorems in Proofs/TieAllP.v.

   Python (mutwo/core_events/abc.py, basic.py):
   * Chronon.duration setter: the duration is replaced.
   * Compound.duration setter:  `if not self: raise CannotSetDurationOfEmptyCompound`;
     old = self.duration; if old != 0 every leaf below the container gets
     round (scale (d, 0, old, 0, new), 10) = round (d * new / old) to a tick, and `scale` raises ValueError
     unless 0 <= d <= old; if old = 0 every leaf below it gets  new / len(self)  (len = number of DIRECT
     children), rounded to a tick.  Nested empty containers are silently passed over.
   * Compound.tie_by with event_type_to_examine = Event: a pointer walks over the children; when
     condition (self[p], self[p+1]) holds the pair is merged (event_to_remove = True: the first survives and
     gets  first.duration := second.duration + first.duration;  otherwise the second survives) and the
     SURVIVOR (now at index p) is compared with the next child; otherwise the pointer advances, i.e. the
     second member of the pair is compared with its successor.  Nothing is tied recursively in this form:
     the branch calling tie_by on nested events is only reached when one member of the pair is not an instance of
     event_type_to_examine, and every event is an Event. *)
From Coq Require Import ZArith QArith List Bool.
From MV Require Import Base.Res Model.EventTree Model.TreeOps Model.Numbers.
Import ListNotations.
Open Scope Z_scope.

(* round (d * new / old) in ticks *)
Definition rescale_t (old new d : Z) : Z := rhe (((d # 1) * (new # 1)) / (old # 1))%Q.
(* new / n in ticks (Duration.__truediv__ re-rounds the beat count) *)
Definition share_t (new : Z) (n : nat) : Z := rhe ((new # 1) / (Z.of_nat n # 1))%Q.

(* apply f to the duration of every leaf, keep everything else *)
Fixpoint map_leaves (f : Z -> Z) (e : ev) : ev :=
  match e with
  | Leaf d l => Leaf (f d) l
  | Seq m cs => Seq m ((fix go l := match l with [] => [] | c :: r => map_leaves f c :: go r end) cs)
  | Sim m cs => Sim m ((fix go l := match l with [] => [] | c :: r => map_leaves f c :: go r end) cs)
  end.
Definition map_leaves_list (f : Z -> Z) := fix go (l : list ev) : list ev :=
  match l with [] => [] | c :: r => map_leaves f c :: go r end.

(* every leaf duration satisfies p *)
Fixpoint all_leaf_durs (p : Z -> bool) (e : ev) : bool :=
  match e with
  | Leaf d _ => p d
  | Seq _ cs | Sim _ cs => (fix go l := match l with [] => true | c :: r => all_leaf_durs p c && go r end) cs
  end.
Definition all_leaf_durs_list (p : Z -> bool) := fix go (l : list ev) : bool :=
  match l with [] => true | c :: r => all_leaf_durs p c && go r end.

(* event.duration = new *)
Definition set_dur (e : ev) (new : Z) : res ev :=
  match e with
  | Leaf _ l => Ok (Leaf new l)
  | Seq _ [] | Sim _ [] => Err ECannotSetDurationOfEmpty
  | _ =>
    let old := dur e in
    if old =? 0 then Ok (map_leaves (fun _ => share_t new (length (children e))) e)
    else if all_leaf_durs (fun d => (0 <=? d) && (d <=? old)) e    (* the range assertion of core_utilities.scale *)
         then Ok (map_leaves (rescale_t old new) e)
         else Err EValueError
  end.

(* default process_surviving_event: survivor.duration := removed.duration + survivor.duration *)
Definition merge_all (remove_second : bool) (a b : ev) : res ev :=
  if remove_second then set_dur a (dur b + dur a) else set_dur b (dur a + dur b).

(* the loop over the children a :: r, a = self[pointer] *)
Definition tie_all_flat (cond : ev -> ev -> bool) (remove_second : bool) : ev -> list ev -> res (list ev) :=
  fix go (a : ev) (r : list ev) : res (list ev) :=
    match r with
    | [] => Ok [a]
    | b :: r' =>
      if cond a b then (s <- merge_all remove_second a b ; go s r')
      else (t <- go b r' ; Ok (a :: t))
    end.

(* container.tie_by(cond, event_type_to_examine=Event, event_to_remove=remove_second); a Chronon has no tie_by *)
Definition tie_all (cond : ev -> ev -> bool) (remove_second : bool) (e : ev) : res ev :=
  match e with
  | Leaf _ _ => Err EAttributeError
  | Seq m [] => Ok (Seq m [])
  | Sim m [] => Ok (Sim m [])
  | Seq m (a :: r) => cs <- tie_all_flat cond remove_second a r ; Ok (Seq m cs)
  | Sim m (a :: r) => cs <- tie_all_flat cond remove_second a r ; Ok (Sim m cs)
  end.
