(* M3: object graphs with identities, for copies and conversions (C14).
   Every mutable object has an identity: events, the duration object of a leaf, tempo objects.
   The same identity at two positions = one object referenced twice.
   `pcopy` models MutwoObject.copy (pickle round trip: a fresh isomorphic graph that keeps the
   sharing), `dcopy` models destructive_copy after the fix (a fresh object for every position:
   sharing is forgotten, the tempo is copied too).  TempoConverter.convert and
   EventToMetrizedEvent.convert start from a destructive copy and only ever attach freshly
   created objects to it, so their results have the allocation pattern of `dcopy`.
   Definitions only. *)
From Coq Require Import List Bool Arith.
Import ListNotations.

Inductive gkind := GSeq | GSim.
Inductive gev :=
| GLeaf (id dur tempo : nat)
| GNode (id : nat) (k : gkind) (tempo : nat) (cs : list gev).

(* identities of all mutable objects, one entry per slot, DFS order *)
Fixpoint gids (e : gev) : list nat :=
  match e with
  | GLeaf i d t => [i; d; t]
  | GNode i _ t cs => i :: t :: (fix go l := match l with [] => [] | c :: r => gids c ++ go r end) cs
  end.
Definition gids_list := fix go (l : list gev) : list nat := match l with [] => [] | c :: r => gids c ++ go r end.

(* the tree without identities (what two events have in common when they are "equal") *)
Inductive shape := SLeaf | SNode (k : gkind) (cs : list shape).
Fixpoint shape_of (e : gev) : shape :=
  match e with
  | GLeaf _ _ _ => SLeaf
  | GNode _ k _ cs => SNode k ((fix go l := match l with [] => [] | c :: r => shape_of c :: go r end) cs)
  end.

(* --- destructive copy: allocate a fresh identity for every slot, counter threaded *)
Fixpoint dcopy (e : gev) (n : nat) : gev * nat :=
  match e with
  | GLeaf _ _ _ => (GLeaf n (S n) (S (S n)), S (S (S n)))
  | GNode _ k _ cs =>
      let '(cs', n') :=
        (fix go (l : list gev) (n : nat) : list gev * nat :=
           match l with
           | [] => ([], n)
           | c :: r => let '(c', n1) := dcopy c n in let '(r', n2) := go r n1 in (c' :: r', n2)
           end) cs (S (S n)) in
      (GNode n k (S n) cs', n')
  end.
Definition dcopy_list := fix go (l : list gev) (n : nat) : list gev * nat :=
           match l with
           | [] => ([], n)
           | c :: r => let '(c', n1) := dcopy c n in let '(r', n2) := go r n1 in (c' :: r', n2)
           end.

(* --- pickle copy: fresh identities, the same identity is renamed consistently (memo table) *)
Definition memo := list (nat * nat).
Fixpoint mfind (i : nat) (m : memo) : option nat :=
  match m with [] => None | (a, b) :: r => if Nat.eqb a i then Some b else mfind i r end.
Definition rename (i : nat) (st : nat * memo) : nat * (nat * memo) :=
  match mfind i (snd st) with
  | Some j => (j, st)
  | None => (fst st, (S (fst st), (i, fst st) :: snd st))
  end.
Fixpoint pcopy (e : gev) (st : nat * memo) : gev * (nat * memo) :=
  match e with
  | GLeaf i d t =>
      let '(i', st1) := rename i st in
      let '(d', st2) := rename d st1 in
      let '(t', st3) := rename t st2 in
      (GLeaf i' d' t', st3)
  | GNode i k t cs =>
      let '(i', st1) := rename i st in
      let '(t', st2) := rename t st1 in
      let '(cs', st3) :=
        (fix go (l : list gev) (st : nat * memo) : list gev * (nat * memo) :=
           match l with
           | [] => ([], st)
           | c :: r => let '(c', s1) := pcopy c st in let '(r', s2) := go r s1 in (c' :: r', s2)
           end) cs st2 in
      (GNode i' k t' cs', st3)
  end.
Definition pcopy_list := fix go (l : list gev) (st : nat * memo) : list gev * (nat * memo) :=
           match l with
           | [] => ([], st)
           | c :: r => let '(c', s1) := pcopy c st in let '(r', s2) := go r s1 in (c' :: r', s2)
           end.

(* canonical aliasing pattern: every slot numbered by the first occurrence of its identity *)
Fixpoint index_in (i : nat) (l : list nat) : option nat :=
  match l with [] => None | x :: r => if Nat.eqb x i then Some 0 else option_map S (index_in i r) end.
Fixpoint canon_go (seen : list nat) (l : list nat) : list nat :=
  match l with
  | [] => []
  | i :: r =>
    match index_in i seen with
    | Some k => k :: canon_go seen r
    | None => length seen :: canon_go (seen ++ [i]) r
    end
  end.
Definition pattern (e : gev) : list nat := canon_go [] (gids e).

(* a heap of values and what can be observed of an event through it *)
Definition obs {V} (h : nat -> V) (e : gev) : list V := map h (gids e).
