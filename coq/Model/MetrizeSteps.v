(* M2 extension: metrize for trees in which a tempo trajectory sits below another tempo trajectory, for the case the
   property decides: every trajectory is a STEP curve (piecewise constant; a change of tempo is written as two control
   points at the same time).  Every piece of a leaf then lies under constant tempi on all levels, and constant tempi
   multiply: a leaf over the beats [a, b) lasts the sum, over the pieces between two neighbouring tempo changes of any
   level, of (length of the piece) * product of 60 / bpm of all tempo-carrying nodes on its path.
   Times are absolute (ticks from the start of the root); a trajectory runs from its own node's start.
   Definitions only. *)
From Coq Require Import ZArith List Bool.
From MV Require Import Base.Res Model.EventTree Model.TreeOps Model.Num Model.Envelope Model.Convert.
Import ListNotations.
Open Scope Z_scope.

Section Steps.
  Variable F : Type.
  Variable N : Num F.
  Local Notation "a +. b" := (nadd N a b) (at level 50, left associativity).
  Local Notation "a *. b" := (nmul N a b) (at level 40, left associativity).
  Local Notation "a /. b" := (ndiv N a b) (at level 40, left associativity).

  (* a step curve: every segment of positive length joins two equal values *)
  Fixpoint is_step (e : env F) : bool :=
    match e with
    | p :: ((q :: _) as r) => ((pd p =? 0) || neqb N (pv p) (pv q)) && is_step r
    | _ => true
    end.

  (* value of a step curve at time t: that of the last control point at or before t (the first one before time 0) *)
  Fixpoint step_value_go (t0 : Z) (cur : F) (e : env F) (t : Z) : F :=
    match e with
    | [] => cur
    | p :: r => if t0 <=? t then step_value_go (t0 + pd p) (pv p) r t else cur
    end.
  Definition step_value (e : env F) (t : Z) : F :=
    match e with [] => n1 N | p :: _ => step_value_go 0 (pv p) e t end.

  (* the tempo-carrying trajectories above a leaf: (seconds-per-beat curve, absolute start of its node) *)
  Definition sctx := list (env F * Z).

  (* the first tempo change of any level strictly after x and before b (b if there is none) *)
  Definition next_in (e : env F) (start x b : Z) : Z :=
    fold_left (fun acc ti => let y := start + ti in if (x <? y) && (y <? acc) then y else acc) (pstarts F e) b.
  Definition next_bp (c : sctx) (x b : Z) : Z := fold_left (fun acc es => next_in (fst es) (snd es) x acc) c b.
  Definition prod_at (c : sctx) (x : Z) : F := fold_left (fun acc es => acc *. step_value (fst es) (x - snd es)) c (n1 N).

  (* seconds of the beats [x, b): piece by piece; fuel = number of pieces + 1 *)
  Fixpoint integ_steps (fuel : nat) (c : sctx) (x b : Z) : F :=
    match fuel with
    | O => n0 N
    | S f => if b <=? x then n0 N
             else let nx := next_bp c x b in tof F N (nx - x) *. prod_at c x +. integ_steps f c nx b
    end.
  Definition fuel_of (c : sctx) : nat := S (fold_left (fun acc es => (acc + length (fst es))%nat) c 0%nat).

  Definition enter_s (fac : F) (c : sctx) (t : Z) (tp : ntempo F) : res (F * sctx) :=
    match tp with
    | TConst b => Ok (fac *. (n60 F N /. b), c)
    | TTraj tr => if is_step tr then Ok (fac, (seconds_env F N tr, t) :: c) else Err EValueError
    end.

  Fixpoint metrize_steps_go (fac : F) (c : sctx) (t : Z) (e : tev F) : res (list F) :=
    match e with
    | TLeaf d tp =>
        '(fac', c') <- enter_s fac c t tp ;
        Ok [fac' *. integ_steps (fuel_of c') c' t (t + d)]
    | TSeq tp cs =>
        '(fac', c') <- enter_s fac c t tp ;
        (fix go (t : Z) (l : list (tev F)) : res (list F) :=
           match l with
           | [] => Ok []
           | k :: r => a <- metrize_steps_go fac' c' t k ; b <- go (t + tdur F k) r ; Ok (a ++ b)
           end) t cs
    | TSim tp cs =>
        '(fac', c') <- enter_s fac c t tp ;
        (fix go (l : list (tev F)) : res (list F) :=
           match l with
           | [] => Ok []
           | k :: r => a <- metrize_steps_go fac' c' t k ; b <- go r ; Ok (a ++ b)
           end) cs
    end.
  Definition metrize_steps (e : tev F) : res (list F) := metrize_steps_go (n1 N) [] 0 e.

  (* metrize, extended: what the one-trajectory model leaves undecided is decided by the step model where it applies *)
  Definition metrize2 (e : tev F) : res (list F) :=
    match metrize F N e with
    | Err EValueError => metrize_steps e
    | r => r
    end.
End Steps.
