(* Serialisation of M3-M6 values (identity trees, object graphs, equality, numbers, helpers) to lists of
   integers, used by the thorough tier (harness/vmcheck.py) to cross-check the extracted OCaml code and the
   hand-written driver glue against evaluation of the same Gallina terms inside Coq (vm_compute).
   Conventions: a result starts with 1 (ok) or with 0 followed by the error code of Ser.err_code;
   booleans are 0/1; an option is [0] or [1; v]; a rational is numerator, denominator of the reduced
   fraction; a list is its length followed by its elements.  The folds at the end mirror the loops that
   driver.ml runs around the model functions.  Definitions only. *)
From Coq Require Import ZArith QArith Qreduction List Bool.
From MV Require Import Base.Res Model.TreeOps Model.Ser Model.Equality Model.Numbers Model.Tools Model.LazyExn Model.IdTree Model.Heap.
Import ListNotations.
Open Scope Z_scope.

Definition zb (b : bool) : Z := if b then 1 else 0.
Definition zn (n : nat) : Z := Z.of_nat n.
Definition ser_bools (l : list bool) : list Z := 1 :: map zb l.
Definition ser_oz (o : option Z) : list Z := match o with None => [0] | Some v => [1; v] end.
Definition ser_q (q : Q) : list Z := let r := Qred q in [Qnum r; Zpos (Qden r)].

(* ---- M5 *)
Definition kind_code (k : dkind) : Z := match k with KDirect => 0 | KRatio => 1 end.
Definition ser_rdur (r : res durv) : list Z :=
  match r with Ok v => [1; kind_code (dk v); dt v] | Err k => [0; err_code k] end.
Definition ser_pout (r : res pout) : list Z :=
  match r with
  | Err k => [0; err_code k]
  | Ok OSame => [1; 0]
  | Ok (ODirect v) => [1; 1; to_ticks v]
  | Ok (ORatio v) => [1; 2; to_ticks v]
  | Ok OFlex => [1; 3]
  end.
(* driver: one st_run per update, the reported beat count after every step, the final one once more;
   stops at the first error *)
Fixpoint durhist_go (s : dstate) (us : list upd) : list Z :=
  match us with
  | [] => [1; st_beat s]
  | u :: r =>
    match st_run s [u] with
    | Ok s' => 1 :: st_beat s' :: durhist_go s' r
    | Err k => [0; err_code k]
    end
  end.
Definition ser_durhist (k : dkind) (r0 : Q) (us : list upd) : list Z :=
  1 :: durhist_go (mkDState k r0 None) us.

(* ---- M6 *)
Definition ser_zs (l : list Z) : list Z := 1 :: zn (length l) :: l.
Definition ser_qs (l : list Q) : list Z := 1 :: zn (length l) :: flat_map ser_q l.
Definition ser_zss (l : list (list Z)) : list Z :=
  1 :: zn (length l) :: flat_map (fun x => zn (length x) :: x) l.
Definition ser_rnat (r : res nat) : list Z := match r with Ok i => [1; zn i] | Err k => [0; err_code k] end.
Definition ser_z (v : Z) : list Z := [1; v].
Fixpoint ser_nest (n : nest) : list Z :=
  match n with
  | NAtom v => [0; v]
  | NList l => 1 :: zn (length l) :: (fix go l := match l with [] => [] | c :: r => ser_nest c ++ go r end) l
  end.
Definition ser_rnest (r : res nest) : list Z := match r with Ok n => 1 :: ser_nest n | Err k => [0; err_code k] end.
Definition ser_okv (o : option (Z * Z)) : list Z := match o with Some (k, v) => [1; 1; k; v] | None => [1; 0] end.
Definition ser_pairs (l : list (Z * Z)) : list Z := 1 :: zn (length l) :: flat_map (fun p => [fst p; snd p]) l.
(* the function wrapped by the lazy cache in the driver *)
Definition lazy_f (a : Z) : Z := a * a + 1.
Definition ser_lazy (l : list (Z * bool)) : list Z := 1 :: zn (length l) :: flat_map (fun p => [fst p; zb (snd p)]) l.
(* ... which raises for the argument 99 *)
Definition lazy_fx (a : Z) : option Z := if a =? 99 then None else Some (a * a + 1).
Definition ser_lazy_x (l : list (option Z * bool)) : list Z :=
  1 :: zn (length l) :: flat_map (fun p => match fst p with Some v => [1; v; zb (snd p)] | None => [0] end) l.
(* driver: histories on one cache file; None = the file is removed *)
Fixpoint lazy2_go (force : bool) (st : lstate Z Z) (ops : list (option Z)) : list Z :=
  match ops with
  | [] => []
  | None :: r => 2 :: lazy2_go force None r
  | Some a :: r =>
    let '(v, st', ran) := lazy_call Z Z Z.eqb lazy_f force st a in
    1 :: v :: zb ran :: lazy2_go force st' r
  end.
Definition ser_lazy2 (force : bool) (ops : list (option Z)) : list Z := 1 :: zn (length ops) :: lazy2_go force None ops.

(* ---- M3: identity trees. Heaps travel as association lists (first entry wins) with a default *)
Fixpoint heap_of {V} (dflt : V) (l : list (nat * V)) : heap V :=
  fun n => match l with [] => dflt | (i, v) :: r => if Nat.eqb i n then v else heap_of dflt r n end.
Definition g_const (c : Z) : option Z -> Z := fun _ => c.
Definition g_addc (c : Z) : option Z -> Z := fun o => match o with Some v => v + c | None => c end.
Definition g_mul (c : Z) : option Z -> Z := fun o => match o with Some v => v * c | None => 0 end.
(* the distinct leaf identities in increasing order (driver: sort_uniq of leaf_positions) *)
Definition uniq_leaf_ids (t : iev) : list Z := dedup (sortZ (map zn (leaf_positions t))).
Definition ser_setp (t : iev) (h : heap (option Z)) : list Z :=
  let ids := uniq_leaf_ids t in
  1 :: zn (length ids) :: flat_map (fun i => i :: ser_oz (h (Z.to_nat i))) ids.
Definition ser_ozs (l : list (option Z)) : list Z := 1 :: zn (length l) :: flat_map ser_oz l.
Fixpoint ser_pval (p : pval) : list Z :=
  match p with
  | PV v => 0 :: ser_oz v
  | PT l => 1 :: zn (length l) :: (fix go l := match l with [] => [] | c :: r => ser_pval c ++ go r end) l
  end.
Definition ser_pvals (l : list pval) : list Z := 1 :: zn (length l) :: flat_map ser_pval l.
Definition ser_setdur (t : iev) (r : res (heap Z)) : list Z :=
  match r with
  | Err k => [0; err_code k]
  | Ok h =>
    let ids := uniq_leaf_ids t in
    1 :: idur t h :: zn (length ids) :: flat_map (fun i => [i; h (Z.to_nat i)]) ids
  end.

(* ---- M3: object graphs. Driver: fresh identities start above the largest one of the source; reported are
        the aliasing pattern of the result and the identities it shares with the source *)
Definition fresh_above (t : gev) : nat := S (fold_left Nat.max (gids t) 0%nat).
Definition ser_copy (t r : gev) : list Z :=
  let src := gids t in
  let shared := filter (fun i => memn i src) (gids r) in
  1 :: zn (length (pattern r)) :: map zn (pattern r) ++ zn (length shared) :: map zn shared.
