(* M5: durations and tempi as numbers (mutwo/core_parameters/abc.py, durations.py, tempos.py).
   A duration of either kind reports a beat count rounded to 10 digits = an integer number of ticks.
   Raw numbers (int, float, Fraction) are rationals.  Definitions only. *)
From Coq Require Import ZArith QArith Qround List Bool.
From MV Require Import Base.Res.
Import ListNotations.
Open Scope Z_scope.

Definition tpb : Z := 10000000000.              (* ticks per beat *)

Inductive dkind := KDirect | KRatio.
Record durv := mkDur { dk : dkind; dt : Z }.     (* kind, beat count in ticks *)

(* value of a duration / of a raw number as a rational number of beats *)
Definition qval (d : durv) : Q := ((dt d # 1) / (tpb # 1))%Q.

(* round(x, 10) in ticks: round half to even of a rational number of ticks *)
Definition rhe (q : Q) : Z :=
  let f := Qfloor q in
  let r := (q - (f # 1))%Q in
  match Qcompare r (1 # 2) with
  | Lt => f
  | Gt => f + 1
  | Eq => if Z.even f then f else f + 1
  end.
Definition to_ticks (beats : Q) : Z := rhe (beats * (tpb # 1))%Q.

(* core_utilities.round_floats(x, n) for a float x given as the rational it denotes: Python's round(x, n) is the
   correctly rounded decimal, ties to even; the result is returned as its numerator over 10^n *)
Definition pow10 (n : nat) : Z := 10 ^ Z.of_nat n.
Definition round_digits (q : Q) (n : nat) : Z := rhe (q * (pow10 n # 1))%Q.

(* --- comparisons: SingleNumberParameter._compare + functools.total_ordering *)
Definition d_eq (a : durv) (b : Q) : bool := Qeq_bool (qval a) b.
Definition d_lt (a : durv) (b : Q) : bool := match Qcompare (qval a) b with Lt => true | _ => false end.
(* derived by total_ordering from __lt__ and __eq__, and the default __ne__ *)
Definition d_le (a : durv) (b : Q) : bool := d_lt a b || d_eq a b.
Definition d_gt (a : durv) (b : Q) : bool := negb (d_lt a b) && negb (d_eq a b).
Definition d_ge (a : durv) (b : Q) : bool := negb (d_lt a b).
Definition d_ne (a : durv) (b : Q) : bool := negb (d_eq a b).

(* --- arithmetic: Duration._math_operation on the rounded beat counts, result re-rounded;
       the copying operators return a new duration of the receiver's kind *)
Inductive aop := OAdd | OSub | OMul | ODiv.
Definition q_apply (o : aop) (x y : Q) : Q :=
  match o with OAdd => x + y | OSub => x - y | OMul => x * y | ODiv => x / y end%Q.
Definition arith (o : aop) (a : durv) (b : Q) : res durv :=
  match o with
  | ODiv => if Qeq_bool b 0 then Err EZeroDivision else Ok (mkDur (dk a) (to_ticks (q_apply o (qval a) b)))
  | _ => Ok (mkDur (dk a) (to_ticks (q_apply o (qval a) b)))
  end.

(* the reflected forms (a plain number on the left: b + a, b - a, b * a, b / a): a new duration of the kind of the
   duration operand *)
Definition arith_r (o : aop) (b : Q) (a : durv) : res durv :=
  match o with
  | ODiv => if Qeq_bool (qval a) 0 then Err EZeroDivision else Ok (mkDur (dk a) (to_ticks (q_apply o b (qval a))))
  | _ => Ok (mkDur (dk a) (to_ticks (q_apply o b (qval a))))
  end.

(* --- mutable state of a duration object: DirectDuration stores the rounded float;
       RatioDuration stores the ratio and caches the rounded beat count (cached_property),
       the ratio setter drops the cache *)
Record dstate := mkDState { skind : dkind; sratio : Q; scache : option Z }.
Definition st_beat (s : dstate) : Z :=            (* what beat_count reports (in ticks) *)
  match scache s with Some c => c | None => to_ticks (sratio s) end.
(* reading beat_count fills the cache *)
Definition st_read (s : dstate) : Z * dstate :=
  (st_beat s, mkDState (skind s) (sratio s) (Some (st_beat s))).
(* beat_count / ratio setter *)
Definition st_set (s : dstate) (q : Q) : dstate :=
  match skind s with
  | KDirect => mkDState KDirect ((to_ticks q # 1) / (tpb # 1))%Q None
  | KRatio => mkDState KRatio q None
  end.
Inductive upd := USet (q : Q) | UArith (o : aop) (b : Q) | URead.
Definition st_step (s : dstate) (u : upd) : res dstate :=
  match u with
  | USet q => Ok (st_set s q)
  | URead => Ok (snd (st_read s))
  | UArith o b =>
      (* in-place forms add/subtract/multiply/divide: operate on the reported beat count, store the result *)
      let x := ((st_beat s # 1) / (tpb # 1))%Q in
      match o with
      | ODiv => if Qeq_bool b 0 then Err EZeroDivision else Ok (st_set s (q_apply o x b))
      | _ => Ok (st_set s (q_apply o x b))
      end
  end.
Fixpoint st_run (s : dstate) (us : list upd) : res dstate :=
  match us with [] => Ok s | u :: r => s' <- st_step s u ; st_run s' r end.
(* the value the latest update stored *)
Definition st_value (s : dstate) : Z := to_ticks (sratio s).
Definition st_inv (s : dstate) : Prop := match scache s with Some c => c = to_ticks (sratio s) | None => True end.

(* --- parsing: Duration.from_any / Tempo.from_any over a sum type of inputs *)
Inductive pstr :=
| SInt (z : Z)            (* digits *)
| SFloat (q : Q)          (* digits.digits *)
| SFrac (n d : Z)         (* digits/digits, d may be 0 *)
| SList                   (* a literal list of points, only meaningful for tempi *)
| SJunk.                  (* anything else *)
Inductive pin :=
| PSame                   (* an existing object of the class: returned as it is *)
| PInt (z : Z) | PFloat (q : Q) | PFrac (q : Q)
| PStr (s : pstr)
| PPoints                 (* a well-formed list / tuple of points *)
| POther.                 (* None, dicts, objects, ... *)
Inductive pout := OSame | ODirect (q : Q) | ORatio (q : Q) | OFlex.

Definition parse_duration (x : pin) : res pout :=
  match x with
  | PSame => Ok OSame
  | PInt z => Ok (ODirect (z # 1))
  | PFloat q => Ok (ODirect q)
  | PFrac q => Ok (ORatio q)
  | PStr (SInt z) => Ok (ODirect (z # 1))
  | PStr (SFloat q) => Ok (ODirect q)
  | PStr (SFrac n d) => if d =? 0 then Err ECannotParse else Ok (ORatio ((n # 1) / (d # 1))%Q)
  | PStr SList | PStr SJunk | PPoints | POther => Err ECannotParse
  end.
Definition parse_tempo (x : pin) : res pout :=
  match x with
  | PSame => Ok OSame
  | PInt z => Ok (ODirect (z # 1))
  | PFloat q | PFrac q => Ok (ODirect q)
  | PStr (SInt z) => Ok (ODirect (z # 1))
  | PStr (SFloat q) => Ok (ODirect q)
  | PStr (SFrac n d) => if d =? 0 then Err ECannotParse else Ok (ODirect ((n # 1) / (d # 1))%Q)
  | PStr SList | PPoints => Ok OFlex
  | PStr SJunk | POther => Err ECannotParse
  end.

(* --- tempo: seconds per beat, WesternTempo *)
Definition seconds_of (bpm : Q) : Q := ((60 # 1) / bpm)%Q.
Definition western_bpm (range_start reference : Q) : Q := (range_start * reference)%Q.
