(* M4: event equality (Chronon.__eq__, Compound.__eq__ after the fix, Tempo.__eq__, Duration.__eq__).
   Definitions only. *)
From Coq Require Import ZArith List Bool.
Import ListNotations.
Open Scope Z_scope.

(* a tempo as equality sees it: Tempo.__eq__ compares bpm only; for a trajectory bpm = value at time 0
   (finding F1).  `rest` stands for everything else in a trajectory (later points). *)
Record tempoE := mkTempoE { bpm0 : Z; rest : list (Z * Z * Z) }.

(* attributes of a leaf: duration in ticks, tag, tempo, further public attributes (name id -> value),
   kept sorted by name with unique names *)
Record leafE := mkLeafE { ldur : Z; ltag : Z; ltempo : tempoE; lextra : list (Z * Z) }.

Inductive kindE := KSeqE | KSimE.
Inductive evE :=
| ELeaf (a : leafE)
| ECont (k : kindE) (tg : Z) (tp : tempoE) (cs : list evE)
| ENonEvent (x : Z).       (* anything that is not an event: numbers, None, plain lists ... *)

Definition tempo_eqb (a b : tempoE) : bool := bpm0 a =? bpm0 b.

(* the union of the two attribute-name sets is compared; a name missing on one side -> False *)
Fixpoint extra_eqb (a b : list (Z * Z)) : bool :=
  match a, b with
  | [], [] => true
  | (n1, v1) :: r1, (n2, v2) :: r2 => (n1 =? n2) && (v1 =? v2) && extra_eqb r1 r2
  | _, _ => false
  end.

Definition leaf_eqb (a b : leafE) : bool :=
  (ldur a =? ldur b) && (ltag a =? ltag b) && tempo_eqb (ltempo a) (ltempo b) && extra_eqb (lextra a) (lextra b).

Definition kind_eqb (a b : kindE) : bool :=
  match a, b with KSeqE, KSeqE | KSimE, KSimE => true | _, _ => false end.

Fixpoint ev_eqb (a b : evE) : bool :=
  match a, b with
  | ELeaf x, ELeaf y => leaf_eqb x y
  | ECont k1 tg1 tp1 cs1, ECont k2 tg2 tp2 cs2 =>
      kind_eqb k1 k2 && (tg1 =? tg2) && tempo_eqb tp1 tp2 &&
      (fix go (l1 l2 : list evE) : bool :=
         match l1, l2 with
         | [], [] => true
         | x :: r1, y :: r2 => ev_eqb x y && go r1 r2
         | _, _ => false
         end) cs1 cs2
  | _, _ => false
  end.
Definition list_eqb := fix go (l1 l2 : list evE) : bool :=
         match l1, l2 with
         | [], [] => true
         | x :: r1, y :: r2 => ev_eqb x y && go r1 r2
         | _, _ => false
         end.
(* `a != b` *)
Definition ev_neqb (a b : evE) : bool := negb (ev_eqb a b).

Definition is_event (a : evE) : bool := match a with ENonEvent _ => false | _ => true end.
