(* List-like access to containers (Compound inherits from list): integer get / set / delete with Python's
   negative indices and IndexError, slices e[a:b] with optional / negative bounds (step 1), repetition e * n and the
   generic sum of Compound.__add__ (used by simultaneities: children appended, own tag and tempo kept, tempo NOT
   concatenated - sequences override it with seq_add).  Definitions only. *)
From Coq Require Import ZArith List Bool.
From MV Require Import Base.Res Model.EventTree Model.TreeOps.
Import ListNotations.
Open Scope Z_scope.

(* Python's index normalisation: i in [-len, len) -> position, IndexError otherwise *)
Definition norm_index (len i : Z) : option nat :=
  if (0 <=? i) && (i <? len) then Some (Z.to_nat i)
  else if (i <? 0) && (- len <=? i) then Some (Z.to_nat (len + i))
  else None.

Definition get_int (e : ev) (i : Z) : res ev :=
  match norm_index (Z.of_nat (length (children e))) i with
  | Some k => match nth_error (children e) k with Some c => Ok c | None => Err EIndexError end
  | None => Err EIndexError
  end.
Definition set_int (e : ev) (i : Z) (x : ev) : res ev :=
  match norm_index (Z.of_nat (length (children e))) i with
  | Some k => Ok (with_children e (replace_at k x (children e)))
  | None => Err EIndexError
  end.
Definition del_int (e : ev) (i : Z) : res ev :=
  match norm_index (Z.of_nat (length (children e))) i with
  | Some k => Ok (with_children e (firstn k (children e) ++ skipn (S k) (children e)))
  | None => Err EIndexError
  end.

(* slice bounds as Python's slice.indices does for step 1: None = open end, negative = from the end, clamped *)
Definition clamp_bound (len : Z) (b : option Z) (dflt : Z) : Z :=
  match b with
  | None => dflt
  | Some x => let y := if x <? 0 then len + x else x in Z.max 0 (Z.min len y)
  end.
Definition py_slice (e : ev) (a b : option Z) : ev :=
  let len := Z.of_nat (length (children e)) in
  let i0 := clamp_bound len a 0 in
  let i1 := clamp_bound len b len in
  with_children e (lslice (Z.to_nat i0) (Z.to_nat i1) (children e)).

(* list.__mul__: n <= 0 gives the empty container *)
Fixpoint rep_list {A} (n : nat) (l : list A) : list A := match n with O => [] | S k => l ++ rep_list k l end.
Definition ev_mul (e : ev) (n : Z) : ev := with_children e (rep_list (Z.to_nat n) (children e)).

(* Compound.__add__ (not overridden by Concurrence) *)
Definition generic_add (e other : ev) : res ev :=
  match e with
  | Leaf _ _ => Err ETypeError
  | _ => Ok (with_children e (children e ++ children other))
  end.
