(* M3 (light): event trees with object identities, for the operations that depend on sharing:
   bulk parameter edits once per distinct object (Compound._apply_once_per_event with its id set),
   parameter reads per position, the duration setter of containers.
   A heap maps a leaf's identity to the value of one parameter (None = attribute not defined) and to
   its duration in ticks.  Definitions only. *)
From Coq Require Import ZArith QArith List Bool.
From MV Require Import Base.Res Model.Numbers.
Import ListNotations.
Open Scope Z_scope.

Inductive ikind := IKSeq | IKSim.
Inductive iev := ILeaf (id : nat) | INode (id : nat) (k : ikind) (cs : list iev).

Definition iid (e : iev) : nat := match e with ILeaf i => i | INode i _ _ => i end.
Definition ichildren (e : iev) : list iev := match e with ILeaf _ => [] | INode _ _ cs => cs end.

Fixpoint memn (x : nat) (l : list nat) : bool :=
  match l with [] => false | y :: r => Nat.eqb x y || memn x r end.

(* heaps as functions; the driver instantiates them from association lists *)
Definition heap (V : Type) := nat -> V.
Definition hupd {V} (h : heap V) (i : nat) (v : V) : heap V := fun j => if Nat.eqb j i then v else h j.

(* leaf identities in DFS order, one entry per POSITION (an object referenced twice appears twice) *)
Fixpoint leaf_positions (e : iev) : list nat :=
  match e with
  | ILeaf i => [i]
  | INode _ _ cs => (fix go l := match l with [] => [] | c :: r => leaf_positions c ++ go r end) cs
  end.
Definition leaf_positions_list := fix go (l : list iev) : list nat :=
  match l with [] => [] | c :: r => leaf_positions c ++ go r end.

(* all identities (containers and leaves), per position *)
Fixpoint all_ids (e : iev) : list nat :=
  match e with
  | ILeaf i => [i]
  | INode i _ cs => i :: (fix go l := match l with [] => [] | c :: r => all_ids c ++ go r end) cs
  end.

(* ---- set_parameter / mutate_parameter: Chronon._set_parameter on one leaf *)
Definition leaf_set (set_unassigned : bool) (g : option Z -> Z) (old : option Z) : option Z :=
  match old with
  | Some _ => Some (g old)
  | None => if set_unassigned then Some (g old) else None
  end.

(* Compound._apply_once_per_event: children in order; a child whose id is in the id set is skipped,
   otherwise its id is added and the method is applied (leaf: edit; container: recursion) *)
Fixpoint apply_once (upd : option Z -> option Z) (e : iev) (st : list nat * heap (option Z))
  : list nat * heap (option Z) :=
  match e with
  | ILeaf i => (fst st, hupd (snd st) i (upd (snd st i)))
  | INode _ _ cs =>
      (fix go (l : list iev) (st : list nat * heap (option Z)) : list nat * heap (option Z) :=
         match l with
         | [] => st
         | c :: r =>
           if memn (iid c) (fst st) then go r st
           else go r (apply_once upd c (iid c :: fst st, snd st))
         end) cs st
  end.
Definition apply_children (upd : option Z -> option Z) :=
  fix go (l : list iev) (st : list nat * heap (option Z)) : list nat * heap (option Z) :=
         match l with
         | [] => st
         | c :: r =>
           if memn (iid c) (fst st) then go r st
           else go r (apply_once upd c (iid c :: fst st, snd st))
         end.
(* event.set_parameter(name, g, set_unassigned) on a container *)
Definition set_parameter (set_unassigned : bool) (g : option Z -> Z) (e : iev) (h : heap (option Z)) : heap (option Z) :=
  snd (apply_once (leaf_set set_unassigned g) e ([], h)).

(* ---- get_parameter *)
Inductive pval := PV (v : option Z) | PT (l : list pval).
Definition is_none (p : pval) : bool := match p with PV None => true | _ => false end.
(* flat: one entry per leaf position, in order *)
Definition get_flat (e : iev) (h : heap (option Z)) : list (option Z) := map h (leaf_positions e).
(* nested: mirrors the tree (a leaf below a container contributes its value, a container a tuple) *)
Fixpoint get_nested (e : iev) (h : heap (option Z)) : pval :=
  match e with
  | ILeaf i => PV (h i)
  | INode _ _ cs => PT ((fix go l := match l with [] => [] | c :: r => get_nested c h :: go r end) cs)
  end.
(* Compound.get_parameter(name, flat, filter_undefined) as coded: the flag is not handed down; the
   entries contributed by every child (a leaf: its value; a container: its own, unfiltered, tuple) are
   filtered of undefined values one level deep *)
Definition defined (v : option Z) : bool := match v with None => false | _ => true end.
Definition get_parameter_flat (filter_undefined : bool) (e : iev) (h : heap (option Z)) : list (option Z) :=
  if filter_undefined then filter defined (get_flat e h) else get_flat e h.
Definition get_parameter_nested (filter_undefined : bool) (e : iev) (h : heap (option Z)) : list pval :=
  flat_map (fun c =>
              match c with
              | ILeaf i => if filter_undefined && negb (defined (h i)) then [] else [PV (h i)]
              | INode _ _ _ =>
                match get_nested c h with
                | PT l => [PT (if filter_undefined then filter (fun p => negb (is_none p)) l else l)]
                | PV v => [PV v]
                end
              end) (ichildren e).

(* ---- durations with sharing *)
Fixpoint idur (e : iev) (d : heap Z) : Z :=
  match e with
  | ILeaf i => d i
  | INode _ IKSeq cs => (fix go l := match l with [] => 0 | c :: r => idur c d + go r end) cs
  | INode _ IKSim cs => (fix go l := match l with [] => 0 | c :: r => Z.max (idur c d) (go r) end) cs
  end.

(* the duration setter of a container: every DISTINCT leaf is rescaled once
   (old duration <> 0: d -> round(d * new / old); old duration 0: every leaf gets new / number of children) *)
Fixpoint apply_once_dur (upd : Z -> Z) (e : iev) (st : list nat * heap Z) : list nat * heap Z :=
  match e with
  | ILeaf i => (fst st, hupd (snd st) i (upd (snd st i)))
  | INode _ _ cs =>
      (fix go (l : list iev) (st : list nat * heap Z) : list nat * heap Z :=
         match l with
         | [] => st
         | c :: r =>
           if memn (iid c) (fst st) then go r st
           else go r (apply_once_dur upd c (iid c :: fst st, snd st))
         end) cs st
  end.
Definition apply_children_dur (upd : Z -> Z) :=
  fix go (l : list iev) (st : list nat * heap Z) : list nat * heap Z :=
         match l with
         | [] => st
         | c :: r =>
           if memn (iid c) (fst st) then go r st
           else go r (apply_once_dur upd c (iid c :: fst st, snd st))
         end.
Definition rescale (old new d : Z) : Z := rhe (((d # 1) * (new # 1)) / (old # 1))%Q.
Definition set_duration (e : iev) (new : Z) (d : heap Z) : res (heap Z) :=
  match e with
  | ILeaf i => Ok (hupd d i new)
  | INode _ _ [] => Err ECannotSetDurationOfEmpty
  | INode _ _ cs =>
    let old := idur e d in
    if old =? 0 then
      let share := rhe ((new # 1) / (Z.of_nat (length cs) # 1))%Q in
      Ok (snd (apply_once_dur (fun _ => share) e ([], d)))
    else Ok (snd (apply_once_dur (rescale old new) e ([], d)))
  end.

(* consistency of identities: equal ids denote equal subtrees (one object) *)
Fixpoint subterms (e : iev) : list iev :=
  e :: match e with
       | ILeaf _ => []
       | INode _ _ cs => (fix go l := match l with [] => [] | c :: r => subterms c ++ go r end) cs
       end.
Definition consistent (e : iev) : Prop :=
  forall a b, In a (subterms e) -> In b (subterms e) -> iid a = iid b -> a = b.
