(* M6: numeric and list helpers of mutwo/core_utilities/tools.py, the parser converters of
   mutwo/core_converters/parsers.py and the on-disk lazy cache of core_utilities/decorators.py.
   Definitions only. (`scale` is Model/Envelope.v's `scale`.) *)
From Coq Require Import ZArith QArith List Bool.
From MV Require Import Base.Res Model.TreeOps.
Import ListNotations.
Open Scope Z_scope.

(* ---- scale_sequence_to_sum over the rationals *)
Definition qsum (l : list Q) : Q := fold_right Qplus 0%Q l.
Definition scale_sequence_to_sum (l : list Q) (target : Q) : list Q :=
  match l with
  | [] => []
  | _ =>
    let s := qsum l in
    if Qeq_bool s 0 then map (fun _ => (target / (Z.of_nat (length l) # 1))%Q) l
    else let factor := (target / s)%Q in map (fun x => (x * factor)%Q) l
  end.

(* ---- accumulate_from_n: n, n+x0, n+x0+x1, ... *)
Fixpoint accumulate_from_n (l : list Z) (n : Z) : list Z :=
  n :: match l with [] => [] | x :: r => accumulate_from_n r (n + x) end.

(* ---- cyclic_permutations: all rotations, in order *)
Definition rotate {A} (i : nat) (l : list A) : list A := skipn i l ++ firstn i l.
Definition cyclic_permutations {A} (l : list A) : list (list A) := map (fun i => rotate i l) (seq 0 (length l)).

(* ---- find_closest_index (identity key): sort, bisect_left, compare the two neighbours (the right one
        wins a tie), then the first position of that value in the original data *)
Fixpoint bisect_leftZ (l : list Z) (t : Z) : nat :=
  match l with [] => 0%nat | x :: r => if x <? t then S (bisect_leftZ r t) else 0%nat end.
Definition find_closest_index (item : Z) (data : list Z) : res nat :=
  let sorted := sortZ data in
  let sol := bisect_leftZ sorted item in
  let n := length data in
  match data with
  | [] => Err EIndexError
  | _ =>
    let idx :=
      if Nat.eqb sol n then Nat.pred sol
      else if Nat.eqb sol 0 then 0%nat
      else
        let d1 := Z.abs (- nth sol sorted 0 + item) in
        let d0 := Z.abs (- nth (Nat.pred sol) sorted 0 + item) in
        if d1 <=? d0 then sol else Nat.pred sol in
    match index_of (nth idx sorted 0) data with
    | Some i => Ok i
    | None => Err EValueError
    end
  end.

(* ---- uniqify_sequence (default keys): sorted, duplicates removed *)
Definition uniqify (l : list Z) : list Z := dedup (sortZ l).

(* ---- nested get / set / delete by index path *)
Inductive nest := NAtom (z : Z) | NList (l : list nest).
Fixpoint nget (path : list nat) (x : nest) : res nest :=
  match path with
  | [] => Ok x
  | i :: r =>
    match x with
    | NAtom _ => Err ETypeError
    | NList l => match nth_error l i with Some c => nget r c | None => Err EIndexError end
    end
  end.
Fixpoint nset (path : list nat) (item : nest) (x : nest) : res nest :=
  match path with
  | [] => Err EIndexError          (* index_sequence[-1] of an empty sequence *)
  | [i] =>
    match x with
    | NAtom _ => Err EAttributeError      (* int has no __setitem__ *)
    | NList l => if Nat.ltb i (length l) then Ok (NList (replace_at i item l)) else Err EIndexError
    end
  | i :: r =>
    match x with
    | NAtom _ => Err ETypeError
    | NList l =>
      match nth_error l i with
      | Some c => c' <- nset r item c ; Ok (NList (replace_at i c' l))
      | None => Err EIndexError
      end
    end
  end.
Fixpoint ndel (path : list nat) (x : nest) : res nest :=
  match path with
  | [] => Err EIndexError
  | [i] =>
    match x with
    | NAtom _ => Err EAttributeError      (* int has no __delitem__ *)
    | NList l => if Nat.ltb i (length l) then Ok (NList (firstn i l ++ skipn (S i) l)) else Err EIndexError
    end
  | i :: r =>
    match x with
    | NAtom _ => Err ETypeError
    | NList l =>
      match nth_error l i with
      | Some c => c' <- ndel r c ; Ok (NList (replace_at i c' l))
      | None => Err EIndexError
      end
    end
  end.

(* ---- find_numbers_which_sums_up_to: combinations with replacement of the given sizes whose sum is
        the given sum (itertools order: lexicographic by position) *)
Fixpoint cwr (numbers : list Z) (k : nat) : list (list Z) :=
  match k with
  | O => [[]]
  | S k' =>
    (fix go (l : list Z) : list (list Z) :=
       match l with
       | [] => []
       | x :: r => map (fun c => x :: c) (cwr l k') ++ go r
       end) numbers
  end.
Definition zsum (l : list Z) : Z := fold_right Z.add 0 l.
Definition find_sums (target : Z) (numbers : list Z) (counts : list nat) : list (list Z) :=
  flat_map (fun k => filter (fun c => zsum c =? target) (cwr numbers k)) counts.
Definition default_numbers (target : Z) : list Z := map Z.of_nat (seq 1 (Z.to_nat target)).
Definition default_counts (target : Z) : list nat := seq 1 (Z.to_nat target).

(* ---- ChrononToAttribute / MutwoParameterDictToKeywordArgument: lookup with default / optional *)
Fixpoint assoc (k : Z) (d : list (Z * Z)) : option Z :=
  match d with [] => None | (k', v) :: r => if k =? k' then Some v else assoc k r end.
Definition chronon_to_attribute (attrs : list (Z * Z)) (name default : Z) : Z :=
  match assoc name attrs with Some v => v | None => default end.
Definition dict_to_keyword_argument (d : list (Z * Z)) (search keyword : Z) : option (Z * Z) :=
  match assoc search d with Some v => Some (keyword, v) | None => None end.
(* MutwoParameterDictToChronon: later converters override earlier keywords (dict.update) *)
Fixpoint update (k v : Z) (d : list (Z * Z)) : list (Z * Z) :=
  match d with
  | [] => [(k, v)]
  | (k', v') :: r => if k =? k' then (k, v) :: r else (k', v') :: update k v r
  end.
Definition dict_to_chronon (d : list (Z * Z)) (convs : list (Z * Z)) : list (Z * Z) :=
  fold_left (fun acc '(search, keyword) =>
               match dict_to_keyword_argument d search keyword with
               | Some (k, v) => update k v acc
               | None => acc
               end) convs [].

(* ---- compute_lazy: the file holds (result, arguments) of the last computation *)
Section Lazy.
  Variable A B : Type.
  Variable aeqb : A -> A -> bool.
  Variable f : A -> B.
  Definition lstate := option (B * A).
  (* one call: returned value, new file content, whether the wrapped function ran *)
  Definition lazy_call (force : bool) (st : lstate) (args : A) : B * lstate * bool :=
    match st with
    | None => (f args, Some (f args, args), true)
    | Some (r, prev) =>
      if negb (aeqb prev args) || force then (f args, Some (f args, args), true)
      else (r, st, false)
    end.
  Fixpoint lazy_run (force : bool) (st : lstate) (calls : list A) : list (B * bool) :=
    match calls with
    | [] => []
    | a :: r => let '(v, st', ran) := lazy_call force st a in (v, ran) :: lazy_run force st' r
    end.
End Lazy.
