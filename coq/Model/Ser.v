(* Serialisation of M1 values to lists of integers, used by the thorough tier to cross-check the
   extracted OCaml code against evaluation of the same Gallina terms inside Coq (vm_compute). *)
From Coq Require Import ZArith List Bool.
From MV Require Import Base.Res Model.EventTree Model.TreeOps.
Import ListNotations.
Open Scope Z_scope.

Fixpoint ser (e : ev) : list Z :=
  match e with
  | Leaf d l => [0; d; l]
  | Seq m cs => 1 :: tag m :: tempo m :: Z.of_nat (length cs) ::
                (fix go l := match l with [] => [] | c :: r => ser c ++ go r end) cs
  | Sim m cs => 2 :: tag m :: tempo m :: Z.of_nat (length cs) ::
                (fix go l := match l with [] => [] | c :: r => ser c ++ go r end) cs
  end.

Definition err_code (k : err) : Z :=
  match k with
  | EInvalidAbsoluteTime => 1 | EInvalidStartAndEnd => 2 | EInvalidCutOut => 3 | EInvalidStartValue => 4
  | ESplitError => 5 | ESplitUnavailableChild => 6 | ENoSplitTime => 7 | EImpossibleToSquashIn => 8
  | EImpossibleToSlideIn => 9 | EIneffectiveExtendUntil => 10 | EImpossibleToExtendUntil => 11
  | EConcatenation => 12 | ENoTag => 13 | EKeyError => 14 | EIndexError => 15 | ERuntimeError => 16
  | ETypeError => 17 | EAttributeError => 18 | EEmptyEnvelope => 19 | ECannotSetDurationOfEmpty => 20
  | ECannotParse => 21 | EValueError => 22 | EZeroDivision => 23 | EFuel => 24
  end.

Definition ser_res (r : res ev) : list Z :=
  match r with Ok e => 1 :: ser e | Err k => [0; err_code k] end.
Definition ser_parts (r : res (list ev)) : list Z :=
  match r with
  | Ok es => 1 :: Z.of_nat (length es) :: flat_map ser es
  | Err k => [0; err_code k]
  end.
