(* M2: tempo conversion (mutwo/core_converters/tempos.py) over the abstract number type.
   TempoConverter: every leaf gets the integral of the seconds-per-beat envelope over its span;
   the converter memoises integrals by (start, end).
   EventToMetrizedEvent / metrize: the tempo of every node is applied to everything below it.
   Definitions only. *)
From Coq Require Import ZArith List Bool.
From MV Require Import Base.Res Model.EventTree Model.TreeOps Model.Num Model.Envelope.
Import ListNotations.
Open Scope Z_scope.

Section Conv.
  Variable F : Type.
  Variable N : Num F.
  Local Notation "a *. b" := (nmul N a b) (at level 40, left associativity).
  Local Notation "a /. b" := (ndiv N a b) (at level 40, left associativity).

  Definition n60 : F := nint N 60.

  (* TempoConverter._tempo_to_beat_length_in_seconds_envelope: 60 / bpm at every tempo point, same
     times and curve shapes (rebuilt from absolute times, so the last event gets duration 0) *)
  Definition seconds_env (tempo : env F) : env F :=
    of_points F (map (fun '(t, v, c) => (t, n60 /. v, c)) (to_points F tempo)).

  (* TempoConverter.convert on a plain tree: new duration (in seconds) of every leaf, DFS order.
     Start times of a sequence's children are the running sums of the durations before conversion. *)
  Fixpoint convert (senv : env F) (t0 : Z) (e : ev) : res (list F) :=
    match e with
    | Leaf d _ => v <- integrate F N senv t0 (t0 + d) ; Ok [v]
    | Seq _ cs =>
        (fix go (t : Z) (l : list ev) : res (list F) :=
           match l with
           | [] => Ok []
           | c :: r => a <- convert senv t c ; b <- go (t + dur c) r ; Ok (a ++ b)
           end) t0 cs
    | Sim _ cs =>
        (fix go (l : list ev) : res (list F) :=
           match l with
           | [] => Ok []
           | c :: r => a <- convert senv t0 c ; b <- go r ; Ok (a ++ b)
           end) cs
    end.
  Definition conv_seq (senv : env F) := fix go (t : Z) (l : list ev) : res (list F) :=
           match l with
           | [] => Ok []
           | c :: r => a <- convert senv t c ; b <- go (t + dur c) r ; Ok (a ++ b)
           end.
  Definition conv_sim (senv : env F) (t0 : Z) := fix go (l : list ev) : res (list F) :=
           match l with
           | [] => Ok []
           | c :: r => a <- convert senv t0 c ; b <- go r ; Ok (a ++ b)
           end.

  (* --- the memo table of the converter: (start, end) -> integral *)
  Definition cache := list ((Z * Z) * F).
  Fixpoint lookup (k : Z * Z) (st : cache) : option F :=
    match st with
    | [] => None
    | ((a, b), v) :: r => if (a =? fst k) && (b =? snd k) then Some v else lookup k r
    end.
  Definition integrate_c (senv : env F) (st : cache) (a b : Z) : res (F * cache) :=
    match lookup (a, b) st with
    | Some v => Ok (v, st)
    | None => v <- integrate F N senv a b ; Ok (v, ((a, b), v) :: st)
    end.
  Fixpoint convert_c (senv : env F) (st : cache) (t0 : Z) (e : ev) : res (list F * cache) :=
    match e with
    | Leaf d _ => '(v, st') <- integrate_c senv st t0 (t0 + d) ; Ok ([v], st')
    | Seq _ cs =>
        (fix go (st : cache) (t : Z) (l : list ev) : res (list F * cache) :=
           match l with
           | [] => Ok ([], st)
           | c :: r => '(a, st1) <- convert_c senv st t c ; '(b, st2) <- go st1 (t + dur c) r ; Ok (a ++ b, st2)
           end) st t0 cs
    | Sim _ cs =>
        (fix go (st : cache) (l : list ev) : res (list F * cache) :=
           match l with
           | [] => Ok ([], st)
           | c :: r => '(a, st1) <- convert_c senv st t0 c ; '(b, st2) <- go st1 r ; Ok (a ++ b, st2)
           end) st cs
    end.
  Definition convc_seq (senv : env F) := fix go (st : cache) (t : Z) (l : list ev) : res (list F * cache) :=
           match l with
           | [] => Ok ([], st)
           | c :: r => '(a, st1) <- convert_c senv st t c ; '(b, st2) <- go st1 (t + dur c) r ; Ok (a ++ b, st2)
           end.
  Definition convc_sim (senv : env F) (t0 : Z) := fix go (st : cache) (l : list ev) : res (list F * cache) :=
           match l with
           | [] => Ok ([], st)
           | c :: r => '(a, st1) <- convert_c senv st t0 c ; '(b, st2) <- go st1 r ; Ok (a ++ b, st2)
           end.
  (* a history of conversions on one converter: the answers, threading the memo table *)
  Fixpoint convert_history (senv : env F) (st : cache) (es : list ev) : res (list (list F)) :=
    match es with
    | [] => Ok []
    | e :: r => '(a, st') <- convert_c senv st 0 e ; b <- convert_history senv st' r ; Ok (a :: b)
    end.

  (* --- metrize: trees whose nodes carry a tempo: constant (static) or a trajectory *)
  Inductive ntempo := TConst (b : F) | TTraj (t : env F).
  Inductive tev :=
  | TLeaf (d : Z) (tp : ntempo)
  | TSeq (tp : ntempo) (cs : list tev)
  | TSim (tp : ntempo) (cs : list tev).

  Fixpoint tdur (e : tev) : Z :=
    match e with
    | TLeaf d _ => d
    | TSeq _ cs => (fix go l := match l with [] => 0 | c :: r => tdur c + go r end) cs
    | TSim _ cs => (fix go l := match l with [] => 0 | c :: r => Z.max (tdur c) (go r) end) cs
    end.

  (* entering a node: a constant tempo multiplies the factor, a trajectory becomes the context
     (start time relative to that node); a trajectory below a trajectory is outside the model *)
  Definition enter (fac : F) (ctx : option (env F)) (t0 : Z) (tp : ntempo) : res (F * option (env F) * Z) :=
    match tp with
    | TConst b => Ok (fac *. (n60 /. b), ctx, t0)
    | TTraj t => match ctx with
                 | None => Ok (fac, Some (seconds_env t), 0)
                 | Some _ => Err EValueError
                 end
    end.

  Fixpoint metrize_go (fac : F) (ctx : option (env F)) (t0 : Z) (e : tev) : res (list F) :=
    match e with
    | TLeaf d tp =>
        '(fac', ctx', t0') <- enter fac ctx t0 tp ;
        match ctx' with
        | None => Ok [fac' *. tof F N d]
        | Some senv => v <- integrate F N senv t0' (t0' + d) ; Ok [fac' *. v]
        end
    | TSeq tp cs =>
        '(fac', ctx', t0') <- enter fac ctx t0 tp ;
        (fix go (t : Z) (l : list tev) : res (list F) :=
           match l with
           | [] => Ok []
           | c :: r => a <- metrize_go fac' ctx' t c ; b <- go (t + tdur c) r ; Ok (a ++ b)
           end) t0' cs
    | TSim tp cs =>
        '(fac', ctx', t0') <- enter fac ctx t0 tp ;
        (fix go (l : list tev) : res (list F) :=
           match l with
           | [] => Ok []
           | c :: r => a <- metrize_go fac' ctx' t0' c ; b <- go r ; Ok (a ++ b)
           end) cs
    end.
  Definition metrize (e : tev) : res (list F) := metrize_go (n1 N) None 0 e.
End Conv.

Arguments TConst {F}. Arguments TTraj {F}. Arguments TLeaf {F}. Arguments TSeq {F}. Arguments TSim {F}.

(* ---- joining on the time axis: Compound._concatenate_tempo.
   A tempo is an envelope of bpm values (a DirectTempo b is the one-point envelope [(0, b, 0)]);
   `fa`/`fb` tell whether the operand's tempo is a trajectory (FlexTempo). `da` = duration of the
   first operand (ticks). *)
Section Join.
  Variable F : Type.
  Variable N : Num F.
  (* the trajectory's last control point has a length of its own (a tail) *)
  Definition tail_positive (e : env F) : bool :=
    match rev e with l :: _ => 0 <? pd l | [] => false end.
  Definition join_tempo (fa fb : bool) (ta : env F) (da : Z) (tb : env F) : res (env F) :=
    let trivial :=
      negb fa && negb fb &&
      match ta, tb with
      | p :: _, q :: _ => neqb N (pv p) (pv q)
      | _, _ => false
      end in
    if trivial then Ok ta
    else
      ta' <- (if da <? pdur F ta then env_cut_out F N ta 0 da
              else if (pdur F ta <? da) || tail_positive ta then env_extend_until F N ta da
              else Ok ta) ;
      Ok (ta' ++ tb).
End Join.
