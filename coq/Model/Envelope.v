(* M2: envelopes (mutwo/core_events/envelopes.py, tree after the fix: commits) over an abstract number
   type.  A control point is an event (duration in ticks, value, curve shape); times are exact
   integer ticks (Durations are 10-digit fixed point), values and shapes live in F.
   Definitions only. *)
From Coq Require Import ZArith List Bool.
From MV Require Import Base.Res Model.EventTree Model.TreeOps Model.Num.
Import ListNotations.
Open Scope Z_scope.

Section Env.
  Variable F : Type.
  Variable N : Num F.

  Local Notation "a +. b" := (nadd N a b) (at level 50, left associativity).
  Local Notation "a -. b" := (nsub N a b) (at level 50, left associativity).
  Local Notation "a *. b" := (nmul N a b) (at level 40, left associativity).
  Local Notation "a /. b" := (ndiv N a b) (at level 40, left associativity).
  Local Notation zero := (n0 N).
  Local Notation one := (n1 N).
  Local Notation fexp := (nexp N).

  Record pt := mkPt { pd : Z; pv : F; pc : F }.
  Definition env := list pt.
  Definition point := (Z * F * F)%type.           (* (absolute time, value, curve shape) *)

  (* a tick count as a beat count (Duration.beat_count) *)
  Definition tof (z : Z) : F := nint N z /. nint N ticks_per_beat.

  Fixpoint pstarts_from (t0 : Z) (e : env) : list Z :=
    match e with [] => [] | p :: r => t0 :: pstarts_from (t0 + pd p) r end.
  Definition pstarts (e : env) : list Z := pstarts_from 0 e.
  Fixpoint pdur (e : env) : Z := match e with [] => 0 | p :: r => pd p + pdur r end.

  (* core_utilities.scale (arguments validated by the callers) *)
  Definition scale (value old_min old_max new_min new_max shape : F) : F :=
    let percentage := (value -. old_min) /. (old_max -. old_min) in
    let new_range := new_max -. new_min in
    (if neqb N shape zero then new_range *. percentage
     else (new_range /. (fexp shape -. one)) *. (fexp (shape *. percentage) -. one)) +. new_min.

  (* ------------------------------------------------------------ reading *)
  (* Envelope._value_at: first value up to the first point, last value from the start of the last
     event on, `scale` between the point whose segment contains t and its successor *)
  Fixpoint va_go (t0 : Z) (p : pt) (rest : env) (t : Z) : F :=
    match rest with
    | [] => pv p
    | q :: rest' =>
      let t1 := t0 + pd p in
      if t <? t1 then scale (tof t) (tof t0) (tof t1) (pv p) (pv q) (pc p)
      else va_go t1 q rest' t
    end.
  Definition value_at (e : env) (t : Z) : res F :=
    match e with
    | [] => Err EEmptyEnvelope
    | p :: rest => Ok (if t <=? 0 then pv p else va_go 0 p rest t)
    end.

  (* Envelope._curve_shape_at (pure since the fix): the share of the active segment's shape that
     follows t; 0 outside [0, duration) *)
  Fixpoint cs_go (t0 : Z) (e : env) (t : Z) : F :=
    match e with
    | [] => zero
    | p :: rest =>
      let t1 := t0 + pd p in
      if t <? t1 then pc p -. tround N (tof (t - t0) /. tof (pd p)) *. pc p
      else cs_go t1 rest t
    end.
  Definition curve_shape_at (e : env) (t : Z) : res F :=
    match e with
    | [] => Err EEmptyEnvelope
    | _ => Ok (if 0 <=? t then cs_go 0 e t else zero)
    end.

  Definition point_at (e : env) (t : Z) : res point :=
    match e with
    | [] => Err EEmptyEnvelope
    | _ =>
      match index_of t (pstarts e) with
      | Some k => match nth_error e k with Some p => Ok (t, pv p, pc p) | None => Err EIndexError end
      | None => v <- value_at e t ; c <- curve_shape_at e t ; Ok (t, v, c)
      end
    end.

  Fixpoint zip_points (ts : list Z) (e : env) : list point :=
    match ts, e with t :: tr, p :: er => (t, pv p, pc p) :: zip_points tr er | _, _ => [] end.

  Definition sub_shape_of_last (pl : list point) (c : F) : list point :=
    match rev pl with
    | [] => []
    | (t, v, c0) :: r => rev r ++ [(t, v, c0 -. c)]
    end.

  (* Envelope.time_range_to_point_tuple *)
  Definition points_in_range (e : env) (s en : Z) : res (list point) :=
    if en <? s then Err EValueError else
    let sts := pstarts e in
    '(pl0, i0) <- match index_of s sts with
                  | Some k => Ok ([], k)
                  | None => p <- point_at e s ; Ok ([p], bisect_left sts s)
                  end ;
    '(i1, lastp) <- match index_of en sts with
                    | Some k => Ok (S k, None)
                    | None => p <- point_at e en ; Ok (bisect_left sts en, Some p)
                    end ;
    let pl := pl0 ++ zip_points (lslice i0 i1 sts) (lslice i0 i1 e) in
    Ok (match lastp with
        | None => pl
        | Some (tl, vl, cl) => sub_shape_of_last pl cl ++ [(tl, vl, cl)]
        end).

  Definition half : F := one /. (one +. one).

  (* area under one segment, as computed by integrate_interval *)
  Definition seg_area (d0 v0 v1 c : F) : F :=
    if neqb N c zero then
      let diff := if nltb N v0 v1 then v1 -. v0 else v0 -. v1 in
      let vmin := if nltb N v1 v0 then v1 else v0 in
      d0 *. vmin +. half *. d0 *. diff
    else
      let A := v0 -. (v1 -. v0) /. (fexp c -. one) in
      let B := (v1 -. v0) /. (c *. (fexp c -. one)) in
      d0 *. ((A *. one +. B *. fexp (c *. one)) -. (A *. zero +. B *. fexp (c *. zero))).

  Fixpoint integrate_points (acc : F) (pl : list point) : F :=
    match pl with
    | (t0, v0, c0) :: (((t1, v1, _) :: _) as r) =>
        integrate_points (if t0 <? t1 then acc +. seg_area (tof (t1 - t0)) v0 v1 c0 else acc) r
    | _ => acc
    end.

  (* Envelope.integrate_interval *)
  Definition integrate (e : env) (s en : Z) : res F :=
    if s =? en then Ok zero
    else pl <- points_in_range e s en ; Ok (integrate_points zero pl).

  (* Envelope.get_average_value(start, end) *)
  Definition average (e : env) (s en : Z) : res F :=
    if en - s =? 0 then value_at e s
    else i <- integrate e s en ; Ok (i /. tof (en - s)).

  (* Envelope.is_static: at most one distinct value *)
  Definition is_static (e : env) : bool :=
    match e with [] => true | p :: r => forallb (fun q => neqb N (pv q) (pv p)) r end.

  (* ------------------------------------------------------------ Consecution machinery on leaves *)
  (* Consecution.get_event_index_at on the point list *)
  Definition pindex_at (e : env) (t : Z) : option nat := index_at_from t (pstarts e) (pdur e).

  (* Chronon.cut_off on a duration (arguments are valid at every call site) *)
  Definition leaf_cut_off (d s en : Z) : Z := if s <? d then d - (Z.min en d - s) else d.

  (* Consecution._cut_off on a list of leaves *)
  Fixpoint p_cut_off (s en : Z) (t0 : Z) (e : env) : env :=
    match e with
    | [] => []
    | p :: r =>
      let t1 := t0 + pd p in
      if (s <=? t0) && (t1 <=? en) && (t0 <? en) then p_cut_off s en t1 r
      else if (t0 <=? s) && (s <=? t1) then
        mkPt (leaf_cut_off (pd p) (s - t0) (s - t0 + (en - s))) (pv p) (pc p) :: p_cut_off s en t1 r
      else if (t0 <? en) && (en <? t1) then
        mkPt (leaf_cut_off (pd p) 0 ((en - s) - (t0 - s))) (pv p) (pc p) :: p_cut_off s en t1 r
      else p :: p_cut_off s en t1 r
    end.

  (* Consecution.squash_in for a list of leaves and a new leaf *)
  Definition p_squash (e : env) (start : Z) (new : pt) : res env :=
    _ <- check_time start ;
    if pdur e <? start then Err EInvalidStartValue else
    let e1 := if 0 <? pd new then p_cut_off start (start + pd new) 0 e else e in
    let sts := pstarts e1 in let durf := pdur e1 in
    match index_of start sts with
    | Some i => Ok (insert_at i new e1)
    | None =>
      if durf <=? start then Ok (e1 ++ [new]) else
      match index_at_from start sts durf with
      | None => Err ETypeError
      | Some a =>
        let sp := start - nth a sts 0 in
        match nth_error e1 a with
        | None => Err EIndexError
        | Some p =>
          if (0 <? sp) && (sp <? pd p) then
            (* Chronon.split_at(sp): two copies, cut out *)
            Ok (insert_at (S a) new
                  (firstn a e1 ++ mkPt sp (pv p) (pc p) :: mkPt (pd p - sp) (pv p) (pc p) :: skipn (S a) e1))
          else Ok (insert_at a new e1)
        end
      end
    end.

  (* Consecution.cut_out on a list of leaves (arguments validated by the caller) *)
  Fixpoint p_cut_out (s en : Z) (t0 : Z) (e : env) : env :=
    match e with
    | [] => []
    | p :: r =>
      let d := pd p in let t1 := t0 + d in
      let a := if t0 <? s then s - t0 else 0 in
      let b := if en <? t1 then d - (t1 - en) else d in
      if a <? b then mkPt (d - (a + (d - b))) (pv p) (pc p) :: p_cut_out s en t1 r
      else if (d =? 0) && (s <=? t0) && (t0 <=? en) then p :: p_cut_out s en t1 r
      else p_cut_out s en t1 r
    end.

  Definition set_shape (i : nat) (c : F) (e : env) : env :=
    match nth_error e i with
    | Some p => replace_at i (mkPt (pd p) (pv p) c) e
    | None => e
    end.

  (* ------------------------------------------------------------ editing *)
  (* Envelope.sample_at(t, append_duration) *)
  Definition sample_at (e : env) (t append : Z) : res env :=
    match e with
    | [] => Err EEmptyEnvelope
    | _ =>
      _ <- check_time t ;
      let sts := pstarts e in
      if memZ t sts then Ok e else
      v <- value_at e t ; c <- curve_shape_at e t ;
      (* the event active at t keeps the share of its shape before t *)
      let e1 := match pindex_at e t with
                | Some i => match nth_error e i with Some p => set_shape i (pc p -. c) e | None => e end
                | None => e
                end in
      let newd := match nth_error sts (bisect_right sts t) with Some ns => ns - t | None => append end in
      let new := mkPt newd v c in
      if pdur e1 <? t then
        (* far behind the last point: prolong the last event, append *)
        match rev e1 with
        | [] => Err EIndexError
        | l :: r => Ok (rev r ++ [mkPt (pd l + (t - pdur e1)) (pv l) (pc l); new])
        end
      else p_squash e1 t new
    end.

  (* Envelope.extend_until *)
  Definition env_extend_until (e : env) (d : Z) : res env := sample_at e d 0.

  (* Envelope.cut_out *)
  Definition env_cut_out (e : env) (s en : Z) : res env :=
    e1 <- sample_at e s (en - s) ;
    e2 <- sample_at e1 en 0 ;
    lastp <- match pindex_at e2 en with
             | Some i => match nth_error e2 i with Some p => Ok p | None => Err EIndexError end
             | None => match rev e2 with l :: _ => Ok l | [] => Err EIndexError end
             end ;
    _ <- check_time s ; _ <- check_start_end s en ;
    Ok (p_cut_out s en 0 e2 ++ [mkPt 0 (pv lastp) (pc lastp)]).

  (* Envelope.cut_off *)
  Definition env_cut_off (e : env) (s en : Z) : res env :=
    _ <- check_time s ; _ <- check_start_end_strict s en ;
    e1 <- sample_at e s 0 ;
    (* value of the first control point at s (sample_at just made sure there is one) *)
    v0 <- match index_of s (pstarts e1) with
          | Some k => match nth_error e1 k with Some p => Ok (pv p) | None => Err EIndexError end
          | None => Err EValueError
          end ;
    e2 <- sample_at e1 en 0 ;
    p_squash (p_cut_off s en 0 e2) s (mkPt 0 v0 zero).

  (* Consecution.split_at on a list of leaves: children are Chronons, so a child is split by
     copy().cut_out into two copies. Returns the parts as lists of points. *)
  Definition p_split_child (c : env) (t : Z) (abl : list Z) (durf : Z) : res (env * nat) :=
    _ <- check_time t ;
    match index_at_from t abl durf with
    | None => Err ESplitUnavailableChild
    | Some i =>
      if t =? nth i abl 0 then Ok (c, i)
      else match nth_error c i with
           | None => Err EIndexError
           | Some p =>
             let sp := t - nth i abl 0 in
             (* Event.split_at(sp) of a Chronon: [0, sp] and [sp, dur] if dur > sp, else only [0, sp] *)
             if sp <? pd p then
               Ok (firstn i c ++ mkPt sp (pv p) (pc p) :: mkPt (pd p - sp) (pv p) (pc p) :: skipn (S i) c, S i)
             else if pd p <? sp then Err ESplitError
             else Ok (c, S i)
           end
    end.

  Fixpoint p_split_loop (ign first : bool) (durf : Z) (sl : list Z) (c : env) (abl : list Z) (idx : list nat)
    : res (env * list nat) :=
    match sl with
    | [] => Ok (c, idx)
    | t :: r =>
      _ <- (if first then check_time t else Ok tt) ;
      match index_of t abl with
      | Some i => p_split_loop ign false durf r c abl (idx ++ [i])
      | None =>
        if t =? durf then p_split_loop ign false durf r c abl idx
        else match p_split_child c t abl durf with
             | Err ESplitUnavailableChild => if ign then Ok (c, idx) else Err ESplitError
             | Err k => Err k
             | Ok (c', i) => p_split_loop ign false durf r c' (insert_sorted t abl) (idx ++ [i])
             end
      end
    end.

  Definition p_split (e : env) (ts : list Z) (ign : bool) : res (list env) :=
    match ts with
    | [] => Err ENoSplitTime
    | _ =>
      '(c, idx) <- p_split_loop ign true (pdur e) (sortZ ts) e (pstarts e) [] ;
      let idx1 := if memN 0%nat idx then idx else 0%nat :: idx in
      let idx2 := if memN (length c) idx1 then idx1 else idx1 ++ [length c] in
      Ok (map (fun '(i0, i1) => lslice i0 i1 c) (pairs idx2))
    end.

  Fixpoint sample_all (e : env) (ts : list Z) : res env :=
    match ts with [] => Ok e | t :: r => e' <- sample_at e t 0 ; sample_all e' r end.

  (* value_at(0) of every following segment is appended as a zero-length point *)
  Fixpoint add_ends (parts : list env) : res (list env) :=
    match parts with
    | [] => Ok []
    | s0 :: r =>
      match r with
      | [] => Ok [s0]
      | s1 :: _ => v <- value_at s1 0 ; r' <- add_ends r ; Ok ((s0 ++ [mkPt 0 v zero]) :: r')
      end
    end.

  (* Envelope.split_at *)
  Definition env_split_at (e : env) (ts : list Z) (ign : bool) : res (list env) :=
    match ts with
    | [] => Err ENoSplitTime
    | _ =>
      let sl := sortZ ts in
      if (pdur e <? lastZ sl) && negb ign then Err ESplitError else
      e1 <- sample_all e sl ;
      parts <- p_split e1 sl ign ;
      parts1 <- add_ends parts ;
      match rev parts1 with
      | [] => Ok []
      | s :: r =>
        v <- value_at e1 (pdur e1) ;
        vs <- value_at s (pdur s) ;
        Ok (if neqb N vs v then parts1 else rev r ++ [s ++ [mkPt 0 v zero]])
      end
    end.

  (* Envelope(points): absolute times to durations; the first point's time is dropped (finding F2) *)
  Fixpoint of_points (pl : list point) : env :=
    match pl with
    | [] => []
    | (t0, v, c) :: r =>
      match r with
      | [] => [mkPt 0 v c]
      | (t1, _, _) :: _ => mkPt (t1 - t0) v c :: of_points r
      end
    end.
  Definition to_points (e : env) : list point := zip_points (pstarts e) e.
End Env.

Arguments pd {F}. Arguments pv {F}. Arguments pc {F}. Arguments mkPt {F}.
