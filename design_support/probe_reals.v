From Coq Require Import Reals Lra Lia.
From Coquelicot Require Import Coquelicot.
Open Scope R_scope.

(* segment curve, normalised time p in [0,1] *)
Definition seg (v0 v1 c p : R) : R :=
  if Req_EM_T c 0 then v0 + (v1 - v0) * p
  else v0 + (v1 - v0) / (exp c - 1) * (exp (c * p) - 1).

Lemma exp_m1_pos c : 0 < c -> 0 < exp c - 1.
Proof. intros H. generalize (exp_increasing 0 c H). rewrite exp_0. lra. Qed.
Lemma exp_m1_neg c : c < 0 -> exp c - 1 < 0.
Proof. intros H. generalize (exp_increasing c 0 H). rewrite exp_0. lra. Qed.

Lemma ratio_bounds c p : c <> 0 -> 0 <= p <= 1 ->
  0 <= (exp (c*p) - 1) / (exp c - 1) <= 1.
Proof.
  intros Hc [Hp0 Hp1].
  destruct (Rlt_dec 0 c) as [Hpos|Hneg].
  - assert (0 < exp c - 1) by now apply exp_m1_pos.
    assert (exp (c*p) <= exp c).
    { destruct (Req_dec p 1) as [->|]. rewrite Rmult_1_r; lra.
      left; apply exp_increasing. nra. }
    assert (1 <= exp (c*p)).
    { destruct (Req_dec p 0) as [->|]. rewrite Rmult_0_r, exp_0; lra.
      left. rewrite <- exp_0. apply exp_increasing. nra. }
    split.
    + apply Rdiv_le_0_compat; lra.
    + apply (Rmult_le_reg_r (exp c - 1)); [lra|]. unfold Rdiv. rewrite Rmult_assoc, Rinv_l; lra.
  - assert (c < 0) by lra.
    assert (exp c - 1 < 0) by now apply exp_m1_neg.
    assert (exp c <= exp (c*p)).
    { destruct (Req_dec p 1) as [->|]. rewrite Rmult_1_r; lra.
      left; apply exp_increasing. nra. }
    assert (exp (c*p) <= 1).
    { destruct (Req_dec p 0) as [->|]. rewrite Rmult_0_r, exp_0; lra.
      left. rewrite <- exp_0. apply exp_increasing. nra. }
    replace ((exp (c*p) - 1) / (exp c - 1)) with ((1 - exp (c*p)) / (1 - exp c)) by (field; lra).
    split.
    + apply Rdiv_le_0_compat; lra.
    + apply (Rmult_le_reg_r (1 - exp c)); [lra|]. unfold Rdiv. rewrite Rmult_assoc, Rinv_l; lra.
Qed.

Theorem seg_between v0 v1 c p : 0 <= p <= 1 ->
  Rmin v0 v1 <= seg v0 v1 c p <= Rmax v0 v1.
Proof.
  intros Hp. unfold seg. destruct (Req_EM_T c 0) as [->|Hc].
  - unfold Rmin, Rmax; destruct (Rle_dec v0 v1); nra.
  - pose proof (ratio_bounds c p Hc Hp) as [H0 H1].
    replace (v0 + (v1 - v0) / (exp c - 1) * (exp (c * p) - 1))
      with (v0 + (v1 - v0) * ((exp (c * p) - 1) / (exp c - 1))).
    2:{ field. intro E. destruct (Rlt_dec 0 c). generalize (exp_m1_pos c r); lra.
        assert (c<0) by lra. generalize (exp_m1_neg c H); lra. }
    set (r := (exp (c * p) - 1) / (exp c - 1)) in *.
    unfold Rmin, Rmax; destruct (Rle_dec v0 v1); nra.
Qed.
Print Assumptions seg_between.

(* closed-form integral of a curved segment over p in [0,1] *)
Definition seg_int (v0 v1 c : R) : R :=
  let A := v0 - (v1 - v0) / (exp c - 1) in
  let B := (v1 - v0) / (c * (exp c - 1)) in
  (A * 1 + B * exp (c * 1)) - (A * 0 + B * exp (c * 0)).

Theorem seg_int_correct v0 v1 c : c <> 0 ->
  is_RInt (fun p => v0 + (v1 - v0) / (exp c - 1) * (exp (c * p) - 1)) 0 1 (seg_int v0 v1 c).
Proof.
  intros Hc.
  assert (He : exp c - 1 <> 0).
  { destruct (Rlt_dec 0 c). generalize (exp_m1_pos c r); lra.
    assert (c<0) by lra. generalize (exp_m1_neg c H); lra. }
  unfold seg_int.
  set (A := v0 - (v1 - v0) / (exp c - 1)).
  set (B := (v1 - v0) / (c * (exp c - 1))).
  apply (is_RInt_ext (fun p => A + B * (c * exp (c * p)))).
  { intros x _. unfold A, B. simpl. field. split; assumption. }
  evar_last.
  apply (is_RInt_derive (fun p => A * p + B * exp (c * p))).
  - intros x _. auto_derive; [trivial|]. ring.
  - intros x _. apply (ex_derive_continuous (fun p => A + B * (c * exp (c * p)))). auto_derive. trivial.
  - simpl. unfold minus, plus, opp; simpl. ring.
Qed.
Print Assumptions seg_int_correct.
