open Model
let fnum : float num = { n0 = 0.0; nadd = ( +. ); nsub = ( -. ); nmul = ( *. ); ndiv = ( /. ); nexp = exp;
  nleb = (fun a b -> a <= b); neqb = (fun a b -> a = b); nofZ = (fun _ -> 1.0) }
let () = Printf.printf "%h %.17g\n" (value_at fnum 0.0 [((4.0, 0.0), 3.0); ((0.0, 10.0), 0.0)] 1.3) (value_at fnum 0.0 [((4.0, 0.0), 3.0); ((0.0, 10.0), 0.0)] 1.3)
