import random, itertools, sys, logging
from fractions import Fraction as Fr
from mutwo import core_events as ce, core_parameters as cp, core_converters as cc, core_utilities as cu
C, S, P = ce.Chronon, ce.Consecution, ce.Concurrence
U = 4  # ticks per beat in this prototype
cnt = itertools.count()
def gen(rng, depth, allow_sim=True, maxd=6, zero_p=0.15):
    r = rng.random()
    if depth == 0 or r < 0.35:
        d = 0 if rng.random() < zero_p else rng.randint(1, maxd)
        c = C(d / U); c.name = f"l{next(cnt)}"; return c
    n = rng.choice([0,1,2,2,3,3,4])
    kids = [gen(rng, depth-1, allow_sim, maxd, zero_p) for _ in range(n)]
    if allow_sim and r > 0.7: return P(kids)
    return S(kids)
def tk(d): 
    x = d.beat_count * U; assert abs(x - round(x)) < 1e-6, x; return round(x)
def snap(e):
    if isinstance(e, C): return ('L', getattr(e,'name','rest'), tk(e.duration))
    return ('S' if isinstance(e, S) else 'P', tuple(snap(c) for c in e))
def dur(s):
    if s[0]=='L': return s[2]
    if s[0]=='S': return sum(dur(c) for c in s[1])
    return max([dur(c) for c in s[1]], default=0)
def at(s, t):
    if s[0]=='L': return s[1] if 0 <= t < s[2] else None
    if s[0]=='S':
        o = 0
        for c in s[1]:
            d = dur(c)
            if o <= t < o + d: return at(c, t - o)
            o += d
        return None
    l = [x for x in (at(c,t) for c in s[1]) if x is not None]
    return tuple(l) if l else None
def leaves(s, off=0, path=()):
    "timeline: list of (voicepath,label,start,end)"
    if s[0]=='L': return [(path, s[1], off, off+s[2])]
    out=[]
    if s[0]=='S':
        for c in s[1]:
            out += leaves(c, off, path); off += dur(c)
    else:
        for i,c in enumerate(s[1]): out += leaves(c, off, path+(i,))
    return out
def profile(s): return [at(s,t) for t in range(-1, dur(s)+2)]
