import logging; logging.disable(logging.CRITICAL)
from mutwo import core_events as ce, core_parameters as cp, core_utilities as cu
for o in ['1/0',' 1.5 ','1_0','1e3','1.5e3','nan','.5','5.','-2','+3/4','1/2/3','','inf','1.2.3', '0x10', '١']:
    for cls in (cp.abc.Duration, cp.abc.Tempo):
        try: r=cls.from_any(o); print(cls.__name__, repr(o), '->', repr(r)[:40])
        except Exception as ex: print(cls.__name__, repr(o), 'ERR', type(ex).__name__)
import math
print(cp.DirectDuration(float('inf')).beat_count, cp.DirectDuration(1) < cp.DirectDuration(float('nan')))
