import random, sys, logging
logging.disable(logging.CRITICAL)
from mutwo import core_events as ce, core_parameters as cp, core_converters as cc
E=ce.Envelope
def genenv(rng, jumps=True):
    n=rng.randint(0,4); ts=[0]
    for _ in range(n):
        ts.append(ts[-1] + (0 if (jumps and rng.random()<.15) else rng.randint(1,6)/4))
    return [[t, rng.randint(-8,8)/2, rng.choice([0,0,0,1,-2,3.5,-6])] for t in ts]
def grid(e, a, b, off=0, n=41, skip=()):
    out=[]
    for i in range(n):
        x=a+(b-a)*i/(n-1)
        if any(abs(x-j)<1e-9 for j in skip): continue
        out.append((x, e.value_at(x+off) if x+off>=0 else None))
    return out
def cmp(g0,g1,tol=1e-7):
    return max((abs(a[1]-b[1]) for a,b in zip(g0,g1) if a[1] is not None and b[1] is not None), default=0)
def run(seed,N=2000,jumps=True):
    rng=random.Random(seed); bad={}
    for k in range(N):
        pts=genenv(rng,jumps); e=E([list(p) for p in pts]); D=float(e.duration); T0=pts[0][0]; T1=pts[-1][0]
        jt=[a[0] for a,b in zip(pts,pts[1:]) if a[0]==b[0]]
        op=rng.choice(['sample','extend','cut_out','cut_off','split'])
        try:
            if op=='sample':
                t=rng.randint(0,int(T1*8)+6)/8
                g0=grid(e,-1,T1+2); e2=e.copy().sample_at(t); g1=grid(e2,-1,T1+2)
                haspt = any(abs(float(x)-t)<1e-12 for x in e2.absolute_time_tuple)
                ok = cmp(g0,g1)<1e-7 and haspt
                if not ok: bad.setdefault(op,[]).append((pts,t,cmp(g0,g1),haspt))
            elif op=='extend':
                t=rng.randint(0,int(T1*8)+8)/8
                g0=grid(e,-1,T1+3); e2=e.copy().extend_until(t); g1=grid(e2,-1,T1+3)
                ok = cmp(g0,g1)<1e-7 and float(e2.duration)>=max(t,T1)-1e-12
                if not ok: bad.setdefault(op,[]).append((pts,t,cmp(g0,g1),float(e2.duration)))
            elif op=='cut_out':
                a=rng.randint(0,int(T1*8)+4)/8; b=a+rng.randint(1,12)/8
                e2=e.copy().cut_out(a,b)
                g0=grid(e,a,b,skip=jt); g1=[(x,v) for (x,v) in grid(e2,a,b,off=-a,skip=jt)]
                ok=cmp(g0,g1)<1e-7 and abs(float(e2.duration)-(b-a))<1e-9
                if not ok: bad.setdefault(op,[]).append((pts,a,b,cmp(g0,g1),float(e2.duration)))
            elif op=='cut_off':
                a=rng.randint(0,int(T1*8)+4)/8; b=a+rng.randint(1,12)/8
                e2=e.copy().cut_off(a,b)
                # before a: same; after: shifted
                sk=jt+[a,b]
                g0=grid(e,-1,a,skip=sk); g1=grid(e2,-1,a,skip=sk)
                h0=grid(e,b,T1+2,skip=sk); h1=grid(e2,b,T1+2,off=-(b-a),skip=sk)
                ok=cmp(g0,g1)<1e-7 and cmp(h0,h1)<1e-7
                if not ok: bad.setdefault(op,[]).append((pts,a,b,cmp(g0,g1),cmp(h0,h1)))
            elif op=='split':
                if T1==0 and D==0: continue
                n=rng.randint(1,3); ts=sorted(set(rng.randint(0,int(D*8))/8 for _ in range(n)))
                snap=(e.value_tuple,e.curve_shape_tuple,tuple(map(float,e.absolute_time_tuple)))
                parts=e.split_at(*ts)
                ok = snap==(e.value_tuple,e.curve_shape_tuple,tuple(map(float,e.absolute_time_tuple)))
                cuts=sorted(set([0]+ts+[D])); w=0
                for (a,b),p in zip(zip(cuts,cuts[1:]),parts):
                    if b>a:
                        w=max(w,cmp(grid(e,a,b,skip=jt),grid(p,a,b,off=-a,skip=jt)))
                ok = ok and w<1e-7 and len(parts)==len(cuts)-1
                if not ok: bad.setdefault(op,[]).append((pts,ts,w,len(parts),len(cuts)-1))
        except Exception as ex:
            bad.setdefault(op+':'+type(ex).__name__,[]).append((pts,str(ex)[:90]))
    return bad
bad=run(int(sys.argv[1]), jumps=(sys.argv[2]=='1'))
for k,v in bad.items():
    print(k,len(v)); v.sort(key=lambda x: len(str(x[0])))
    for x in v[:4]: print('   ',x)
