From Coq Require Import ZArith List Reals.
Import ListNotations.
Set Implicit Arguments.
Record Num (F : Type) := {
  n0 : F; nadd : F -> F -> F; nsub : F -> F -> F; nmul : F -> F -> F; ndiv : F -> F -> F;
  nexp : F -> F; nleb : F -> F -> bool; neqb : F -> F -> bool; nofZ : Z -> F }.
Section M.
  Variable F : Type. Variable N : Num F.
  Definition seg (v0 v1 c p : F) : F :=
    if neqb N c (n0 N) then nadd N v0 (nmul N (nsub N v1 v0) p)
    else nadd N v0 (nmul N (ndiv N (nsub N v1 v0) (nsub N (nexp N c) (nofZ N 1))) (nsub N (nexp N (nmul N c p)) (nofZ N 1))).
  Fixpoint value_at (t0 : F) (evs : list (F * F * F)) (t : F) : F :=
    match evs with
    | [] => n0 N
    | (d, v, c) :: tl =>
      match tl with
      | [] => v
      | (_, v1, _) :: _ =>
        let t1 := nadd N t0 d in
        if nleb N t1 t then value_at t1 tl t
        else if nleb N t t0 then v else seg v v1 c (ndiv N (nsub N t t0) d)
      end
    end.
End M.
Definition RNum : Num R := {| n0 := 0%R; nadd := Rplus; nsub := Rminus; nmul := Rmult; ndiv := Rdiv; nexp := exp;
  nleb := fun a b => if Rle_dec a b then true else false; neqb := fun a b => if Req_EM_T a b then true else false; nofZ := IZR |}.
Definition value_at_R := value_at RNum.
Require Import ExtrOcamlBasic.
Extraction Language OCaml.
Extraction "model.ml" value_at seg.
