import math, random
from mutwo import core_events as ce, core_parameters as cp, core_converters as cc
E=ce.Envelope
def num_int(e, a, b, n=20000):
    h=(b-a)/n; return sum(e.value_at(a+(i+.5)*h) for i in range(n))*h
rng=random.Random(5)
worst=0
for k in range(60):
    n=rng.randint(1,4); ts=sorted(rng.choice([0,1,2,3,4,5,6,7,8])/2 for _ in range(n+1))
    pts=[[t, rng.uniform(-5,5), rng.choice([0,0,1,-2,3.5,-6])] for t in ts]
    e=E(pts); snap=(e.value_tuple,e.curve_shape_tuple,tuple(float(x) for x in e.absolute_time_tuple))
    a=rng.uniform(-1,5); b=a+rng.uniform(0,4)
    got=e.integrate_interval(a,b); ref=num_int(e.copy(),a,b)
    assert snap==(e.value_tuple,e.curve_shape_tuple,tuple(float(x) for x in e.absolute_time_tuple)), 'mutated'
    worst=max(worst,abs(got-ref))
    if abs(got-ref)>1e-4: print('BAD',pts,a,b,got,ref)
print('worst',worst)
t = cp.FlexTempo([[0,60,2],[4,30]])
print(sum(x.duration.beat_count for x in cc.TempoConverter(t).convert(ce.Consecution([ce.Chronon(1) for _ in range(4)]))), cc.TempoConverter(t).convert(ce.Consecution([ce.Chronon(4)]))[0].duration)
e=E([[0,0,3],[4,10]]); g=[e.value_at(x/4) for x in range(17)]; e.sample_at(1.3); print(max(abs(a-b) for a,b in zip(g,[e.value_at(x/4) for x in range(17)])), e.curve_shape_tuple)
