import warnings, logging
from mutwo import core_events as ce, core_parameters as cp, core_converters as cc
C, S, P, E = ce.Chronon, ce.Consecution, ce.Concurrence, ce.Envelope
def lab(e):
    if isinstance(e, C): return (getattr(e,'name',None), e.duration.beat_count)
    return (type(e).__name__[:4], [lab(x) for x in e])
def mk(name,d):
    c=C(d); c.name=name; return c
print("== D2: split nested")
s = S([S([mk('a',1), mk('b',1)]), mk('c',1)])
print([lab(x) for x in s.split_at(0.5)])
s = S([S([mk('a',1), mk('b',2)]), mk('c',1)])
print([lab(x) for x in s.split_at(1)])
s2 = S([S([mk('a',1), mk('b',2)]), mk('c',1)]); s2.split_child_at(1); print(lab(s2))
s2 = S([S([mk('a',1), mk('b',2)]), mk('c',1)]); s2.slide_in(1, mk('X',5)); print(lab(s2))
s2 = S([S([mk('a',1), mk('b',2)]), mk('c',1)]); s2.squash_in(1, mk('X',0.5)); print('squash',lab(s2))
print("== D1")
e = E([[0,0,3],[4,10]])
print(e.curve_shape_tuple, e.curve_shape_at(1), e.curve_shape_tuple)
e = E([[0,1,3],[4,10]])
a=e.copy().integrate_interval(0,4); b=e.copy().integrate_interval(0,2)+e.copy().integrate_interval(2,4); 
print('additivity', a,b)
t = cp.FlexTempo([[0,60,2],[4,30]])
conv = cc.TempoConverter(t)
print(sum(x.duration.beat_count for x in conv.convert(S([C(1) for _ in range(4)]))), cc.TempoConverter(t).convert(S([C(4)]))[0].duration)
print("== D3")
e = E([[0,0],[1,2]]); e.sample_at(.5); print(lab(e), e.value_tuple, e.value_at(.75))
print("== D4")
src = S([C(2)], tempo=cp.FlexTempo([[0,60],[1,60]]))
print(src.tempo.duration, end=' '); r = cc.TempoConverter(60).convert(src); print(src.tempo.duration, r.tempo is src.tempo)
dc = src.destructive_copy(); print(dc.tempo is src.tempo)
print("== D5")
print(S([C(1)]) == P([C(1)]), P([C(1)]) == S([C(1)]), S([])==P([]))
print("== F1")
print(cp.FlexTempo([[0,60],[1,30]]) == cp.FlexTempo([[0,60],[1,90]]), cp.FlexTempo([[0,60],[1,30]]) == cp.DirectTempo(60))
print(S([C(1)], tempo=cp.FlexTempo([[0,60],[1,30]])) == S([C(1)], tempo=cp.FlexTempo([[0,60],[1,90]])))
