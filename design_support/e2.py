import logging; logging.disable(logging.CRITICAL)
from fractions import Fraction as Fr
from mutwo import core_events as ce, core_parameters as cp, core_converters as cc, core_utilities as cu
C,S,P,E=ce.Chronon,ce.Consecution,ce.Concurrence,ce.Envelope
def tp(t): 
    if isinstance(t, cp.FlexTempo): return [(float(a), v, c) for a,v,c in zip(t.absolute_time_tuple, t.value_tuple, t.curve_shape_tuple)]
    return t.bpm
print("== C12 add")
a=S([C(1),C(2)], tempo=cp.FlexTempo([[0,60],[1,30]])); b=S([C(3)], tempo=cp.DirectTempo(120))
r=a+b; print(tp(r.tempo), tp(a.tempo), tp(b.tempo), [x.duration.beat_count for x in r])
a=S([C(1),C(2)], tempo=cp.FlexTempo([[0,60],[5,30]])); b=S([C(3)], tempo=cp.FlexTempo([[0,100],[3,50]]))
r=a+b; print(tp(r.tempo), tp(a.tempo), tp(b.tempo))
a=S([C(1),C(2)]); b=S([C(3)], tempo=cp.DirectTempo(120)); r=a+b; print(tp(r.tempo), tp(a.tempo), tp(b.tempo))
print("== C12 concat by index")
x=P([S([C(1)],tag='a'),S([C(2)],tag='b')]); y=P([S([C(3)],tag='a'),S([C(1)],tag='b'),S([C(5)],tag='c')])
x.concatenate_by_index(y); print(x, '|', y)
x=P([S([C(1)],tag='a'),S([C(2)],tag='b')]); y=P([S([C(3)],tag='b'),S([C(5)],tag='c')])
x.concatenate_by_tag(y); print(x, '|', y, tp(y.tempo), tp(y[0].tempo))
print("== C13 metrize")
e=S([C(1),S([C(2)],tempo=cp.DirectTempo(30))], tempo=cp.DirectTempo(120)); m=cc.EventToMetrizedEvent().convert(e); print(m, tp(m.tempo), tp(m[1].tempo), tp(m[0].tempo), e, tp(e.tempo))
c=C(2); c.tempo=cp.DirectTempo(30); e=S([c], tempo=cp.DirectTempo(120)); m=e.copy().metrize(); print(m, tp(m[0].tempo))
print("== C16")
x=C(1); s=S([x, S([x, C(2)]), x]); s.set_parameter('duration', lambda d: d*2); print(s)
sub=S([C(1)]); s=P([sub, S([sub])]); s.set_parameter('duration', lambda d: d*2); print(s)
s=S([C(1),C(2),C(3)]); s.duration=Fr(7,3); print(s, s.duration)
x=C(1); s=S([x,x,C(2)]); s.duration=8; print(s, s.duration)
print("== C17")
print(C(1)==1, C(1)!=None, S([C(1)])==[C(1)], [C(1)]==S([C(1)]), S([C(1)]) == E([[0,1]]))
a=C(1); b=C(1); b.foo=3; print(a==b,b==a)
print(C(1)==C(1.00000000001), C(1)==C(1.0000000001), S([C(1)],tag='x')==S([C(1)]), C(1,tag='q')==C(1))
print("== C18")
D=cp.DirectDuration; R=cp.RatioDuration
print(D(1)==R(1), D(0.5)<R('2/3'), R('1/3')+R('1/3'), (R('1/3')+R('1/3')).ratio, D(1)==1.0, 1.0==D(1), D(1)<2, 2>D(1), D(2)>=Fr(2))
d=R('1/3'); d2=d.add(1); print(d2 is d, d.beat_count, d.ratio)
try: print(D(1) < "a")
except Exception as ex: print(type(ex).__name__)
for o in ['1','1.5','3/4','abc',None,[1],(1,2),'[[0,60],[1,30]]', True]:
    for cls in (cp.abc.Duration, cp.abc.Tempo):
        try: r=cls.from_any(o); print(cls.__name__, repr(o), '->', repr(r)[:50])
        except Exception as ex: print(cls.__name__, repr(o), 'ERR', type(ex).__name__)
print(cp.WesternTempo(60, reference=2).bpm, cp.WesternTempo(60, reference=2).seconds, cp.DirectTempo(0).bpm)
