From Coq Require Import ZArith List Bool Lia ZifyBool.
Import ListNotations.
Open Scope Z_scope.

Inductive res (A : Type) := Ok (a : A) | Err (k : nat).
Arguments Ok {A} a. Arguments Err {A} k.
Definition bind {A B} (r : res A) (f : A -> res B) : res B :=
  match r with Ok a => f a | Err k => Err k end.
Notation "x <- e ; f" := (bind e (fun x => f)) (at level 60, right associativity).

Inductive ev := Leaf (d : Z) (l : nat) | Seq (cs : list ev) | Sim (cs : list ev).

Fixpoint dur (e : ev) : Z :=
  match e with
  | Leaf d _ => d
  | Seq cs => (fix go l := match l with [] => 0 | c :: r => dur c + go r end) cs
  | Sim cs => (fix go l := match l with [] => 0 | c :: r => Z.max (dur c) (go r) end) cs
  end.
Definition dsum := fix go (l : list ev) := match l with [] => 0 | c :: r => dur c + go r end.
Definition dmax := fix go (l : list ev) := match l with [] => 0 | c :: r => Z.max (dur c) (go r) end.

Fixpoint wf (e : ev) : Prop :=
  match e with
  | Leaf d _ => 0 <= d
  | Seq cs | Sim cs => (fix go l := match l with [] => True | c :: r => wf c /\ go r end) cs
  end.
Definition wfs := fix go (l : list ev) := match l with [] => True | c :: r => wf c /\ go r end.

(* what is active at time t *)
Inductive slice := SL (l : nat) | SN (vs : list slice).
Fixpoint at_ (e : ev) (t : Z) : option slice :=
  match e with
  | Leaf d l => if (0 <=? t) && (t <? d) then Some (SL l) else None
  | Seq cs => (fix go l t := match l with [] => None | c :: r =>
                 if (0 <=? t) && (t <? dur c) then at_ c t else go r (t - dur c) end) cs t
  | Sim cs => match (fix go l := match l with [] => [] | c :: r =>
                 match at_ c t with Some s => s :: go r | None => go r end end) cs with
              | [] => None | vs => Some (SN vs) end
  end.
Definition at_seq := fix go (l : list ev) (t : Z) := match l with [] => None | c :: r =>
                 if (0 <=? t) && (t <? dur c) then at_ c t else go r (t - dur c) end.

(* Chronon.cut_out / Consecution.cut_out / Concurrence.cut_out (argument validation elided) *)
Fixpoint cut_out (e : ev) (s en : Z) : res ev :=
  match e with
  | Leaf d l =>
      let diff := (if 0 <? s then s else 0) + (if en <? d then d - en else 0) in
      if d <=? diff then Err 1%nat else Ok (Leaf (d - diff) l)
  | Seq cs =>
      r <- (fix go (t0 : Z) (l : list ev) : res (list ev) :=
         match l with
         | [] => Ok []
         | c :: r =>
           let d := dur c in let t1 := t0 + d in
           let a := if t0 <? s then s - t0 else 0 in
           let b := if en <? t1 then d - (t1 - en) else d in
           if a <? b then (c' <- cut_out c a b ; r' <- go t1 r ; Ok (c' :: r'))
           else if (d =? 0) && (s <=? t0) && (t0 <=? en) then (r' <- go t1 r ; Ok (c :: r'))
           else go t1 r
         end) 0 cs ; Ok (Seq r)
  | Sim cs =>
      r <- (fix go (l : list ev) : res (list ev) :=
         match l with [] => Ok [] | c :: r => c' <- cut_out c s en ; r' <- go r ; Ok (c' :: r') end) cs ;
      Ok (Sim r)
  end.
Definition co_seq (s en : Z) := fix go (t0 : Z) (l : list ev) : res (list ev) :=
         match l with
         | [] => Ok []
         | c :: r =>
           let d := dur c in let t1 := t0 + d in
           let a := if t0 <? s then s - t0 else 0 in
           let b := if en <? t1 then d - (t1 - en) else d in
           if a <? b then (c' <- cut_out c a b ; r' <- go t1 r ; Ok (c' :: r'))
           else if (d =? 0) && (s <=? t0) && (t0 <=? en) then (r' <- go t1 r ; Ok (c :: r'))
           else go t1 r
         end.
Definition co_sim (s en : Z) := fix go (l : list ev) : res (list ev) :=
         match l with [] => Ok [] | c :: r => c' <- cut_out c s en ; r' <- go r ; Ok (c' :: r') end.

(* induction principle for the nested type *)
Lemma ev_ind' (P : ev -> Prop)
  (HL : forall d l, P (Leaf d l))
  (HS : forall cs, Forall P cs -> P (Seq cs))
  (HP : forall cs, Forall P cs -> P (Sim cs)) : forall e, P e.
Proof.
  fix IH 1. intros [d l|cs|cs]; [apply HL|apply HS|apply HP];
  induction cs as [|c r IHr]; constructor; auto.
Qed.

Lemma dur_nonneg e : wf e -> 0 <= dur e.
Proof.
  induction e as [d l|cs IH|cs IH] using ev_ind'; simpl; intros H; [lia| |].
  - induction cs as [|c r IHr]; simpl in *; [lia|]. inversion IH; subst. destruct H. specialize (IHr H3 H0). specialize (H2 H). lia.
  - induction cs as [|c r IHr]; simpl in *; [lia|]. inversion IH; subst. destruct H. specialize (IHr H3 H0). lia.
Qed.

Definition spec_dur (e : ev) (s en : Z) := Z.max 0 (Z.min en (dur e) - s).

Theorem cutout_dur : forall e s en e', wf e -> 0 <= s -> s <= en ->
  cut_out e s en = Ok e' -> dur e' = spec_dur e s en /\ wf e'.
Proof.
  induction e as [d l|cs IH|cs IH] using ev_ind'; intros s en e' Hwf Hs Hse H.
  - unfold spec_dur. simpl in *. destruct (0 <? s) eqn:?, (en <? d) eqn:?;
    match type of H with (if ?c then _ else _) = _ => destruct c eqn:? end; inversion H; subst; simpl; lia.
  - change (cut_out (Seq cs) s en) with (r <- co_seq s en 0 cs ; Ok (Seq r)) in H.
    destruct (co_seq s en 0 cs) as [r|k] eqn:E; simpl in H; [|discriminate]. inversion H; subst e'; clear H.
    change (dur (Seq r)) with (dsum r). change (wf (Seq r)) with (wfs r).
    change (wf (Seq cs)) with (wfs cs) in Hwf.
    unfold spec_dur. change (dur (Seq cs)) with (dsum cs).
    (* generalise over the running start time *)
    assert (G : forall t0 r, 0 <= t0 -> co_seq s en t0 cs = Ok r ->
                dsum r = Z.max 0 (Z.min en (t0 + dsum cs) - Z.max s t0) /\ wfs r).
    { clear E r. induction cs as [|c rest IHrest]; intros t0 r Ht0 E.
      - simpl in E. inversion E; subst. simpl. split; [lia|exact I].
      - inversion IH as [|? ? Hc Hrest]; subst. destruct Hwf as [Hwc Hwr].
        specialize (IHrest Hrest Hwr).
        pose proof (dur_nonneg c Hwc) as Hd.
        assert (Hdr : 0 <= dsum rest).
        { clear -Hwr. induction rest; simpl in *; [lia|]. destruct Hwr. pose proof (dur_nonneg a H). specialize (IHrest H0). lia. }
        cbn [co_seq] in E. fold (co_seq s en) in E.
        set (d := dur c) in *. 
        destruct (t0 <? s) eqn:Ea; destruct (en <? t0 + d) eqn:Eb; cbv zeta in E;
        match type of E with (if ?c then _ else _) = _ => destruct c eqn:Ec end.
        all: try (destruct (cut_out c _ _) as [c'|] eqn:Ecc; simpl in E; [|discriminate];
                  destruct (co_seq s en (t0 + d) rest) as [r'|] eqn:Er; simpl in E; [|discriminate];
                  inversion E; subst r; clear E;
                  apply Hc in Ecc; [|assumption|lia|lia]; destruct Ecc as [Ecc Hwc']; unfold spec_dur in Ecc; fold d in Ecc;
                  apply IHrest in Er; [|lia]; destruct Er as [Er Hwr'];
                  split; [cbn [dsum]; fold dsum; rewrite Ecc, Er; cbn [dsum]; fold dsum; fold d; lia | split; assumption]).
        all: match type of E with (if ?c then _ else _) = _ => destruct c eqn:Ez end.
        all: try (destruct (co_seq s en (t0 + d) rest) as [r'|] eqn:Er; simpl in E; [|discriminate];
                  inversion E; subst r; clear E; apply IHrest in Er; [|lia]; destruct Er as [Er Hwr'];
                  split; [cbn [dsum]; fold dsum; fold d; rewrite Er; lia | split; assumption]).
        all: apply IHrest in E; [|lia]; destruct E as [E Hwr']; split; [rewrite E; cbn [dsum]; fold dsum; fold d; lia|assumption]. }
    specialize (G 0 r ltac:(lia) E). destruct G as [G1 G2]. split; [rewrite G1; lia|exact G2].
  - change (cut_out (Sim cs) s en) with (r <- co_sim s en cs ; Ok (Sim r)) in H.
    destruct (co_sim s en cs) as [r|k] eqn:E; simpl in H; [|discriminate]. inversion H; subst e'; clear H.
    change (dur (Sim r)) with (dmax r). change (wf (Sim r)) with (wfs r).
    change (wf (Sim cs)) with (wfs cs) in Hwf. unfold spec_dur. change (dur (Sim cs)) with (dmax cs).
    revert r E. induction cs as [|c rest IHrest]; intros r E.
    + simpl in E. inversion E; subst. simpl. split; [lia|exact I].
    + inversion IH as [|? ? Hc Hrest]; subst. destruct Hwf as [Hwc Hwr].
      cbn [co_sim] in E. fold (co_sim s en) in E.
      destruct (cut_out c s en) as [c'|] eqn:Ecc; simpl in E; [|discriminate].
      destruct (co_sim s en rest) as [r'|] eqn:Er; simpl in E; [|discriminate].
      inversion E; subst r; clear E.
      apply Hc in Ecc; auto. destruct Ecc as [Ecc Hwc']. unfold spec_dur in Ecc.
      destruct (IHrest Hrest Hwr r' eq_refl) as [Er' Hwr'].
      pose proof (dur_nonneg c Hwc).
      split; [cbn [dmax]; fold dmax; rewrite Ecc, Er'; cbn [dmax]; fold dmax; lia|split; assumption].
Qed.
Print Assumptions cutout_dur.

Lemma dsum_nonneg l : wfs l -> 0 <= dsum l.
Proof. induction l as [|a l IH]; simpl; [lia|]. intros [H1 H2]. pose proof (dur_nonneg a H1). specialize (IH H2). lia. Qed.

Definition at_sim (t : Z) := fix go (l : list ev) : list slice := match l with [] => [] | c :: r =>
                 match at_ c t with Some s => s :: go r | None => go r end end.

Lemma at_outside e t : wf e -> (t < 0 \/ dur e <= t) -> at_ e t = None.
Proof.
  revert t. induction e as [d l|cs IH|cs IH] using ev_ind'; intros t Hwf Ht.
  - simpl in *. destruct (0 <=? t) eqn:?, (t <? d) eqn:?; simpl; auto; lia.
  - change (at_ (Seq cs) t) with (at_seq cs t). change (wf (Seq cs)) with (wfs cs) in Hwf.
    change (dur (Seq cs)) with (dsum cs) in Ht.
    revert t Ht. induction cs as [|c r IHr]; intros t Ht; [reflexivity|].
    inversion IH; subst. destruct Hwf as [Hc Hr]. cbn [at_seq]. fold at_seq.
    pose proof (dur_nonneg c Hc). pose proof (dsum_nonneg r Hr). cbn [dsum] in Ht; fold dsum in Ht.
    destruct ((0 <=? t) && (t <? dur c)) eqn:E.
    + apply H1; auto. lia.
    + apply IHr; auto. lia.
  - change (at_ (Sim cs) t) with (match at_sim t cs with [] => None | vs => Some (SN vs) end).
    change (wf (Sim cs)) with (wfs cs) in Hwf. change (dur (Sim cs)) with (dmax cs) in Ht.
    assert (at_sim t cs = []) as ->; [|reflexivity].
    induction cs as [|c r IHr]; [reflexivity|]. inversion IH; subst. destruct Hwf as [Hc Hr].
    cbn [at_sim]; fold (at_sim t). cbn [dmax] in Ht; fold dmax in Ht.
    rewrite H1; auto; [|lia]. apply IHr; auto. lia.
Qed.

Theorem cutout_at : forall e s en e', wf e -> 0 <= s -> s <= en ->
  cut_out e s en = Ok e' ->
  forall x, at_ e' x = if (0 <=? x) && (x <? spec_dur e s en) then at_ e (s + x) else None.
Proof.
  induction e as [d l|cs IH|cs IH] using ev_ind'; intros s en e' Hwf Hs Hse H x.
  - unfold spec_dur. simpl in *. destruct (0 <? s) eqn:?, (en <? d) eqn:?;
    match type of H with (if ?c then _ else _) = _ => destruct c eqn:? end; inversion H; subst; simpl;
    repeat match goal with |- context [if ?c then _ else _] => destruct c eqn:? end; auto; lia.
  - change (cut_out (Seq cs) s en) with (r <- co_seq s en 0 cs ; Ok (Seq r)) in H.
    destruct (co_seq s en 0 cs) as [r|k] eqn:E; simpl in H; [|discriminate]. inversion H; subst e'; clear H.
    change (at_ (Seq r) x) with (at_seq r x). change (at_ (Seq cs) (s + x)) with (at_seq cs (s + x)).
    change (wf (Seq cs)) with (wfs cs) in Hwf. unfold spec_dur. change (dur (Seq cs)) with (dsum cs).
    assert (G : forall t0 r, 0 <= t0 -> co_seq s en t0 cs = Ok r -> forall x,
                at_seq r x = if (0 <=? x) && (x <? Z.max 0 (Z.min en (t0 + dsum cs) - Z.max s t0))
                             then at_seq cs (Z.max s t0 - t0 + x) else None).
    { clear E r x. induction cs as [|c rest IHrest]; intros t0 r Ht0 E x.
      - simpl in E. inversion E; subst. simpl. destruct (_ && _); reflexivity.
      - inversion IH as [|? ? Hc Hrest]; subst. destruct Hwf as [Hwc Hwr].
        specialize (IHrest Hrest Hwr).
        pose proof (dur_nonneg c Hwc) as Hd. pose proof (dsum_nonneg rest Hwr) as Hdr.
        cbn [co_seq] in E. fold (co_seq s en) in E. cbn [dsum at_seq]; fold dsum; fold at_seq.
        set (d := dur c) in *.
        destruct (t0 <? s) eqn:Ea; destruct (en <? t0 + d) eqn:Eb; cbv beta iota zeta in E;
        match type of E with (if ?c then _ else _) = _ => destruct c eqn:Ec end.
        all: try (destruct (cut_out c _ _) as [c'|] eqn:Ecc; simpl in E; [|discriminate];
                  destruct (co_seq s en (t0 + d) rest) as [r'|] eqn:Er; simpl in E; [|discriminate];
                  inversion E; subst r; clear E;
                  match type of Ecc with cut_out _ ?A ?B = _ =>
                    assert (Ha : 0 <= A) by lia; assert (Hb : A <= B) by lia;
                    pose proof (Hc A B c' Hwc Ha Hb Ecc) as Hat;
                    pose proof (cutout_dur c A B c' Hwc Ha Hb Ecc) as [Edc _] end;
                  unfold spec_dur in Edc; fold d in Edc;
                  unfold spec_dur in Hat; fold d in Hat;
                  assert (Ht1 : 0 <= t0 + d) by lia; pose proof (IHrest (t0 + d) r' Ht1 Er) as Hr;
                  cbn [at_seq]; fold at_seq; rewrite Edc;
                  rewrite Hr; rewrite Hat;
                  repeat match goal with |- context [if ?c then _ else _] => destruct c eqn:? end;
                  try reflexivity; try lia;
                  try (f_equal; lia);
                  try (symmetry; apply at_outside; [assumption|fold d; lia])).
        all: try match type of E with (if ?c then _ else _) = _ => destruct c eqn:Ez end.
        all: try (destruct (co_seq s en (t0 + d) rest) as [r'|] eqn:Er; simpl in E; [|discriminate];
                  inversion E; subst r; clear E; assert (Ht1 : 0 <= t0 + d) by lia; pose proof (IHrest (t0 + d) r' Ht1 Er) as Hr;
                  cbn [at_seq]; fold at_seq; fold d; rewrite Hr;
                  repeat match goal with |- context [if ?c then _ else _] => destruct c eqn:? end;
                  try reflexivity; try lia; try (f_equal; lia)).
        all: try (assert (Ht1 : 0 <= t0 + d) by lia; pose proof (IHrest (t0 + d) r Ht1 E) as Hr; rewrite Hr;
                  repeat match goal with |- context [if ?c then _ else _] => destruct c eqn:? end;
                  try reflexivity; try lia; try (f_equal; lia);
                  try (symmetry; apply at_outside; [assumption|fold d; lia])).
      }
    specialize (G 0 r ltac:(lia) E x). rewrite G.
    replace (Z.max s 0 - 0 + x) with (s + x) by lia. replace (Z.max s 0) with s by lia.
    replace (0 + dsum cs) with (dsum cs) by lia. reflexivity.
  - change (cut_out (Sim cs) s en) with (r <- co_sim s en cs ; Ok (Sim r)) in H.
    destruct (co_sim s en cs) as [r|k] eqn:E; simpl in H; [|discriminate]. inversion H; subst e'; clear H.
    change (at_ (Sim r) x) with (match at_sim x r with [] => None | vs => Some (SN vs) end).
    change (at_ (Sim cs) (s + x)) with (match at_sim (s + x) cs with [] => None | vs => Some (SN vs) end).
    change (wf (Sim cs)) with (wfs cs) in Hwf. unfold spec_dur. change (dur (Sim cs)) with (dmax cs).
    assert (G : at_sim x r = if (0 <=? x) && (s + x <? en) then at_sim (s + x) cs else []).
    { revert r E. induction cs as [|c rest IHrest]; intros r E.
      - simpl in E. inversion E; subst. simpl. destruct (_ && _); reflexivity.
      - inversion IH as [|? ? Hc Hrest]; subst. destruct Hwf as [Hwc Hwr].
        cbn [co_sim] in E. fold (co_sim s en) in E.
        destruct (cut_out c s en) as [c'|] eqn:Ecc; simpl in E; [|discriminate].
        destruct (co_sim s en rest) as [r'|] eqn:Er; simpl in E; [|discriminate].
        inversion E; subst r; clear E.
        pose proof (Hc s en c' Hwc Hs Hse Ecc x) as Hat. unfold spec_dur in Hat.
        specialize (IHrest Hrest Hwr r' eq_refl).
        cbn [at_sim]. fold (at_sim x). fold (at_sim (s + x)). rewrite Hat, IHrest.
        pose proof (dur_nonneg c Hwc) as Hd.
        destruct ((0 <=? x) && (s + x <? en)) eqn:E1; destruct ((0 <=? x) && (x <? Z.max 0 (Z.min en (dur c) - s))) eqn:E2;
          try reflexivity; try lia.
        all: try (rewrite (at_outside c (s + x) Hwc); [reflexivity|lia]). }
    rewrite G.
    assert (Hmax : forall t, dmax cs <= t -> at_sim t cs = []).
    { intros t Ht. clear G E. induction cs as [|c rest IHrest]; [reflexivity|].
      inversion IH; subst. destruct Hwf as [Hwc Hwr]. cbn [dmax] in Ht; fold dmax in Ht.
      cbn [at_sim]; fold (at_sim t). rewrite (at_outside c t Hwc); [|lia]. apply IHrest; auto. lia. }
    assert (Hneg : forall t, t < 0 -> at_sim t cs = []).
    { intros t Ht. clear G E Hmax. induction cs as [|c rest IHrest]; [reflexivity|].
      inversion IH; subst. destruct Hwf as [Hwc Hwr].
      cbn [at_sim]; fold (at_sim t). rewrite (at_outside c t Hwc); [|lia]. apply IHrest; auto. }
    destruct ((0 <=? x) && (s + x <? en)) eqn:E1; destruct ((0 <=? x) && (x <? Z.max 0 (Z.min en (dmax cs) - s))) eqn:E2;
      try reflexivity; try lia.
    rewrite Hmax; [reflexivity|lia].
Qed.
Print Assumptions cutout_at.
