from spec import *
def tl(s): return [(p,l,a,b) for (p,l,a,b) in leaves(s)]
def exp_cut_off(s0,a,b):
    out=[]
    for (p,l,s,e) in leaves(s0):
        if s==e:
            if s<a: out.append((p,l,s,e))
            elif s>=b: out.append((p,l,s-(b-a),e-(b-a)))
        else:
            ov=max(0,min(e,b)-max(s,a)); n=(e-s)-ov
            if n>0:
                ns = s if s<a else max(s,b)-(b-a)
                out.append((p,l,ns,ns+n))
    return out
def run(seed,N=4000,sim=False):
    rng=random.Random(seed); bad={}
    for k in range(N):
        e=gen(rng,3,sim,zero_p=.3); s0=snap(e); D=dur(s0)
        if s0[0]=='L': continue
        op=rng.choice(['cut_off','squash'])
        try:
            if op=='cut_off':
                a=rng.randint(0,D+1); b=rng.randint(a+1,D+3)
                e.cut_off(a/U,b/U); s1=snap(e)
                # compare ignoring sim paths shifts: cut_off keeps voices (no deletion of voices? children of Sim never deleted)
                got=[(l,x,y) for (_,l,x,y) in leaves(s1)]; ex=[(l,x,y) for (_,l,x,y) in exp_cut_off(s0,a,b)]
                if got!=ex: bad.setdefault(op,[]).append((s0,a,b,s1))
            else:
                if s0[0]!='S': continue
                st=rng.randint(0,D); d=rng.choice([0,1,2,5])
                x=C(d/U); x.name='X'; e.squash_in(st/U,x); s1=snap(e)
                ex=[]
                for (l,s,en) in [(l,s,en) for (_,l,s,en) in exp_cut_off(s0,st,st+d)] if d>0 else [(l,s,en) for (_,l,s,en) in leaves(s0)]:
                    ex.append((l,s,en))
                # after cut_off gap closed; squash shifts everything at >= st by d and splits leaf under st
                got=[(l,a_,b_) for (_,l,a_,b_) in leaves(s1) if l!='X']
                # normalise: merge split halves of same label adjacent
                def unshift(l,a_,b_):
                    return (l, a_ if a_<st or (a_==st and False) else a_-d, b_ if b_<=st else b_-d)
                got2=[]
                for (l,a_,b_) in got:
                    if a_>=st+d and d>0 or (a_>=st and d==0 and False): a2,b2=a_-d,b_-d
                    elif a_>=st+d: a2,b2=a_-d,b_-d
                    else: a2,b2=a_,b_
                    if got2 and got2[-1][0]==l and got2[-1][2]==a2 and a2==st: got2[-1]=(l,got2[-1][1],b2)
                    else: got2.append((l,a2,b2))
                xs=[(a_,b_) for (_,l,a_,b_) in leaves(s1) if l=='X']
                if got2!=ex or xs!=[(st,st+d)]: bad.setdefault(op,[]).append((s0,st,d,s1,got2,ex))
        except Exception as ex_:
            bad.setdefault(op+':'+type(ex_).__name__,[]).append((s0,str(ex_)[:80]))
    return bad
bad=run(int(sys.argv[1]))
for k,v in bad.items():
    print(k,len(v)); v.sort(key=lambda x:len(str(x[0])))
    for x in v[:3]: print('   ',x)
