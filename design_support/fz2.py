from spec import *
def ok_tree_for_insert(s):
    # squash/slide defined: Seq at top, or Sim whose children are containers (recursively)
    if s[0]=='L': return False
    if s[0]=='S': return True
    return all(ok_tree_for_insert(c) for c in s[1])
def run(seed, N=4000):
    rng = random.Random(seed); bad = {}
    for k in range(N):
        e = gen(rng, 3, True); s0 = snap(e); D = dur(s0)
        op = rng.choice(['squash','slide','lookup','split_child','seqz','extend'])
        try:
            if op in ('squash','slide'):
                if not ok_tree_for_insert(s0): 
                    continue
                st = rng.randint(0, D); d = rng.choice([0,0,1,2,3,5,9])
                x = C(d/U); x.name='X'
                if op=='squash':
                    e.squash_in(st/U, x); s1=snap(e)
                    def exp_at(t):
                        if st<=t<st+d: return 'X'
                        return at(s0,t)
                    expD = max(D, st+d)
                else:
                    e.slide_in(st/U, x); s1=snap(e)
                    def exp_at(t):
                        if t<st: return at(s0,t)
                        if t<st+d: return 'X'
                        return at(s0,t-d)
                    expD = D+d
                # compare modulo X nesting: at() of s1 where voice contains X -> for Sim it's tuple
                def norm(v, ins):
                    return v
                def exp_full(sx, t):
                    # expected slice for possibly Sim-top tree: apply per voice
                    if sx[0]=='S':
                        return exp_at_for(sx, t)
                    l=[y for y in (exp_full(c,t) for c in sx[1]) if y is not None]
                    return tuple(l) if l else None
                def exp_at_for(sx, t):
                    if op=='squash':
                        if st<=t<st+d: return 'X'
                        return at(sx,t)
                    else:
                        if t<st: return at(sx,t)
                        if t<st+d: return 'X'
                        return at(sx,t-d)
                ok = all(at(s1,t)==exp_full(s0,t) for t in range(-1, expD+2))
                # duration: for Sim top each voice: max(dur voice, st+d) / dur voice + d
                if s0[0]=='S': ok = ok and dur(s1)==expD
                nX = sum(1 for l in leaves(s1) if l[1]=='X')
                if not ok: bad.setdefault(op,[]).append((s0,st,d,s1))
            elif op=='lookup':
                if s0[0]!='S': continue
                for t in range(-1, D+2):
                    i = e.get_event_index_at(t/U)
                    o=0; exp=None
                    for j,c in enumerate(s0[1]):
                        dd=dur(c)
                        if o<=t<o+dd: exp=j
                        o+=dd
                    if i!=exp: bad.setdefault(op,[]).append((s0,t,i,exp))
                abst=[tk(x) for x in e.absolute_time_tuple]; o=0
                for j,c in enumerate(s0[1]):
                    assert abst[j]==o; o+=dur(c)
            elif op=='split_child':
                if s0[0]=='L' or D==0: continue
                t = rng.randint(0,D-1)
                e.split_child_at(t/U); s1=snap(e)
                ok = dur(s1)==D and profile(s1)==profile(s0)
                # boundary exists at t (top-level if Seq; in each voice if Sim)
                if s1[0]=='S':
                    o=0; starts=[]
                    for c in s1[1]: starts.append(o); o+=dur(c)
                    ok = ok and t in starts
                if not ok: bad.setdefault(op,[]).append((s0,t,s1))
            elif op=='seqz':
                if s0[0]!='P': continue
                r = e.sequentialize(); s1=snap(r)
                ok = snap(e)==s0 and dur(s1)==D and profile(s1)==profile(s0)
                rect=True
                for sl in s1[1]:
                    rect = rect and sl[0]=='P' and len(set(dur(c) for c in sl[1]))<=1
                if not ok: bad.setdefault(op,[]).append((s0,s1))
                elif not rect:
                    zero = any(dur(c)==0 for c in s0[1])
                    bad.setdefault(op+':nonrect:zero_voice=%s'%zero,[]).append((s0,s1))
            elif op=='extend':
                if s0[0]=='L': continue
                d = rng.randint(0, D+5)
                e.extend_until(d/U); s1=snap(e)
                e.extend_until(d/U); s2=snap(e)
                ok = dur(s1)==max(D,d) and (s0[0]=='P' or all(at(s1,t)==at(s0,t) for t in range(-1,D))) and s1==s2
                if not ok: bad.setdefault(op,[]).append((s0,d,s1,s2))
        except Exception as ex:
            bad.setdefault(op+':'+type(ex).__name__,[]).append((s0, str(ex)[:100]))
    return bad
bad = run(int(sys.argv[1]))
for k,v in bad.items():
    print(k, len(v)); 
    v.sort(key=lambda x: len(str(x[0])))
    for x in v[:4]: print('   ', x)
