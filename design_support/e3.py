import logging, random, itertools; logging.disable(logging.CRITICAL)
from mutwo import core_events as ce, core_parameters as cp, core_converters as cc, core_utilities as cu
C,S,P,E=ce.Chronon,ce.Consecution,ce.Concurrence,ce.Envelope
def mk(k,d): c=C(d); c.k=k; return c
rng=random.Random(1)
bad=0
for it in range(3000):
    n=rng.randint(0,7); ks=[rng.randint(0,2) for _ in range(n)]; ds=[rng.randint(0,4) for _ in range(n)]
    rem = rng.random()<.5
    s=S([mk(k,d) for k,d in zip(ks,ds)]); D=s.duration.beat_count
    s.tie_by(lambda a,b: a.k==b.k, event_to_remove=rem)
    exp=[(k,sum(d for _,d in g)) for k,g in itertools.groupby(zip(ks,ds), key=lambda x:x[0])]
    got=[(c.k,c.duration.beat_count) for c in s]
    if got!=exp: bad+=1; print(ks,ds,rem,got,exp)
print('tie_by flat bad',bad)
# nested restricted to leaves
s=S([mk(0,1), S([mk(0,1),mk(0,2),P([mk(1,1),mk(1,1)])]), mk(0,1), mk(0,3), S([mk(2,1),mk(2,1)])])
s.tie_by(lambda a,b:a.k==b.k, event_type_to_examine=C); print(s)
s=S([S([mk(2,1),mk(2,1)]), mk(0,1)]); s.tie_by(lambda a,b:a.k==b.k, event_type_to_examine=C); print(s)
s=S([mk(0,1), S([mk(2,1),mk(2,1)]), S([mk(2,1),mk(2,1)])]); s.tie_by(lambda a,b:a.k==b.k, event_type_to_examine=C); print(s)
# tags
s=S([C(1,tag='a'),C(2,tag='b'),C(3,tag='a'),C(4)]); print(s['a'].duration, s['b'].duration); del s['a']; print(s, s['a'].duration)
try: s['zz']
except KeyError as e: print('KeyError')
s2=S([C(1)],tag='T',tempo=cp.DirectTempo(33)); print((s2*3).tag,(s2*3).tempo,(s2[0:1]).tag,(s2+s2).tag, type(s2[0:1]).__name__, (s2*2)[0] is (s2*2)[1])
p2=P([C(1)],tag='T'); print(type(p2+p2).__name__, (p2+p2).tag, type(p2*2).__name__)
s.remove_by(lambda e: e.duration>2); print(s)
# C20
print(cu.scale(1,0,1,0,100,20), cu.scale(0.999999,0,1,0,100,-20), cu.scale(0.5,0,1,5,5,3))
print(cu.scale_sequence_to_sum([1,3,2],3), cu.scale_sequence_to_sum([0,0],3), cu.scale_sequence_to_sum([],3), cu.scale_sequence_to_sum((1,-1),3))
print(cu.find_closest_index(3,(1,5)), cu.find_closest_index(3,(5,1)), cu.find_closest_index(3,(5,1,5,1)), cu.find_closest_item(2.5,(1,2,3,4)))
print(cu.uniqify_sequence([3,1,3,2,1]), cu.uniqify_sequence((3,1,3)), list(cu.cyclic_permutations([])), cu.find_numbers_which_sums_up_to(3))
try: print(cu.find_numbers_which_sums_up_to(3.0))
except Exception as e: print('ERR', type(e).__name__, e)
print(cu.find_numbers_which_sums_up_to(4,[1,2]), cu.find_numbers_which_sums_up_to(4,[1,2],{2}))
