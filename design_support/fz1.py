from spec import *
import traceback
def run(seed, N=3000, sim=True):
    rng = random.Random(seed); bad = {}
    for k in range(N):
        e = gen(rng, 3, sim); s0 = snap(e); D = dur(s0)
        # C01
        assert tk(e.duration) == D, (s0, e.duration)
        op = rng.choice(['split','cut_out','cut_off'])
        try:
            if op == 'split':
                n = rng.randint(1,3); ts = sorted(set(rng.randint(0, D) for _ in range(n)))
                parts = e.split_at(*[t/U for t in ts]); sp=[snap(p) for p in parts]
                ok = snap(e)==s0
                cuts = sorted(set([0]+ts+[D]))
                exp = [b-a for a,b in zip(cuts,cuts[1:])]
                got = [dur(p) for p in sp]
                ok2 = got == exp or (got[:-1]==exp and got[-1]==0) or (D==0)
                # content
                ok3 = True
                for (a,b),p in zip(zip(cuts,cuts[1:]), sp):
                    for x in range(b-a):
                        if at(p,x) != at(s0,a+x): ok3=False
                if not (ok and ok2 and ok3): bad.setdefault(op,[]).append((s0,ts,sp,ok,ok2,ok3))
            elif op=='cut_out':
                if D==0: continue
                a = rng.randint(0,D); b = rng.randint(a+1, D+2)
                e.cut_out(a/U,b/U); s1=snap(e)
                expd = max(0,min(b,D)-a)
                ok = dur(s1)==expd and all(at(s1,x)==at(s0,a+x) for x in range(-1,expd+1) if 0<=x<expd) and all(at(s1,x) is None for x in (expd,expd+1,-1))
                if not ok: bad.setdefault(op,[]).append((s0,a,b,s1))
            elif op=='cut_off':
                a = rng.randint(0,D+1); b = rng.randint(a+1, D+3)
                e.cut_off(a/U,b/U); s1=snap(e)
                rem = max(0,min(b,D)-min(a,D)); 
                def exp_at(x): return at(s0,x) if x<a else at(s0,x+(b-a))
                ok = dur(s1)==D-rem and all(at(s1,x)==exp_at(x) for x in range(-1,D+2))
                if not ok: bad.setdefault(op,[]).append((s0,a,b,s1))
        except Exception as ex:
            bad.setdefault(op+':'+type(ex).__name__,[]).append((s0, str(ex)[:80]))
    return bad
bad = run(int(sys.argv[1]), sim=(sys.argv[2]=='1'))
for k,v in bad.items():
    print(k, len(v)); 
    v.sort(key=lambda x: len(str(x[0])))
    for x in v[:3]: print('   ', x)
