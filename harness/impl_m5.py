"""Implementation runner for the M5 (durations and tempi as numbers) cases; see driver.ml."""
import sys
import os
import logging
from fractions import Fraction

sys.path.insert(0, os.path.dirname(os.path.abspath(__file__)))
import sx  # noqa: E402

logging.disable(logging.CRITICAL)
from mutwo import core_parameters as cp  # noqa: E402

TICK = 10**10
JUNK = ["abc", "", "1.2.3", "1/2/3", "x/2", "--1", "a.b", "1,5", "one", "1/0",
        # strings that are Python literals of the wrong kind, or that make the literal parser itself fail in other ways
        # (entries 7 and 17 are malformed point lists: finding F5)
        "{[0, 60], [1, 30]}", "{[0, 60]: 1}", "{{60}}", "([0, 60], {[1, 30]})", "None", "{1: 2}", "[1,2", "[1]", "1 2", "(1"]
OTHER = [None, {}, object(), set(), b"1", 1j]


class UserDuration(cp.abc.Duration):
    """a user-defined duration class: only beat_count is provided"""

    def __init__(self, t):
        self._t = t

    @property
    def beat_count(self):
        return self._t / 960

    @beat_count.setter
    def beat_count(self, b):
        self._t = round(b * 960)


class UserTempo(cp.abc.Tempo):
    """a user-defined tempo class: only bpm is provided"""

    def __init__(self, bpm):
        self._b = bpm

    @property
    def bpm(self):
        return self._b

    @bpm.setter
    def bpm(self, b):
        self._b = b


def ticks_of(x):
    v = float(x) * TICK
    r = round(v)
    if abs(v - r) > 1e-3:
        raise AssertionError(f"not tick exact: {x!r}")
    return r


def dur(x):
    k, t = x[0], int(x[1])
    return cp.DirectDuration(t / TICK) if k == "D" else cp.RatioDuration(Fraction(t, TICK))


def raw(x):
    """(raw int n) | (raw float n d) | (raw frac n d) | (raw dur K t)"""
    k = x[1]
    if k == "int":
        return int(x[2])
    if k == "float":
        return int(x[2]) / int(x[3])
    if k == "frac":
        return Fraction(int(x[2]), int(x[3]))
    if k == "dur":
        return dur(x[2:4])
    if k == "rdur":
        return cp.RatioDuration(Fraction(int(x[2]), int(x[3])))
    raise ValueError(x)


def b(v):
    return "1" if v is True else "0" if v is False else "notbool"


def err(e):
    return ["err", type(e).__name__]


def run(case):
    k = case[0]
    if k == "cmp":
        d, r = dur(case[1]), raw(case[3])
        try:
            out = ["ok", b(d < r), b(d <= r), b(d == r), b(d != r), b(d >= r), b(d > r)]
            # the reflected comparisons (raw number on the left) have to agree
            if not isinstance(r, cp.abc.Duration):
                refl = [b(r > d), b(r >= d), b(r == d), b(r != d), b(r <= d), b(r < d)]
                if refl != out[1:]:
                    out.append(["reflected-differs"] + refl)
            return out
        except Exception as e:  # noqa
            return err(e)
    if k == "rarith":
        # a plain number on the left of the operator
        d, r = dur(case[2]), raw(case[4])
        before = (ticks_of(d.beat_count), type(d).__name__)
        try:
            res = {"add": lambda: r + d, "sub": lambda: r - d, "mul": lambda: r * d, "div": lambda: r / d}[case[1]]()
        except Exception as e:  # noqa
            return err(e)
        if not isinstance(res, cp.abc.Duration):
            return ["ok", "not-a-duration:" + type(res).__name__, 0]
        out = ["ok", "D" if isinstance(res, cp.DirectDuration) else "R", ticks_of(res.beat_count)]
        flags = []
        if res is d:
            flags.append("result-is-operand")
        if (ticks_of(d.beat_count), type(d).__name__) != before:
            flags.append("right-operand-changed")
        if flags:
            out.append(["flags"] + flags)
        return out
    if k == "arith":
        d, r = dur(case[2]), raw(case[4])
        before = (ticks_of(d.beat_count), type(d).__name__)
        rb = (ticks_of(r.beat_count), type(r).__name__) if isinstance(r, cp.abc.Duration) else repr(r)
        try:
            res = {"add": lambda: d + r, "sub": lambda: d - r, "mul": lambda: d * r, "div": lambda: d / r}[case[1]]()
        except Exception as e:  # noqa
            return err(e)
        out = ["ok", "D" if isinstance(res, cp.DirectDuration) else "R", ticks_of(res.beat_count)]
        flags = []
        if res is d or res is r:
            flags.append("result-is-operand")
        if (ticks_of(d.beat_count), type(d).__name__) != before:
            flags.append("left-operand-changed")
        ra = (ticks_of(r.beat_count), type(r).__name__) if isinstance(r, cp.abc.Duration) else repr(r)
        if ra != rb:
            flags.append("right-operand-changed")
        if flags:
            out.append(["flags"] + flags)
        return out
    if k == "durhist":
        kind = case[1]
        d = cp.DirectDuration(0) if kind == "D" else cp.RatioDuration(0)
        out = ["ok"]
        flags = []
        for u in case[3:]:
            try:
                if u[0] == "set":
                    q = Fraction(int(u[1][1]), int(u[1][2]))
                    if kind == "D":
                        d.beat_count = float(q)
                    elif int(u[1][1]) % 2:
                        d.ratio = q
                    else:
                        d.beat_count = q
                elif u[0] == "read":
                    d.beat_count
                else:
                    q = Fraction(int(u[1][1]), int(u[1][2]))
                    arg = q if q.denominator & (q.denominator - 1) == 0 or q.denominator in (3, 7) else float(q)
                    ret = {"add": d.add, "sub": d.subtract, "mul": d.multiply, "div": d.divide}[u[0]](arg)
                    if ret is not d:
                        flags.append("inplace-form-returned-another-object")
            except Exception as e:  # noqa
                out.append(err(e))
                break
            out.append(ticks_of(d.beat_count))
            if kind != "D" and abs(float(d.ratio) - d.beat_count) > 1e-9 * max(1.0, abs(d.beat_count)):
                flags.append("ratio-disagrees-with-beat-count")
            if abs(float(d) - d.beat_count) > 0:
                flags.append("float-disagrees-with-beat-count")
        else:
            out.append(ticks_of(d.beat_count))
        if flags:
            out.append(["flags"] + sorted(set(flags)))
        return out
    if k in ("parse_d", "parse_t", "parsemut_d", "parsemut_t"):
        mut = k.startswith("parsemut")
        k = "parse_d" if k.endswith("_d") else "parse_t"
        cls = cp.abc.Duration if k == "parse_d" else cp.abc.Tempo
        p = case[1]
        t = p[0]
        same = None
        if t == "same":
            # an existing object of any duration / tempo class, the user's own included (the documented extension point)
            n4 = int(case[2]) % 4
            same = ([cp.RatioDuration("2/3"), cp.DirectDuration(1.5), UserDuration(480), UserDuration(0)][n4] if k == "parse_d" else
                    [cp.FlexTempo([[0, 60], [1, 30]]), cp.DirectTempo(72), cp.WesternTempo(60, reference=2), UserTempo(90)][n4])
            obj = same
        elif t == "int":
            obj = int(p[1])
        elif t == "float":
            obj = int(p[1][1]) / int(p[1][2])
        elif t == "frac":
            obj = Fraction(int(p[1][1]), int(p[1][2]))
        elif t == "str-int":
            n = int(p[1])
            obj = ("+" + str(n)) if n > 0 and n % 4 == 1 else str(n)      # the grammar is [+-]?digits
        elif t == "str-float":
            q = Fraction(int(p[1][1]), int(p[1][2]))
            obj = repr(float(q))
            if "." not in obj or "e" in obj:
                obj = f"{float(q):.10f}"
            if obj.startswith("0.") and int(p[1][1]) % 3 == 0:
                obj = obj[1:]                 # ".5"
        elif t == "str-frac":
            obj = f"{int(p[1])}/{int(p[2])}"
        elif t == "str-list":
            obj = "[[0, 60], [1, 30]]"
        elif t == "str-junk":
            obj = JUNK[int(p[1]) % len(JUNK)]
        elif t == "points":
            obj = [[0, 60], [1, 30]] if int(case[2]) % 2 else ((0, 60), (2, 90, 1))
        elif t == "other":
            obj = OTHER[int(p[1]) % len(OTHER)]
        else:
            raise ValueError(p)
        try:
            r = cls.from_any(obj)
            if mut and same is None:
                # parse, update the result in place, parse the same input again: the second result must be the parsed
                # value again and a different object
                first = r
                if isinstance(first, cp.abc.Duration):
                    first.add(0.5)
                elif isinstance(first, cp.FlexTempo):
                    first[0].tempo.bpm = first[0].tempo.bpm + 7
                else:
                    first.bpm = first.bpm + 7
                r = cls.from_any(obj)
                if r is first:
                    return ["ok", "second-parse-returns-the-first-result-object"]
        except Exception as e:  # noqa
            return err(e)
        if same is not None:
            return ["ok", "same"] if r is same else ["ok", "copy-instead-of-same"]
        if isinstance(r, cp.FlexTempo):
            return ["ok", "flex"]
        if isinstance(r, cp.abc.Tempo):
            return ["ok", "direct", round(r.bpm * TICK)]
        return ["ok", "direct" if isinstance(r, cp.DirectDuration) else "ratio", ticks_of(r.beat_count)]
    if k == "cfg":
        # the resolution is a public setting (ROUND_DURATION_TO_N_DIGITS): both duration kinds and the plain number
        # must follow it alike, whenever it is changed
        digits, q = int(case[1]), Fraction(int(case[2]), int(case[3]))
        old = cp.configurations.ROUND_DURATION_TO_N_DIGITS
        cp.configurations.ROUND_DURATION_TO_N_DIGITS = digits
        try:
            d, r = cp.DirectDuration(float(q)), cp.RatioDuration(q)
            want = round(float(q), digits)
            return ["ok", b(d.beat_count == want), b(r.beat_count == want), b(d == r), b(d < r or d > r), b(d == float(q)), b(r == float(q)),
                    b((d + r).beat_count == round(want + want, digits))]
        except Exception as e:  # noqa
            return err(e)
        finally:
            cp.configurations.ROUND_DURATION_TO_N_DIGITS = old
    if k == "seconds":
        bpm = int(case[1]) / int(case[2])
        t = cp.DirectTempo(bpm)
        import ranges
        ref = Fraction(int(case[3]), int(case[4]))
        # the tempo range as a single number or (every other case) as a real range: bpm is its START times the reference
        w = cp.WesternTempo(ranges.Range(bpm, bpm + 12), reference=ref) if int(case[1]) % 2 else cp.WesternTempo(bpm, reference=ref)
        return ["ok", (t.seconds * t.bpm).hex(), float(w.bpm).hex(), float(w.seconds * w.bpm).hex()]
    raise ValueError(case)


def main():
    for line in sys.stdin:
        line = line.strip()
        if not line:
            print()
            continue
        try:
            print(sx.show(run(sx.parse(line))))
        except Exception as e:
            print(sx.show(["runner-error", type(e).__name__, str(e).replace("(", "[").replace(")", "]").replace(" ", "_")[:200]]))
        sys.stdout.flush()


if __name__ == "__main__":
    main()
