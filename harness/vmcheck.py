"""Thorough tier: evaluates a sample of the generated cases INSIDE Coq (vm_compute on the Gallina definitions)
and compares with what the extracted OCaml driver printed for the same cases.
This cross-checks extraction + driver glue (s-expression parsing, int <-> Z, the loops around the model calls).

Per case kind there is (1) a function giving the Gallina term of type `list Z` that mirrors what driver.ml
evaluates for the case (serialisers: coq/Model/Ser.v for M1, coq/Model/Ser2.v for M3-M6) and (2) a function
turning the driver's printed observation into the same integer list.  Case kinds without an entry are skipped.
The cases handed in are the ones that were SENT TO THE DRIVER (after the property module's model_case)."""
import os
import re
import subprocess
from fractions import Fraction
import sx

HERE = os.path.dirname(os.path.abspath(__file__))
COQ = os.path.join(os.path.dirname(HERE), "coq")
ERR = {"InvalidAbsoluteTime": 1, "InvalidStartAndEndValueError": 2, "InvalidCutOutStartAndEndValuesError": 3,
       "InvalidStartValueError": 4, "SplitError": 5, "SplitUnavailableChildError": 6, "NoSplitTimeError": 7,
       "ImpossibleToSquashInError": 8, "ImpossibleToSlideInError": 9, "IneffectiveExtendUntilError": 10,
       "ImpossibleToExtendUntilError": 11, "ConcatenationError": 12, "NoTagError": 13, "KeyError": 14, "IndexError": 15,
       "RuntimeError": 16, "TypeError": 17, "AttributeError": 18, "EmptyEnvelopeError": 19,
       "CannotSetDurationOfEmptyCompound": 20, "CannotParseError": 21, "ValueError": 22, "ZeroDivisionError": 23,
       "MODEL-OUT-OF-FUEL": 24}


def z(n):
    n = int(n)
    return f"({n})" if n < 0 else str(n)


def term(t):
    if t[0] == "L":
        return f"(Leaf {z(t[1])} {z(t[2])})"
    c = "Seq" if t[0] == "S" else "Sim"
    return f"({c} (mkMeta {z(t[1])} {z(t[2])}) [{'; '.join(term(k) for k in t[3:])}])"


def coq_of_case(case):
    """Gallina expression of type list Z for the supported case kinds, or None"""
    k = case[0]
    if k == "split_at":
        b = "true" if str(case[2]) in ("1", "true") else "false"
        return f"ser_parts (split_at {term(case[1])} [{'; '.join(z(x) for x in case[3:])}] {b})"
    if k == "op":
        op = case[2]
        t = term(case[1])
        if op[0] in ("cut_out", "cut_off"):
            return f"ser_res ({op[0]} {t} {z(op[1])} {z(op[2])})"
        if op[0] == "split_child_at":
            return f"ser_res (split_child_at {t} {z(op[1])})"
        if op[0] in ("squash_in", "slide_in"):
            return f"ser_res ({op[0]} {t} {z(op[1])} {term(op[2])})"
        if op[0] == "sequentialize":
            return f"ser_res (sequentialize {t})"
        if op[0] == "extend_until" and op[2] != "none":
            b = "true" if str(op[1]) in ("1", "true") else "false"
            return f"ser_res (extend_until {b} {t} {z(op[2])})"
        if op[0] == "concat":
            b = "true" if str(op[1]) in ("1", "true") else "false"
            return f"ser_res (concatenate {b} {t} {term(op[2])})"
    return None


def ser_tree(t):
    if t[0] == "L":
        return [0, int(t[1]), int(t[2])]
    out = [1 if t[0] == "S" else 2, int(t[1]), int(t[2]), len(t) - 3]
    for c in t[3:]:
        out += ser_tree(c)
    return out


def ser_obs(o):
    """the driver's observation as the same integer list"""
    if o[0] == "err":
        return [0, ERR[o[1]]]
    v = o[1]
    if isinstance(v, list) and v and v[0] == "parts":
        out = [1, len(v) - 1]
        for p in v[1:]:
            out += ser_tree(p)
        return out
    return [1] + ser_tree(v)


# --------------------------------------------------------------------------- M3 - M6 (serialisers: coq/Model/Ser2.v)
class Skip(Exception):
    """the case has a shape the driver would reject or that is not covered here"""


def need(cond):
    if not cond:
        raise Skip()


def b01(x):
    """driver `bi`"""
    need(not isinstance(x, list))
    return "true" if x in ("1", "true") else "false"


def nat(x, bound=1000):
    """driver `ni` (negative numbers become 0); only small numerals are written as nat literals"""
    need(not isinstance(x, list))
    n = max(int(x), 0)
    need(n < bound)
    return f"{n}%nat"


def lst(items):
    return "[" + "; ".join(items) + "]"


def zs(xs):
    need(all(not isinstance(x, list) for x in xs))
    return lst(z(x) for x in xs)


def qq(x):
    """driver `qq`: (q num den), den > 0"""
    need(isinstance(x, list) and len(x) == 3 and x[0] == "q" and int(x[2]) > 0)
    return f"(Qmake {z(x[1])} {int(x[2])}%positive)"


def pairs(x):
    need(isinstance(x, list) and all(isinstance(p, list) and len(p) == 2 for p in x))
    return lst(f"({z(a)}, {z(b)})" for a, b in x)


# ---- M4
def tempo_e(x):
    need(isinstance(x, list) and x and all(isinstance(p, list) and len(p) == 3 for p in x[1:]))
    return f"(mkTempoE {z(x[0])} {lst(f'({z(p[0])}, {z(p[1])}, {z(p[2])})' for p in x[1:])})"


def ev_e(x):
    need(isinstance(x, list) and x)
    if x[0] == "L" and len(x) == 5 and isinstance(x[4], list):
        return f"(ELeaf (mkLeafE {z(x[1])} {z(x[2])} {tempo_e(x[3])} {pairs(x[4])}))"
    if x[0] in ("S", "P") and len(x) >= 3:
        return f"(ECont {'KSeqE' if x[0] == 'S' else 'KSimE'} {z(x[1])} {tempo_e(x[2])} {lst(ev_e(k) for k in x[3:])})"
    need(x[0] == "N" and len(x) == 2)
    return f"(ENonEvent {z(x[1])})"


def t_eq(c):
    need(len(c) == 3)
    return (f"let a := {ev_e(c[1])} in let b := {ev_e(c[2])} in "
            "ser_bools [ev_eqb a b; ev_eqb b a; ev_neqb a b; ev_neqb b a]")


def o_bools(o):
    return [1] + [int(x) for x in o[1:]]


# ---- M5
def dkind(x):
    need(x in ("D", "R"))
    return "KDirect" if x == "D" else "KRatio"


def durv(x):
    need(isinstance(x, list) and len(x) == 2)
    return f"(mkDur {dkind(x[0])} {z(x[1])})"


AOP = {"add": "OAdd", "sub": "OSub", "mul": "OMul", "div": "ODiv"}


def aop(x):
    need(x in AOP)
    return AOP[x]


def t_cmp(c):
    need(len(c) == 3)
    return (f"let d := {durv(c[1])} in let r := {qq(c[2])} in "
            "ser_bools [d_lt d r; d_le d r; d_eq d r; d_ne d r; d_ge d r; d_gt d r]")


def t_arith(c):
    need(len(c) == 4)
    return f"ser_rdur (arith {aop(c[1])} {durv(c[2])} {qq(c[3])})"


def o_arith(o):
    return [1, {"D": 0, "R": 1}[o[1]], int(o[2])]


def upd(u):
    need(isinstance(u, list))
    if len(u) == 2 and u[0] == "set":
        return f"USet {qq(u[1])}"
    if u == ["read"]:
        return "URead"
    need(len(u) == 2)
    return f"UArith {aop(u[0])} {qq(u[1])}"


def t_durhist(c):
    need(len(c) >= 3)
    return f"ser_durhist {dkind(c[1])} {qq(c[2])} {lst(upd(u) for u in c[3:])}"


def o_durhist(o):
    out = [1]
    for x in o[1:]:
        out += [0, ERR[x[1]]] if isinstance(x, list) else [1, int(x)]
    return out


def pin(x):
    need(isinstance(x, list) and x)
    k, n = x[0], len(x)
    if k == "same" and n == 1:
        return "PSame"
    if k == "int" and n == 2:
        return f"(PInt {z(x[1])})"
    if k == "float" and n == 2:
        return f"(PFloat {qq(x[1])})"
    if k == "frac" and n == 2:
        return f"(PFrac {qq(x[1])})"
    if k == "str-int" and n == 2:
        return f"(PStr (SInt {z(x[1])}))"
    if k == "str-float" and n == 2:
        return f"(PStr (SFloat {qq(x[1])}))"
    if k == "str-frac" and n == 3:
        return f"(PStr (SFrac {z(x[1])} {z(x[2])}))"
    if k == "str-list" and n == 1:
        return "(PStr SList)"
    if k == "str-junk" and n == 2:
        return "(PStr SJunk)"
    if k == "points" and n == 1:
        return "PPoints"
    need(k == "other" and n == 2)
    return "POther"


def t_parse(fn):
    def t(c):
        need(len(c) == 2)
        return f"ser_pout ({fn} {pin(c[1])})"
    return t


def o_pout(o):
    k = o[1]
    if k == "same":
        return [1, 0]
    if k == "flex":
        return [1, 3]
    return [1, {"direct": 1, "ratio": 2}[k], int(o[2])]


# ---- M6
def red(x):
    """(q n d) as printed by the driver -> numerator, denominator of the reduced fraction"""
    f = Fraction(int(x[1]), int(x[2]))
    return [f.numerator, f.denominator]


def o_zs(o):
    return [1, len(o) - 1] + [int(x) for x in o[1:]]


def o_zss(o):
    out = [1, len(o) - 1]
    for l in o[1:]:
        out += [len(l)] + [int(x) for x in l]
    return out


def o_z(o):
    return [1, int(o[1])]


def t_sss(c):
    need(len(c) >= 2)
    return f"ser_qs (scale_sequence_to_sum {lst(qq(x) for x in c[2:])} {qq(c[1])})"


def o_qs(o):
    out = [1, len(o) - 1]
    for x in o[1:]:
        out += red(x)
    return out


def t_acc(c):
    need(len(c) >= 2)
    return f"ser_zs (accumulate_from_n {zs(c[2:])} {z(c[1])})"


def t_cyc(c):
    return f"ser_zss (cyclic_permutations {zs(c[1:])})"


def t_closest(c):
    need(len(c) >= 2)
    return f"ser_rnat (find_closest_index {z(c[1])} {zs(c[2:])})"


def t_round(c):
    need(len(c) == 3)
    return f"ser_z (round_digits {qq(c[1])} {nat(c[2], 40)})"


def t_uniq(c):
    return f"ser_zs (uniqify {zs(c[1:])})"


def nest(x):
    if not isinstance(x, list):
        return f"(NAtom {z(x)})"
    need(x and x[0] == "l")
    return f"(NList {lst(nest(i) for i in x[1:])})"


def path(xs):
    return lst(nat(i) for i in xs)


def t_nget(c):
    need(len(c) >= 2)
    return f"ser_rnest (nget {path(c[2:])} {nest(c[1])})"


def t_nset(c):
    need(len(c) >= 3)
    return f"ser_rnest (nset {path(c[3:])} {nest(c[2])} {nest(c[1])})"


def t_ndel(c):
    need(len(c) >= 2)
    return f"ser_rnest (ndel {path(c[2:])} {nest(c[1])})"


def ser_nest(x):
    if not isinstance(x, list):
        return [0, int(x)]
    out = [1, len(x) - 1]
    for i in x[1:]:
        out += ser_nest(i)
    return out


def o_nest(o):
    return [1] + ser_nest(o[1])


def t_sums(c):
    if len(c) == 2:
        return f"let t := {z(c[1])} in ser_zss (find_sums t (default_numbers t) (default_counts t))"
    need(len(c) == 4 and isinstance(c[2], list) and isinstance(c[3], list))
    return f"ser_zss (find_sums {z(c[1])} {zs(c[2])} {lst(nat(i, 12) for i in c[3])})"


def t_attr(c):
    need(len(c) == 4)
    return f"ser_z (chronon_to_attribute {pairs(c[1])} {z(c[2])} {z(c[3])})"


def t_kwarg(c):
    need(len(c) == 4)
    return f"ser_okv (dict_to_keyword_argument {pairs(c[1])} {z(c[2])} {z(c[3])})"


def o_kwarg(o):
    return [1, 0] if o[1] == "none" else [1, 1, int(o[1]), int(o[2])]


def t_chronon(c):
    need(len(c) == 3)
    return f"ser_pairs (dict_to_chronon {pairs(c[1])} {pairs(c[2])})"


def o_pairs(o):
    out = [1, len(o) - 1]
    for a, b in o[1:]:
        out += [int(a), int(b)]
    return out


def t_lazy(c):
    need(len(c) >= 2)
    return f"ser_lazy_x (lazy_run_x Z Z Z.eqb lazy_fx {b01(c[1])} None {zs(c[2:])})"


def o_lazy(o):
    out = [1, len(o) - 1]
    for x in o[1:]:
        out += [0] if x[0] == "raised" else [1, int(x[0]), int(x[1])]
    return out


def t_lazy2(c):
    need(len(c) >= 2)
    ops = []
    for op in c[2:]:
        if op == ["del"]:
            ops.append("None")
        else:
            need(isinstance(op, list) and len(op) == 2 and not isinstance(op[0], list))
            ops.append(f"Some {z(op[1])}")
    return f"ser_lazy2 {b01(c[1])} {lst(ops)}"


def o_lazy2(o):
    out = [1, len(o) - 1]
    for x in o[1:]:
        out += [2] if x == "del" else [1, int(x[0]), int(x[1])]
    return out


# ---- M3: identity trees
def itree(x):
    need(isinstance(x, list) and x)
    if x[0] == "l" and len(x) == 2:
        return f"(ILeaf {nat(x[1])})"
    need(x[0] in ("s", "p") and len(x) >= 2)
    return f"(INode {nat(x[1])} {'IKSeq' if x[0] == 's' else 'IKSim'} {lst(itree(k) for k in x[2:])})"


def oz(x):
    return "None" if x == "none" else f"(Some {z(x)})"


def heap(x, dflt, conv):
    """driver `heap_of`: association list, first entry wins, default for absent identities"""
    need(isinstance(x, list) and all(isinstance(p, list) and len(p) == 2 and not isinstance(p[0], list) and int(p[0]) >= 0 for p in x))
    return f"(heap_of {dflt} {lst(f'({nat(i)}, {conv(v)})' for i, v in x)})"


def gfun(x):
    need(isinstance(x, list) and len(x) == 2 and x[0] in ("const", "addc", "mul"))
    return f"(g_{x[0]} {z(x[1])})"


def t_setp(c):
    need(len(c) == 5)
    return (f"let t := {itree(c[1])} in "
            f"ser_setp t (set_parameter {b01(c[2])} {gfun(c[3])} t {heap(c[4], '(None : option Z)', oz)})")


def ser_oz(v):
    return [0] if v == "none" else [1, int(v)]


def o_setp(o):
    out = [1, len(o) - 1]
    for i, v in o[1:]:
        out += [int(i)] + ser_oz(v)
    return out


def t_getp(c):
    need(len(c) == 5)
    t, h = itree(c[1]), heap(c[4], "(None : option Z)", oz)
    if b01(c[2]) == "true":
        return f"ser_ozs (get_parameter_flat {b01(c[3])} {t} {h})"
    return f"ser_pvals (get_parameter_nested {b01(c[3])} {t} {h})"


def ser_pval(x):
    if not isinstance(x, list):
        return [0] + ser_oz(x)
    out = [1, len(x) - 1]
    for i in x[1:]:
        out += ser_pval(i)
    return out


def o_getp_for(c):
    flat = b01(c[2]) == "true"

    def o(obs):
        out = [1, len(obs) - 1]
        for x in obs[1:]:
            out += ser_oz(x) if flat else ser_pval(x)
        return out
    return o


def t_setdur(c):
    need(len(c) == 4)
    return f"let t := {itree(c[1])} in ser_setdur t (set_duration t {z(c[2])} {heap(c[3], '0', z)})"


def o_setdur(o):
    out = [1, int(o[1]), len(o) - 2]
    for i, v in o[2:]:
        out += [int(i), int(v)]
    return out


# ---- M3: object graphs
def gtree(x):
    need(isinstance(x, list) and x)
    if x[0] == "l" and len(x) == 4:
        return f"(GLeaf {nat(x[1])} {nat(x[2])} {nat(x[3])})"
    need(x[0] in ("s", "p") and len(x) >= 3)
    return f"(GNode {nat(x[1])} {'GSeq' if x[0] == 's' else 'GSim'} {nat(x[2])} {lst(gtree(k) for k in x[3:])})"


def t_copyop(c):
    need(len(c) == 3 and not isinstance(c[1], list))
    r = "fst (pcopy t (fresh_above t, []))" if c[1] == "copy" else "fst (dcopy t (fresh_above t))"
    return f"let t := {gtree(c[2])} in ser_copy t ({r})"


def o_copyop(o):
    need(o[1][0] == "pattern" and o[2][0] == "shared")
    return [1, len(o[1]) - 1] + [int(x) for x in o[1][1:]] + [len(o[2]) - 1] + [int(x) for x in o[2][1:]]


# kind -> (term of the case, serialiser of an `ok` observation)
KINDS = {
    "eq": (t_eq, o_bools),
    "cmp": (t_cmp, o_bools), "arith": (t_arith, o_arith), "durhist": (t_durhist, o_durhist),
    "parse_d": (t_parse("parse_duration"), o_pout), "parse_t": (t_parse("parse_tempo"), o_pout),
    "sss": (t_sss, o_qs), "acc": (t_acc, o_zs), "cyc": (t_cyc, o_zss), "closest": (t_closest, o_z), "round": (t_round, o_z),
    "uniq": (t_uniq, o_zs), "nget": (t_nget, o_nest), "nset": (t_nset, o_nest), "ndel": (t_ndel, o_nest),
    "sums": (t_sums, o_zss), "attr": (t_attr, o_z), "kwarg": (t_kwarg, o_kwarg), "chronon": (t_chronon, o_pairs),
    "lazy": (t_lazy, o_lazy), "lazy2": (t_lazy2, o_lazy2),
    "setp": (t_setp, o_setp), "getp": (t_getp, None), "setdur": (t_setdur, o_setdur),   # getp: o_getp_for(case)
    "copyop": (t_copyop, o_copyop),
}
M1_KINDS = ("split_at", "op")
M1_IMPORTS = "From MV Require Import Base.Res Model.EventTree Model.TreeOps Model.Ser."
ALL_IMPORTS = ("From MV Require Import Base.Res Model.EventTree Model.TreeOps Model.Ser Model.Equality Model.Numbers Model.Tools "
               "Model.IdTree Model.Heap Model.LazyExn Model.Ser2.")


def group_of(case):
    """sampling group of a case, None = not supported"""
    k = case[0] if isinstance(case, list) and case and not isinstance(case[0], list) else None
    if k in M1_KINDS:
        return "m1"
    return k if k in KINDS else None


def prepare(case):
    """(Gallina term : list Z, serialiser of the driver's observation) or None"""
    g = group_of(case)
    if g is None:
        return None
    if g == "m1":
        e = coq_of_case(case)
        return None if e is None else (e, ser_obs)
    # exactly what the driver read: every atom a string
    c = sx.parse(sx.show(case))
    tf, of = KINDS[c[0]]
    try:
        e = tf(c)
        if c[0] == "getp":
            of = o_getp_for(c)
    except (Skip, ValueError, TypeError, IndexError):
        return None

    def obs(o):
        return [0, ERR[o[1]]] if o[0] == "err" else of(o)
    return e, obs


def crosscheck(cases, model_outputs, limit=300, tag="cases"):
    """returns dict(checked, mismatches[list of (case line, coq, driver)]).
    `cases` are the cases as sent to the driver.  At most `limit` cases are evaluated; when several case kinds are
    present every kind gets an equal share (the M1 kinds count as one)."""
    groups = []
    for c in cases:
        g = group_of(c)
        if g is not None and g not in groups:
            groups.append(g)
    if not groups:
        return {"checked": 0, "mismatches": []}
    cap = -(-limit // len(groups))
    count = dict.fromkeys(groups, 0)
    picked = []
    seen = set()
    for c, m in zip(cases, model_outputs):
        g = group_of(c)
        if g is None or m is None or count[g] >= cap or m.startswith("(driver-error"):
            continue
        if g != "m1":
            # model_case may map many cases to one driver case: evaluate each distinct one once
            line = sx.show(c)
            if line in seen:
                continue
            seen.add(line)
        pr = prepare(c)
        if pr is not None:
            picked.append((c, pr[0], m, pr[1]))
            count[g] += 1
        if len(picked) >= limit or all(v >= cap for v in count.values()):
            break
    if not picked:
        return {"checked": 0, "mismatches": []}
    m1_only = groups == ["m1"]
    body = ["From Coq Require Import ZArith List." if m1_only else "From Coq Require Import ZArith QArith List.",
            M1_IMPORTS if m1_only else ALL_IMPORTS,
            "Import ListNotations.", "Open Scope Z_scope.", "Set Printing Width 1000000.", "Set Printing Depth 1000000."]
    for i, (_, e, _, _) in enumerate(picked):
        body.append(f"Definition vm_c{i} : list Z := {e}.")
    body.append("Eval vm_compute in [" + "; ".join(f"vm_c{i}" for i in range(len(picked))) + "].")
    # checks may run side by side: one scratch module per property and process
    name = "vmcheck_" + re.sub(r"\W", "_", str(tag)) + "_" + str(os.getpid())
    path = os.path.join(COQ, name + ".v")
    open(path, "w").write("\n".join(body) + "\n")
    try:
        p = subprocess.run(["timeout", "900", "coqc", "-Q", ".", "MV", name + ".v"], cwd=COQ, stdout=subprocess.PIPE,
                           stderr=subprocess.STDOUT, text=True)
    finally:
        for ext in (".v", ".vo", ".vok", ".vos", ".glob"):
            try:
                os.remove(os.path.join(COQ, name + ext))
            except OSError:
                pass
        try:
            os.remove(os.path.join(COQ, "." + name + ".aux"))
        except OSError:
            pass
    if p.returncode != 0:
        return {"checked": 0, "mismatches": [("coqc failed", p.stdout[-800:], "")]}
    txt = p.stdout
    m = re.search(r"=\s*(\[.*\])\s*:\s*list \(list Z\)", txt, flags=re.S)
    if not m:
        return {"checked": 0, "mismatches": [("unparsable coqc output", txt[-400:], "")]}
    inner = m.group(1).strip()[1:-1]
    lists = [[int(x) for x in re.findall(r"-?\d+", part)] for part in re.findall(r"\[([^\[\]]*)\]", inner)]
    mism = []
    if len(lists) != len(picked):
        return {"checked": 0, "mismatches": [("result count", str(len(lists)), str(len(picked)))]}
    for (c, _, mo, obs), l in zip(picked, lists):
        try:
            d = obs(sx.parse(mo))
        except Exception as ex:   # an observation of an unexpected shape is a disagreement, not a crash
            d = "unserialisable: " + repr(ex)
        if d != l:
            mism.append((sx.show(c)[:300], str(l)[:200], mo[:200]))
    return {"checked": len(picked), "mismatches": mism, "per_kind": {g: n for g, n in count.items() if n}}
