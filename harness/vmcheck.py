"""Thorough tier, M1 properties: evaluates a sample of the generated cases INSIDE Coq (vm_compute on the
Gallina definitions) and compares with what the extracted OCaml driver printed for the same cases.
This cross-checks extraction + driver glue (s-expression parsing, int <-> Z)."""
import os
import re
import subprocess
import sx

HERE = os.path.dirname(os.path.abspath(__file__))
COQ = os.path.join(os.path.dirname(HERE), "coq")
ERR = {"InvalidAbsoluteTime": 1, "InvalidStartAndEndValueError": 2, "InvalidCutOutStartAndEndValuesError": 3,
       "InvalidStartValueError": 4, "SplitError": 5, "SplitUnavailableChildError": 6, "NoSplitTimeError": 7,
       "ImpossibleToSquashInError": 8, "ImpossibleToSlideInError": 9, "IneffectiveExtendUntilError": 10,
       "ImpossibleToExtendUntilError": 11, "ConcatenationError": 12, "NoTagError": 13, "KeyError": 14, "IndexError": 15,
       "RuntimeError": 16, "TypeError": 17, "AttributeError": 18, "EmptyEnvelopeError": 19,
       "CannotSetDurationOfEmptyCompound": 20, "CannotParseError": 21, "ValueError": 22, "ZeroDivisionError": 23,
       "MODEL-OUT-OF-FUEL": 24}


def z(n):
    n = int(n)
    return f"({n})" if n < 0 else str(n)


def term(t):
    if t[0] == "L":
        return f"(Leaf {z(t[1])} {z(t[2])})"
    c = "Seq" if t[0] == "S" else "Sim"
    return f"({c} (mkMeta {z(t[1])} {z(t[2])}) [{'; '.join(term(k) for k in t[3:])}])"


def coq_of_case(case):
    """Gallina expression of type list Z for the supported case kinds, or None"""
    k = case[0]
    if k == "split_at":
        b = "true" if str(case[2]) in ("1", "true") else "false"
        return f"ser_parts (split_at {term(case[1])} [{'; '.join(z(x) for x in case[3:])}] {b})"
    if k == "op":
        op = case[2]
        t = term(case[1])
        if op[0] in ("cut_out", "cut_off"):
            return f"ser_res ({op[0]} {t} {z(op[1])} {z(op[2])})"
        if op[0] == "split_child_at":
            return f"ser_res (split_child_at {t} {z(op[1])})"
        if op[0] in ("squash_in", "slide_in"):
            return f"ser_res ({op[0]} {t} {z(op[1])} {term(op[2])})"
        if op[0] == "sequentialize":
            return f"ser_res (sequentialize {t})"
        if op[0] == "extend_until" and op[2] != "none":
            b = "true" if str(op[1]) in ("1", "true") else "false"
            return f"ser_res (extend_until {b} {t} {z(op[2])})"
        if op[0] == "concat":
            b = "true" if str(op[1]) in ("1", "true") else "false"
            return f"ser_res (concatenate {b} {t} {term(op[2])})"
    return None


def ser_tree(t):
    if t[0] == "L":
        return [0, int(t[1]), int(t[2])]
    out = [1 if t[0] == "S" else 2, int(t[1]), int(t[2]), len(t) - 3]
    for c in t[3:]:
        out += ser_tree(c)
    return out


def ser_obs(o):
    """the driver's observation as the same integer list"""
    if o[0] == "err":
        return [0, ERR[o[1]]]
    v = o[1]
    if isinstance(v, list) and v and v[0] == "parts":
        out = [1, len(v) - 1]
        for p in v[1:]:
            out += ser_tree(p)
        return out
    return [1] + ser_tree(v)


def crosscheck(cases, model_outputs, limit=300):
    """returns dict(checked, mismatches[list of (case line, coq, driver)])"""
    picked = []
    for c, m in zip(cases, model_outputs):
        e = coq_of_case(c)
        if e is not None and m is not None:
            picked.append((c, e, m))
        if len(picked) >= limit:
            break
    if not picked:
        return {"checked": 0, "mismatches": []}
    body = ["From Coq Require Import ZArith List.", "From MV Require Import Base.Res Model.EventTree Model.TreeOps Model.Ser.",
            "Import ListNotations.", "Open Scope Z_scope.", "Set Printing Width 1000000.", "Set Printing Depth 1000000."]
    for i, (_, e, _) in enumerate(picked):
        body.append(f"Definition vm_c{i} : list Z := {e}.")
    body.append("Eval vm_compute in [" + "; ".join(f"vm_c{i}" for i in range(len(picked))) + "].")
    path = os.path.join(COQ, "vmcheck_cases.v")
    open(path, "w").write("\n".join(body) + "\n")
    try:
        p = subprocess.run(["timeout", "900", "coqc", "-Q", ".", "MV", "vmcheck_cases.v"], cwd=COQ, stdout=subprocess.PIPE,
                           stderr=subprocess.STDOUT, text=True)
    finally:
        for ext in (".v", ".vo", ".vok", ".vos", ".glob"):
            try:
                os.remove(os.path.join(COQ, "vmcheck_cases" + ext))
            except OSError:
                pass
        try:
            os.remove(os.path.join(COQ, ".vmcheck_cases.aux"))
        except OSError:
            pass
    if p.returncode != 0:
        return {"checked": 0, "mismatches": [("coqc failed", p.stdout[-800:], "")]}
    txt = p.stdout
    m = re.search(r"=\s*(\[.*\])\s*:\s*list \(list Z\)", txt, flags=re.S)
    if not m:
        return {"checked": 0, "mismatches": [("unparsable coqc output", txt[-400:], "")]}
    inner = m.group(1).strip()[1:-1]
    lists = [[int(x) for x in re.findall(r"-?\d+", part)] for part in re.findall(r"\[([^\[\]]*)\]", inner)]
    mism = []
    if len(lists) != len(picked):
        return {"checked": 0, "mismatches": [("result count", str(len(lists)), str(len(picked)))]}
    for (c, _, mo), l in zip(picked, lists):
        if ser_obs(sx.parse(mo)) != l:
            mism.append((sx.show(c)[:300], str(l)[:200], mo[:200]))
    return {"checked": len(picked), "mismatches": mism}
