"""Implementation runner for the identity-tree cases (bulk edits once per distinct object, reads per
position, duration setter).  Trees: (l id) | (s id kids...) | (p id kids...): equal ids = one object."""
import sys
import types
from fractions import Fraction
import os
import logging

sys.path.insert(0, os.path.dirname(os.path.abspath(__file__)))
import sx  # noqa: E402

logging.disable(logging.CRITICAL)
from mutwo import core_events as ce  # noqa: E402

TICK = 10**10


class Box:
    """a mutable parameter value for mutate_parameter"""

    def __init__(self, v):
        self.v = v

    def __bool__(self):
        # a parameter value may well be falsy (an empty pitch list, a zero): "defined" means "is not None"
        return bool(self.v)


def build(x, memo):
    i = int(x[1])
    if i in memo:
        return memo[i]
    if x[0] == "l":
        o = ce.Chronon(1)
        o.oid = i
    else:
        cls = ce.Consecution if x[0] == "s" else ce.Concurrence
        o = cls([build(k, memo) for k in x[2:]])
        o.oid = i
    memo[i] = o
    return o


def leaves(e, seen=None):
    out = []
    if isinstance(e, ce.Chronon):
        return [e]
    for c in e:
        out += leaves(c)
    return out


def heap_apply(memo, hp, attr, conv):
    for i, v in hp:
        o = memo.get(int(i))
        if o is not None and isinstance(o, ce.Chronon) and v != "none":
            setattr(o, attr, conv(v))


def gfun(g):
    k, c = g[0], int(g[1])
    if k == "const":
        return lambda old: c
    if k == "addc":
        return lambda old: c if old is None else old + c
    if k == "mul":
        return lambda old: 0 if old is None else old * c
    raise ValueError(g)


def ticks(d):
    x = d.beat_count * TICK
    return round(x)


class Pitches(tuple):
    """a tuple-valued parameter (mutwo's pitch_list is one): one VALUE, not a nested level of the event tree"""


class Holder:
    """an object whose bound method serves as a parameter value (a callback stored on a note)"""

    def __init__(self, v):
        self.v = v

    def get(self):
        return self.v


def sval(v):
    if isinstance(v, Pitches):
        return v[0]
    if isinstance(v, types.MethodType) and isinstance(v.__self__, Holder):
        return v.__self__.v
    if v is None:
        return "none"
    if isinstance(v, type):
        return "the-class-" + v.__name__           # a class object stored as the value
    if not isinstance(v, (int, str)) or isinstance(v, bool):
        return "an-object-of-type-" + type(v).__name__
    return v


def snest(t):
    if isinstance(t, Pitches):
        return t[0]
    if isinstance(t, tuple):
        return ["t"] + [snest(x) for x in t]
    return sval(t)


# ---------------------------------------------------------------- copies and conversions (C14)
from mutwo import core_parameters as cp  # noqa: E402
from mutwo import core_converters as cc  # noqa: E402


class RestCounter:
    """a callable object with state (a rest maker that counts what it made)"""

    def __init__(self):
        self.made = []

    def __call__(self, duration):
        self.made.append(duration)
        return ce.Chronon(duration)


class Voice(ce.Consecution, class_specific_side_attribute_tuple=("instruments", "bars", "rest_maker")):
    """a user subclass with mutable side attributes (the documented way to attach extras to a container): a list, and a
    tuple that holds mutable objects (a bar length as a Duration object, a list)"""

    def __init__(self, *args, instruments=None, bars=None, rest_maker=None, **kwargs):
        super().__init__(*args, **kwargs)
        self.instruments = instruments if instruments is not None else []
        self.bars = bars if bars is not None else (cp.DirectDuration(4), [3, 4])
        self.rest_maker = rest_maker if rest_maker is not None else RestCounter()


class Staff(ce.Concurrence, class_specific_side_attribute_tuple=("instruments", "bars")):
    def __init__(self, *args, instruments=None, bars=None, **kwargs):
        super().__init__(*args, **kwargs)
        self.instruments = instruments if instruments is not None else []
        self.bars = bars if bars is not None else (cp.DirectDuration(4), [3, 4])


class Part(ce.Consecution, class_specific_side_attribute_tuple=("instruments", "bars")):
    """a user subclass that overrides the documented hook `empty_copy` the way older user code does: the new, empty
    container is handed the receiver's own tempo, tag and side attribute objects (what happens to them afterwards is the
    business of the caller: copy() / destructive_copy() / the converters still have to return independent events)"""

    def __init__(self, *args, instruments=None, bars=None, **kwargs):
        super().__init__(*args, **kwargs)
        self.instruments = instruments if instruments is not None else []
        self.bars = bars if bars is not None else (cp.DirectDuration(4), [3, 4])

    def empty_copy(self):
        return type(self)([], tag=self.tag, tempo=self.tempo, instruments=self.instruments, bars=self.bars)


def gbuild(x, ev, du, te):
    """(l id dur tempo) | (s id tempo kids...) | (p id tempo kids...): equal ids = one object"""
    i = int(x[1])
    if i in ev:
        return ev[i]
    if x[0] == "l":
        d, t = int(x[2]), int(x[3])
        if d not in du:
            du[d] = cp.DirectDuration(1 + (d % 4)) if d % 2 else cp.RatioDuration(1 + (d % 3))
        o = ce.Chronon(du[d])
        o.pitch = i
        o.pitch_list = [i, i + 12]          # a mutable parameter value
        kids = None
    else:
        t = int(x[2])
        kids = [gbuild(k, ev, du, te) for k in x[3:]]
        if i % 3 == 0:
            o = (Voice if x[0] == "s" else Staff)(kids, tag=f"t{i}", instruments=[f"instrument{i}"])
        elif i % 3 == 1 and x[0] == "s":
            o = Part(kids, tag=f"t{i}", instruments=[f"instrument{i}"])
        else:
            o = (ce.Consecution if x[0] == "s" else ce.Concurrence)(kids, tag=f"t{i}")
    if t not in te:
        if t % 7 == 3:
            te[t] = cp.DirectTempo(60)          # the neutral tempo, set explicitly (the commonest event there is)
        else:
            te[t] = [lambda: cp.DirectTempo(60 + t), lambda: cp.FlexTempo([[0, 60 + t], [2, 30], [3, 90, 1]]),
                     lambda: cp.FlexTempo([[0, 60], [1, 60]])][t % 3]()
    o.tempo = te[t]
    ev[i] = o
    return o


def slots(e):
    """identity slots in DFS order: event, duration object (leaf), tempo object"""
    if isinstance(e, ce.Chronon):
        return [e, e.duration, e.tempo]
    out = [e, e.tempo]
    for c in e:
        out += slots(c)
    return out


def reach(e, acc=None):
    """all mutable objects reachable from e (events, durations, tempi and what is inside trajectories)"""
    if acc is None:
        acc = {}
    if id(e) in acc:
        return acc
    acc[id(e)] = e
    if isinstance(e, ce.abc.Event):
        t = e.tempo
        if isinstance(e, ce.Chronon):
            acc[id(e.duration)] = e.duration
        for extra in ("instruments", "pitch_list"):
            v = e.__dict__.get(extra)
            if isinstance(v, list):
                acc[id(v)] = v
        for v in e.__dict__.get("bars", ()):
            acc[id(v)] = v                   # the mutable objects inside a tuple-valued side attribute
        rm = e.__dict__.get("rest_maker")
        if rm is not None:
            acc[id(rm)] = rm                 # a callable object with state
            acc[id(rm.made)] = rm.made
        if not (isinstance(e, ce.Envelope) and False):
            if id(t) not in acc:
                if isinstance(t, ce.Envelope):
                    # a trajectory is itself an event tree; its own `tempo` attribute is not followed (infinite default chain)
                    acc[id(t)] = t
                    for p in t:
                        acc[id(p)] = p
                        acc[id(p.duration)] = p.duration
                        pt = getattr(p, "tempo", None)
                        if pt is not None:
                            acc[id(pt)] = pt
                else:
                    acc[id(t)] = t
        if not isinstance(e, ce.Chronon):
            for c in e:
                reach(c, acc)
    return acc


def deep_snap(e):
    """everything observable: kind, tag, attributes, durations, tempo points, children"""
    def tsnap(t):
        if isinstance(t, cp.FlexTempo):
            return ("flex", tuple((round(float(p.duration) * TICK), p.tempo.bpm, p.curve_shape) for p in t))
        return ("direct", t.bpm)
    if isinstance(e, ce.Chronon):
        return ("L", round(float(e.duration) * TICK), type(e.duration).__name__, e.tag, getattr(e, "pitch", None),
                tuple(getattr(e, "pitch_list", ())), tsnap(e.tempo))
    bars = getattr(e, "bars", None)
    bars = None if bars is None else (float(bars[0]), tuple(bars[1]), tuple(getattr(getattr(e, "rest_maker", None), "made", ())))
    return (type(e).__name__, e.tag, tuple(getattr(e, "instruments", ())), bars, tsnap(e.tempo), tuple(deep_snap(c) for c in e))


def mutate_everything(e, salt):
    """change durations, parameters, tags, tempo values and children of every node"""
    if isinstance(e, ce.Chronon):
        e.duration.add(salt)                 # in place on the duration object
        e.pitch = (getattr(e, "pitch", 0) or 0) + 1000 + salt
        if isinstance(getattr(e, "pitch_list", None), list):
            e.pitch_list.append(salt)        # in place on the parameter value
        e.tag = f"mut{salt}"
        mutate_tempo(e.tempo, salt)
        return
    if isinstance(getattr(e, "instruments", None), list):
        e.instruments.append(f"mut{salt}")   # in place on the side attribute
    if getattr(e, "rest_maker", None) is not None:
        e.rest_maker(salt)                   # using it changes its state
    if getattr(e, "bars", None) is not None:
        e.bars[0].add(salt)                  # in place on the objects a tuple-valued side attribute holds
        e.bars[1].append(salt)
    e.tag = f"mut{salt}"
    mutate_tempo(e.tempo, salt)
    for c in list(e):
        mutate_everything(c, salt)
    e.append(ce.Chronon(salt))
    if len(e) > 1:
        del e[0]


def mutate_tempo(t, salt):
    if isinstance(t, cp.FlexTempo):
        for p in t:
            p.duration.add(salt)
            p.tempo.bpm = p.tempo.bpm + salt
            p.curve_shape = (p.curve_shape or 0) + salt
        t.append(ce.Chronon(salt))
        t[-1].tempo = cp.DirectTempo(77)
        t[-1].curve_shape = 0
    else:
        t.bpm = t.bpm + salt


def unpicklable(case, ev):
    """every fourth case (decided by the case text) carries an unpicklable parameter on its first leaf: copy() then takes
    its documented fallback (copy.deepcopy) instead of the pickle round trip"""
    if sum(map(ord, sx.show(case))) % 4 != 0:
        return
    for o in reach(ev).values():
        if isinstance(o, ce.Chronon):
            o.hook = lambda: None
            return


def conv_tempo(case):
    """the converter's tempo: a trajectory, or (every third case) the neutral constant / another constant"""
    k = sum(map(ord, sx.show(case))) % 6
    return cp.DirectTempo(60) if k == 1 else cp.DirectTempo(90) if k == 4 else cp.FlexTempo([[0, 60], [2, 30, 1], [4, 120]])


def run_copyop(case):
    op = case[1]
    src = gbuild(case[2], {}, {}, {})
    unpicklable(case, src)
    before = deep_snap(src)
    if op == "copy":
        r = src.copy()
    elif op == "dcopy":
        r = src.destructive_copy()
    elif op == "tconv":
        r = cc.TempoConverter(conv_tempo(case)).convert(src)
    elif op == "metr":
        r = cc.EventToMetrizedEvent().convert(src)
    else:
        raise ValueError(op)
    flags = []
    if deep_snap(src) != before:
        flags.append("source-changed-by-the-operation")
    sl = slots(r)
    first = {}
    pattern = []
    for o in sl:
        pattern.append(first.setdefault(id(o), len(first)))
    a, b = reach(src), reach(r)
    shared = sorted(type(a[i]).__name__ for i in a if i in b)
    rs = deep_snap(r)
    mutate_everything(r, 3)
    if deep_snap(src) != before:
        flags.append("a-change-of-the-result-is-visible-in-the-source")
    src2 = gbuild(case[2], {}, {}, {})   # the mutation test the other way round on a fresh pair
    unpicklable(case, src2)
    if op == "copy":
        r2 = src2.copy()
    elif op == "dcopy":
        r2 = src2.destructive_copy()
    elif op == "tconv":
        r2 = cc.TempoConverter(conv_tempo(case)).convert(src2)
    else:
        r2 = cc.EventToMetrizedEvent().convert(src2)
    rs2 = deep_snap(r2)
    mutate_everything(src2, 5)
    if deep_snap(r2) != rs2:
        flags.append("a-change-of-the-source-is-visible-in-the-result")
    out = ["ok", ["pattern"] + pattern, ["shared"] + shared]
    if flags:
        out.append(["flags"] + flags)
    return out


def run(case):
    k = case[0]
    if k == "copyop":
        try:
            return run_copyop(case)
        except Exception as e:  # noqa
            return ["err", type(e).__name__]
    memo = {}
    t = build(case[1], memo)
    try:
        if k == "setp":
            su = case[2] in ("1", "true")
            heap_apply(memo, case[4], "pitch", int)
            g = gfun(case[3])
            calls = []

            def f(old, _g=g):
                calls.append(1)
                return _g(old)
            kw = {} if su else {"set_unassigned_parameter": False}      # True is the documented default: not passed
            plain = case[3][0] == "const" and int(case[3][1]) % 2 == 0
            if plain:
                t.set_parameter("pitch", int(case[3][1]), **kw)   # a plain value instead of a function
            elif sum(map(ord, sx.show(case))) % 4 == 1:
                # the function may be a class (str, Fraction, a user-defined wrapper ...): calling it yields the new value
                class Apply:
                    def __new__(cls, old):
                        return f(old)
                t.set_parameter("pitch", Apply, **kw)
            else:
                t.set_parameter("pitch", f, **kw)
            ls = {o.oid: o for o in leaves(t)}
            out = ["ok"] + [[i, sval(getattr(ls[i], "pitch", None))] for i in sorted(ls)]
            return out if plain else out + [["calls", len(calls)]]
        if k == "mutp":
            # the same traversal through mutate_parameter with mutable values
            for i, v in case[4]:
                o = memo.get(int(i))
                if o is not None and isinstance(o, ce.Chronon) and v != "none":
                    o.pitch = Box(int(v))
            c = int(case[3][1])
            t.mutate_parameter("pitch", lambda b: setattr(b, "v", b.v + c))
            ls = {o.oid: o for o in leaves(t)}
            out = ["ok"] + [[i, sval(getattr(ls[i], "pitch", Box(None)).v)] for i in sorted(ls)]
            # "once per distinct leaf" is about leaves, not about the objects they hold: all leaves share ONE object as
            # another parameter (a dynamics marking used for the whole passage); the function is served once per distinct leaf
            served = []
            for o in ls.values():
                o.marking = served
            t.mutate_parameter("marking", lambda m: m.append(1))
            if len(served) != len(ls):
                out.append(["shared-parameter-object-served", len(served), "distinct-leaves", len(ls), "differs"])
            return out
        if k == "getp":
            # every third read case (decided by the case text) stores tuple-valued parameters
            tuples = sum(map(ord, sx.show(case))) % 3 == 0
            methods = not tuples and sum(map(ord, sx.show(case))) % 4 == 1     # ... every fourth one bound methods of objects
            heap_apply(memo, case[4], "pitch", (lambda v: Pitches((int(v), int(v) + 100))) if tuples
                       else (lambda v: Holder(int(v)).get) if methods else int)
            flat = case[2] in ("1", "true")
            filt = case[3] in ("1", "true")
            kw = {}
            if flat:
                kw["flat"] = True                       # False / False are the documented defaults: not passed
            if filt:
                kw["filter_undefined"] = True
            r = t.get_parameter("pitch", **kw)
            return ["ok"] + [snest(x) for x in r]
        if k == "setdur":
            # leaves of equal length may share ONE Duration object (a note value defined once and used for many notes):
            # every value that occurs for an object id divisible by 3 comes from a pool
            pool = {}
            for i, v in case[3]:
                o = memo.get(int(i))
                if o is not None and isinstance(o, ce.Chronon) and v != "none":
                    if int(i) % 3 == 0:
                        o.duration = pool.setdefault(int(v), cp.DirectDuration(int(v) / TICK))
                    else:
                        o.duration = int(v) / TICK
            before = ticks(t.duration)
            n = int(case[2])
            kind = (n // 7) % 5 if before != 0 else 0     # (the zero-duration branch of the setter is outside C16)
            t.duration = (n / TICK if kind < 2 else Fraction(n, TICK) if kind == 2 else f"{n}/{TICK}" if kind == 3
                          else cp.DirectDuration(n / TICK))          # the target in every kind of Duration.Type
            ls = {o.oid: o for o in leaves(t)}
            return ["ok", ticks(t.duration)] + [[i, ticks(ls[i].duration)] for i in sorted(ls)]
    except Exception as e:  # noqa
        return ["err", type(e).__name__]
    raise ValueError(case)


def main():
    for line in sys.stdin:
        line = line.strip()
        if not line:
            print()
            continue
        try:
            print(sx.show(run(sx.parse(line))))
        except Exception as e:
            print(sx.show(["runner-error", type(e).__name__, str(e).replace("(", "[").replace(")", "]").replace(" ", "_")[:200]]))
        sys.stdout.flush()


if __name__ == "__main__":
    main()
