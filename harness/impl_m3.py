"""Implementation runner for the identity-tree cases (bulk edits once per distinct object, reads per
position, duration setter).  Trees: (l id) | (s id kids...) | (p id kids...): equal ids = one object."""
import sys
import os
import logging

sys.path.insert(0, os.path.dirname(os.path.abspath(__file__)))
import sx  # noqa: E402

logging.disable(logging.CRITICAL)
from mutwo import core_events as ce  # noqa: E402

TICK = 10**10


class Box:
    """a mutable parameter value for mutate_parameter"""

    def __init__(self, v):
        self.v = v


def build(x, memo):
    i = int(x[1])
    if i in memo:
        return memo[i]
    if x[0] == "l":
        o = ce.Chronon(1)
        o.oid = i
    else:
        cls = ce.Consecution if x[0] == "s" else ce.Concurrence
        o = cls([build(k, memo) for k in x[2:]])
        o.oid = i
    memo[i] = o
    return o


def leaves(e, seen=None):
    out = []
    if isinstance(e, ce.Chronon):
        return [e]
    for c in e:
        out += leaves(c)
    return out


def heap_apply(memo, hp, attr, conv):
    for i, v in hp:
        o = memo.get(int(i))
        if o is not None and isinstance(o, ce.Chronon) and v != "none":
            setattr(o, attr, conv(v))


def gfun(g):
    k, c = g[0], int(g[1])
    if k == "const":
        return lambda old: c
    if k == "addc":
        return lambda old: c if old is None else old + c
    if k == "mul":
        return lambda old: 0 if old is None else old * c
    raise ValueError(g)


def ticks(d):
    x = d.beat_count * TICK
    return round(x)


def sval(v):
    return "none" if v is None else v


def snest(t):
    if isinstance(t, tuple):
        return ["t"] + [snest(x) for x in t]
    return sval(t)


def run(case):
    k = case[0]
    memo = {}
    t = build(case[1], memo)
    try:
        if k == "setp":
            su = case[2] in ("1", "true")
            heap_apply(memo, case[4], "pitch", int)
            g = gfun(case[3])
            calls = []

            def f(old, _g=g):
                calls.append(1)
                return _g(old)
            if case[3][0] == "const" and int(case[3][1]) % 2 == 0:
                t.set_parameter("pitch", int(case[3][1]), set_unassigned_parameter=su)   # a plain value instead of a function
            else:
                t.set_parameter("pitch", f, set_unassigned_parameter=su)
            ls = {o.oid: o for o in leaves(t)}
            return ["ok"] + [[i, sval(getattr(ls[i], "pitch", None))] for i in sorted(ls)]
        if k == "mutp":
            # the same traversal through mutate_parameter with mutable values
            for i, v in case[4]:
                o = memo.get(int(i))
                if o is not None and isinstance(o, ce.Chronon) and v != "none":
                    o.pitch = Box(int(v))
            c = int(case[3][1])
            t.mutate_parameter("pitch", lambda b: setattr(b, "v", b.v + c))
            ls = {o.oid: o for o in leaves(t)}
            return ["ok"] + [[i, sval(getattr(ls[i], "pitch", Box(None)).v)] for i in sorted(ls)]
        if k == "getp":
            heap_apply(memo, case[4], "pitch", int)
            flat = case[2] in ("1", "true")
            filt = case[3] in ("1", "true")
            r = t.get_parameter("pitch", flat=flat, filter_undefined=filt)
            return ["ok"] + [snest(x) for x in r]
        if k == "setdur":
            heap_apply(memo, case[3], "duration", lambda v: int(v) / TICK)
            before = ticks(t.duration)
            t.duration = int(case[2]) / TICK
            ls = {o.oid: o for o in leaves(t)}
            return ["ok", ticks(t.duration)] + [[i, ticks(ls[i].duration)] for i in sorted(ls)]
    except Exception as e:  # noqa
        return ["err", type(e).__name__]
    raise ValueError(case)


def main():
    for line in sys.stdin:
        line = line.strip()
        if not line:
            print()
            continue
        try:
            print(sx.show(run(sx.parse(line))))
        except Exception as e:
            print(sx.show(["runner-error", type(e).__name__, str(e).replace("(", "[").replace(")", "]").replace(" ", "_")[:200]]))
        sys.stdout.flush()


if __name__ == "__main__":
    main()
