"""Python transliteration of the M1 denotation (dur / at / flat) over s-expression trees.

Used by the property oracles: the theorem statements of Properties/C0x.v are re-stated over the
observations of the real implementation. Trees: ["L", d, l] | ["S", tag, tempo, kids...] | ["P", ...].
All numbers may arrive as strings (atoms); `norm` converts them to ints.
"""


def norm(t):
    if t[0] == "L":
        return ("L", int(t[1]), int(t[2]))
    return (t[0], int(t[1]), int(t[2])) + tuple(norm(c) for c in t[3:])


def kids(t):
    return () if t[0] == "L" else t[3:]


def dur(t):
    if t[0] == "L":
        return t[1]
    if t[0] == "S":
        return sum(dur(c) for c in kids(t))
    return max([dur(c) for c in kids(t)], default=0)


def at(t, x):
    """what is active at time x: label | tuple of voice slices | None"""
    if t[0] == "L":
        return t[2] if 0 <= x < t[1] else None
    if t[0] == "S":
        o = 0
        for c in kids(t):
            d = dur(c)
            if o <= x < o + d:
                return at(c, x - o)
            o += d
        return None
    vs = tuple(v for v in (at(c, x) for c in kids(t)) if v is not None)
    return vs if vs else None


def at_seq(parts, x):
    o = 0
    for c in parts:
        d = dur(c)
        if o <= x < o + d:
            return at(c, x - o)
        o += d
    return None


def flat(t, off=0, path=()):
    """[(start, stop, label, voice path)] including zero-length leaves, DFS order"""
    if t[0] == "L":
        return [(off, off + t[1], t[2], path)]
    out = []
    if t[0] == "S":
        for c in kids(t):
            out += flat(c, off, path)
            off += dur(c)
    else:
        for i, c in enumerate(kids(t)):
            out += flat(c, off, path + (i,))
    return out


def breakpoints(t, off=0):
    """all times at which `at` may change (leaf boundaries), absolute"""
    out = set()
    for (a, b, _, _) in flat(t, off):
        out.add(a)
        out.add(b)
    out.add(off)
    out.add(off + dur(t))
    return out


def probes(points):
    """representatives of every maximal interval on which a piecewise constant function with
    breakpoints `points` is constant: each breakpoint b, b-1 and one beyond both ends"""
    s = set()
    for b in points:
        s.add(b)
        s.add(b - 1)
    if points:
        s.add(min(points) - 2)
        s.add(max(points) + 1)
    return sorted(s)


def shape(t):
    return t[0] if t[0] == "L" else (t[0], t[1], t[2])


def wf(t):
    if t[0] == "L":
        return t[1] >= 0
    return all(wf(c) for c in kids(t))


def depth(t):
    return 1 if t[0] == "L" else 1 + max([depth(c) for c in kids(t)], default=0)


def size(t):
    return 1 + sum(size(c) for c in kids(t))


def has_sim(t):
    return t[0] == "P" or any(has_sim(c) for c in kids(t))
