"""Implementation runner for the M6 (helpers, lazy cache) cases; see driver.ml."""
import sys
import os
import logging
import tempfile
from fractions import Fraction

sys.path.insert(0, os.path.dirname(os.path.abspath(__file__)))
import sx  # noqa: E402

logging.disable(logging.CRITICAL)
from mutwo import core_utilities as cu  # noqa: E402
from mutwo import core_converters as cc  # noqa: E402
from mutwo import core_events as ce  # noqa: E402


def q(x):
    return Fraction(int(x[1]), int(x[2]))


def sq(v):
    v = Fraction(v)
    return ["q", v.numerator, v.denominator]


def nest(x):
    if isinstance(x, list):
        return [nest(i) for i in x[1:]]
    return int(x)


def snest(x):
    if isinstance(x, list):
        return ["l"] + [snest(i) for i in x]
    return x


def pairs(x):
    return [(int(a), int(b)) for a, b in x]


def fl(a):
    return float.fromhex(a) if "x" in a else float(a)


def run(case):
    k = case[0]
    try:
        if k == "sss":
            data = [q(x) for x in case[2:]]
            before = list(data)
            r = cu.scale_sequence_to_sum(data, q(case[1]))
            out = ["ok"] + [sq(v) for v in r]
            if data != before:
                out.append(["input-changed"])
            # the documented return type is the type of the input sequence
            rt = cu.scale_sequence_to_sum(tuple(data), q(case[1]))
            if not isinstance(r, list) or not isinstance(rt, tuple) or list(rt) != list(r):
                out.append(["sequence-type-changed"])
            return out
        if k == "acc":
            return ["ok"] + list(cu.accumulate_from_n([int(x) for x in case[2:]], int(case[1])))
        if k == "cyc":
            return ["ok"] + [list(p) for p in cu.cyclic_permutations(tuple(int(x) for x in case[1:]))]
        if k == "closest":
            data = tuple(int(x) for x in case[2:])
            i = cu.find_closest_index(int(case[1]), data)
            item = cu.find_closest_item(int(case[1]), data)
            out = ["ok", i]
            if data[i] != item:
                out.append(["closest-item-differs"])
            # with a key function on records
            recs = tuple(("r", v) for v in data)
            if cu.find_closest_index(int(case[1]), recs, key=lambda r: r[1]) != i:
                out.append(["key-variant-differs"])
            # ... and the item search with a key returns the ELEMENT of the data (the record), not its key
            if cu.find_closest_item(int(case[1]), recs, key=lambda r: r[1]) != recs[i]:
                out.append(["closest-item-with-key-differs"])
            return out
        if k == "round":
            # (round (q n d) digits) with n/d an exactly representable float, or (round (i n) digits) for an int / Fraction
            n, d, digits = int(case[1][1]), int(case[1][2]), int(case[2])
            kind = case[3] if len(case) > 3 else "float"
            x = n / d if kind == "float" else (n if kind == "int" else Fraction(n, d))
            if kind == "float" and Fraction(x) != Fraction(n, d):
                raise AssertionError("not an exact float")
            r = cu.round_floats(x, digits)
            if kind != "float":
                return ["ok", "unchanged" if (r is x or (r == x and type(r) is type(x))) else "changed"]
            fr = Fraction(r) * 10 ** digits
            k_ = round(fr)
            # the returned float is the double nearest to k / 10^digits
            exact = float(Fraction(k_, 10 ** digits)) == r
            return ["ok", k_, "nearest-double" if exact else "not-the-nearest-double"]
        if k == "uniq":
            data = [int(x) for x in case[1:]]
            r = list(cu.uniqify_sequence(data))
            out = ["ok"] + r
            # the documented purpose: items that are not hashable (here one-element lists), and the sequence type is kept
            boxed = cu.uniqify_sequence(tuple([x] for x in data))
            if not isinstance(boxed, tuple) or [b[0] for b in boxed] != r:
                out.append(["unhashable-variant-differs"])
            return out
        if k == "nget":
            n = nest(case[1])
            path = [int(i) for i in case[2:]]
            r = cu.get_nested_item_from_index_sequence(path, n)
            chained = n
            for i in path:
                chained = chained[i]
            out = ["ok", snest(r)]
            if chained != r:
                out.append(["chained-indexing-differs"])
            return out
        if k == "nset":
            n = nest(case[1])
            path = [int(i) for i in case[3:]]
            cu.set_nested_item_from_index_sequence(path, n, nest(case[2]))
            return ["ok", snest(n)]
        if k == "ndel":
            n = nest(case[1])
            path = [int(i) for i in case[2:]]
            cu.del_nested_item_from_index_sequence(path, n)
            return ["ok", snest(n)]
        if k == "sums":
            if len(case) == 2:
                r = cu.find_numbers_which_sums_up_to(int(case[1]))
            else:
                r = cu.find_numbers_which_sums_up_to(int(case[1]), [int(x) for x in case[2]], set(int(x) for x in case[3]))
            return ["ok"] + [list(t) for t in r]
        if k == "attr":
            c = ce.Chronon(1)
            for a, b in pairs(case[1]):
                setattr(c, f"a{a}", b)
            return ["ok", cc.ChrononToAttribute(f"a{int(case[2])}", int(case[3])).convert(c)]
        if k == "kwarg":
            d = {f"p{a}": b for a, b in pairs(case[1])}
            r = cc.MutwoParameterDictToKeywordArgument(f"p{int(case[2])}", f"k{int(case[3])}").convert(d)
            out = ["ok", "none"] if r is None else ["ok", int(r[0][1:]), r[1]]
            # the keyword defaults to the parameter name when it is not given
            r2 = cc.MutwoParameterDictToKeywordArgument(f"p{int(case[2])}").convert(d)
            if (r is None) != (r2 is None) or (r2 is not None and (r2[0] != f"p{int(case[2])}" or r2[1] != r[1])):
                out.append(["default-keyword-differs"])
            # the duration extractor is the same extraction with its two names given explicitly, or defaulting to the
            # configured names ("duration" / "duration")
            r3 = cc.MutwoParameterDictToDuration(f"p{int(case[2])}", f"k{int(case[3])}").convert(d)
            if (r3 is None) != (r is None) or (r is not None and tuple(r3) != tuple(r)):
                out.append(["duration-extractor-with-explicit-names-differs"])
            d4 = dict(d, duration=77)
            r4 = cc.MutwoParameterDictToDuration().convert(d4)
            if r4 is None or tuple(r4) != ("duration", 77):
                out.append(["duration-extractor-default-names-differs"])
            # the leaf maker with its default converter sequence and default leaf class: a leaf of that duration
            try:
                e5 = cc.MutwoParameterDictToChronon().convert({"duration": 3, "p1": 5})
                if not (isinstance(e5, ce.Chronon) and e5.duration == 3):
                    out.append(["leaf-maker-defaults-differ"])
                e6 = cc.MutwoParameterDictToChronon([cc.MutwoParameterDictToDuration(f"p{int(case[2])}")]).convert(dict(d, duration=1))
                if r is not None and not (isinstance(e6, ce.Chronon) and e6.duration == r[1]):
                    out.append(["leaf-maker-with-a-named-duration-differs"])
            except Exception as exc:  # noqa
                if r is not None:
                    out.append(["leaf-maker-raised-" + type(exc).__name__ + "-differs"])
            return out
        if k == "chronon":
            d = {f"p{a}": b for a, b in pairs(case[1])}
            convs = [cc.MutwoParameterDictToKeywordArgument(f"p{a}", f"k{b}") for a, b in pairs(case[2])]

            class Rec(ce.Chronon):
                def __init__(self, **kw):
                    super().__init__(1)
                    self.kw = kw

            r = cc.MutwoParameterDictToChronon(convs, Rec).convert(d) if convs else None
            if r is None:
                return ["ok"]
            return ["ok"] + [[int(a[1:]), b] for a, b in r.kw.items()]
        if k == "lazy":
            force = case[1] in ("1", "true")
            calls = []
            with tempfile.TemporaryDirectory() as td:
                path = os.path.join(td, "cache.pickle")

                # the call form is decided by the case text: one positional argument, the same value as a keyword argument
                # behind a constant positional one, or split over two positional arguments
                form = sum(map(ord, sx.show(case))) % 3

                @cu.compute_lazy(path, force_to_compute=force)
                def f(a, b=0, *, x=0):
                    if a + b + x == 99:
                        raise ValueError("99 is outside this function's domain")     # the bare function raises for this argument
                    calls.append(a + b + x)
                    return (a + b + x) * (a + b + x) + 1

                out = ["ok"]
                for a in case[2:]:
                    n0 = len(calls)
                    a = int(a)
                    try:
                        v = f(a) if form == 0 else f(7, x=a - 7) if form == 1 else f(3, a - 3)
                    except Exception as exc:  # noqa: for the argument 99 that is what the bare function does as well
                        out.append(["raised", type(exc).__name__])
                        continue
                    out.append([v, "1" if len(calls) > n0 else "0"])
            return out
        if k == "lazy2":
            force = case[1] in ("1", "true")
            calls = []
            with tempfile.TemporaryDirectory() as td:
                path = os.path.join(td, "cache.pickle")

                # every third history (decided by the case text) hands the number over as an EVENT: a Chronon that carries
                # it as the name of a parameter (p<a>); the "m" operations re-label ONE persistent Chronon in place
                as_event = sum(map(ord, sx.show(case))) % 3 == 0

                def val(arg):
                    if isinstance(arg, ce.Chronon):
                        return [int(n[1:]) for n in vars(arg) if n.startswith("p") and n[1:].lstrip("-").isdigit()][0]
                    return arg[0]

                def wrap(a):
                    if not as_event:
                        return [a]
                    c = ce.Chronon(1)
                    setattr(c, f"p{a}", 1)
                    return c

                def bare(arg):
                    a = val(arg)
                    calls.append([a])
                    return a * a + 1
                f1 = cu.compute_lazy(path, force_to_compute=force)(bare)
                f2 = cu.compute_lazy(path, force_to_compute=force)(bare)
                box = wrap(0)        # ONE argument object, mutated in place by the "m" operations
                out = ["ok"]
                for op in case[2:]:
                    if op[0] == "del":
                        if os.path.exists(path):
                            os.remove(path)
                        out.append("del")
                        continue
                    a = int(op[1])
                    n0 = len(calls)
                    if op[0] == "m":
                        if as_event:
                            for n in [n for n in vars(box) if n.startswith("p") and n[1:].lstrip("-").isdigit()]:
                                delattr(box, n)
                            setattr(box, f"p{a}", 1)
                        else:
                            box[0] = a
                        v = f1(box)
                    elif op[0] == "c2":
                        v = f2(wrap(a))
                    else:
                        v = f1(wrap(a))
                    out.append([v, "1" if len(calls) > n0 else "0"])
            return out
        if k == "scale":
            a, b, c, d, sh = [fl(x) for x in case[1:6]]
            return ["ok"] + [float(cu.scale(fl(v), a, b, c, d, sh)).hex() for v in case[6:]]
    except Exception as e:  # noqa
        return ["err", type(e).__name__]
    raise ValueError(case)


def main():
    for line in sys.stdin:
        line = line.strip()
        if not line:
            print()
            continue
        try:
            print(sx.show(run(sx.parse(line))))
        except Exception as e:
            print(sx.show(["runner-error", type(e).__name__, str(e).replace("(", "[").replace(")", "]").replace(" ", "_")[:200]]))
        sys.stdout.flush()


if __name__ == "__main__":
    main()
