"""Tiny s-expression reader/printer shared by generators, implementation runners and oracles.

An s-expression is a Python str (atom) or a list of s-expressions.
Numbers stay atoms (strings) until a consumer converts them.
"""


def parse(s):
    pos = 0
    n = len(s)

    def item():
        nonlocal pos
        while pos < n and s[pos] in " \t\r\n":
            pos += 1
        if pos >= n:
            raise ValueError("eof")
        if s[pos] == "(":
            pos += 1
            acc = []
            while True:
                while pos < n and s[pos] in " \t\r\n":
                    pos += 1
                if pos >= n:
                    raise ValueError("unbalanced: " + s[:80])
                if s[pos] == ")":
                    pos += 1
                    return acc
                acc.append(item())
        st = pos
        while pos < n and s[pos] not in " ()\t\r\n":
            pos += 1
        return s[st:pos]

    return item()


def show(x):
    if isinstance(x, (list, tuple)):
        return "(" + " ".join(show(i) for i in x) + ")"
    if isinstance(x, bool):
        return "1" if x else "0"
    return str(x)
