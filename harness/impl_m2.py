"""Implementation runner for the M2 (envelope) cases; see coq/Extract/driver.ml for the case syntax.

Envelopes are written (E (ticks value shape) ...) for core_events.Envelope and
(T (ticks bpm shape) ...) for core_parameters.FlexTempo; floats travel as C99 hex literals.
"""
import sys
import os
import logging
from fractions import Fraction

sys.path.insert(0, os.path.dirname(os.path.abspath(__file__)))
import sx  # noqa: E402

logging.disable(logging.CRITICAL)
import ranges  # noqa: E402
from mutwo import core_events as ce  # noqa: E402
from mutwo import core_parameters as cp  # noqa: E402

TICK = 10**10


def ticks(duration):
    x = duration.beat_count * TICK
    r = round(x)
    if abs(x - r) > 1e-3:
        raise AssertionError(f"duration {duration!r} is not tick-exact: {x!r}")
    return r


def fl(a):
    return float.fromhex(a) if "x" in a else float(a)


def sf(v):
    return float(v).hex()


def num(v):
    """ints stay ints when integral (as a user would write them), to exercise int/float mixing"""
    f = fl(v)
    return int(f) if f == int(f) and abs(f) < 1e9 else f


class Volume:
    """a parameter object (what an envelope subclass stores on its events); its value is a number in another unit"""

    def __init__(self, level):
        self.level = level


class VolumeEnvelope(ce.Envelope):
    """an envelope whose parameters are objects and whose events store the curve shape under a name of their own: all
    six documented hooks are overridden, and none is the identity (parameter: an object holding 4 x the value; curve shape:
    the attribute `bend` holding 8 x the shape - powers of two, so the conversions are exact in binary floating point)"""

    def event_to_parameter(self, event):
        return event.volume

    def apply_parameter_on_event(self, event, parameter):
        event.volume = parameter

    def parameter_to_value(self, parameter):
        return parameter.level / 4

    def value_to_parameter(self, value):
        return Volume(value * 4)

    def event_to_curve_shape(self, event):
        return event.bend / 8

    def apply_curve_shape_on_event(self, event, curve_shape):
        event.bend = curve_shape * 8


class BoxDuration(cp.abc.Duration):
    """a user-defined duration whose state is a nested mutable object, updated in place by the setter (a copy that is only
    shallow shares it)"""

    def __init__(self, tick_count):
        self._box = [int(tick_count)]

    @property
    def beat_count(self):
        return round(self._box[0] / TICK, 10)

    @beat_count.setter
    def beat_count(self, beat_count):
        self._box[0] = round(float(beat_count) * TICK)


def cdur(i, n, count):
    """the duration of control point i of `count`: floats, every third one a ratio, every fourth one (counted from a start
    that depends on the number of points, so that it is the first point in a quarter of the envelopes) a user-defined class"""
    n = int(n)
    return BoxDuration(n) if (i + count) % 4 == 0 else Fraction(n, TICK) if i % 3 == 1 else n / TICK


def build(x):
    kind = x[0]
    evs = []
    if len(x) == 1:
        return cp.FlexTempo([]) if kind == "T" else ce.Envelope([])      # an envelope without any control point
    if kind == "E" and sum(int(p[0]) for p in x[1:]) % 4 == 1 and os.environ.get("VERIF_PLAIN_ENVELOPES") != "1":
        # every fourth plain envelope (decided by its length) is a subclass with parameter objects
        for i, p in enumerate(x[1:]):
            c = ce.Chronon(cdur(i, p[0], len(x) - 1))
            c.volume = Volume(num(p[1]) * 4)
            c.bend = num(p[2]) * 8
            evs.append(c)
        return VolumeEnvelope(evs)
    if kind == "E":
        for i, p in enumerate(x[1:]):
            # control points with float durations and (every third one) ratio durations: an envelope of mixed duration classes
            c = ce.Chronon(cdur(i, p[0], len(x) - 1))
            c.value = num(p[1])
            c.curve_shape = num(p[2])
            evs.append(c)
        return ce.Envelope(evs)
    if kind == "T" and int(x[-1][0]) == 0 and os.environ.get("VERIF_T_FROM_EVENTS") != "1":
        # the documented constructor: a list of [absolute time, bpm, curve shape] points with plain numbers
        # (the point-list route goes through FlexTempo's own parameter normalisation)
        pts, t0 = [], 0
        for i, p in enumerate(x[1:]):
            # every third time as a Fraction - except on a repeated time (the constructor compares the raw numbers, and the
            # double nearest to a decimal is not the decimal: a jump has to be written with one and the same number)
            alone = int(p[0]) != 0 and (i == 0 or int(x[i][0]) != 0)
            v = num(p[1])
            if i % 4 == 1:
                v = cp.DirectTempo(v)                         # the bpm of a point may be given as a tempo object
            elif i % 4 == 3 and v:
                v = cp.WesternTempo(v / 2, reference=2)       # ... of any kind: half the number of half notes
            pts.append([Fraction(t0, TICK) if i % 3 == 2 and alone else t0 / TICK, v, num(p[2])])
            t0 += int(p[0])
        return cp.FlexTempo(pts)
    if kind == "T":
        t = cp.FlexTempo([])
        for p in x[1:]:
            c = ce.Chronon(int(p[0]) / TICK)
            c.tempo = cp.DirectTempo(fl(p[1]))
            c.curve_shape = num(p[2])
            t.append(c)
        return t
    raise ValueError(kind)


def snap(e):
    out = ["E"]
    for ev, v, c in zip(e, e.value_tuple, e.curve_shape_tuple):
        out.append([ticks(ev.duration), sf(v), sf(c)])
    return out


def T(n):
    """a time argument in one of the kinds of Duration.Type: float (half of the values), Fraction, a ratio string,
    a RatioDuration or a DirectDuration object - chosen by the value itself, so that a case always replays the same"""
    n = int(n)
    k = (abs(n) // 3) % 10
    if os.environ.get("VERIF_FLOAT_ARGS") == "1":
        return n / TICK
    if n < 0:
        return Fraction(n, TICK) if k == 5 else f"{n}/{TICK}" if k == 6 else n / TICK
    if n % TICK == 0 and k < 3:
        return n // TICK                    # whole beats as a plain int
    if k < 5:
        return n / TICK
    if k == 5:
        return Fraction(n, TICK)
    if k == 6:
        return f"{n}/{TICK}"
    if k == 7:
        return cp.RatioDuration(Fraction(n, TICK))
    if k == 8:
        return cp.DirectDuration(n / TICK)
    return Fraction(n, TICK)


def err(exc):
    return ["err", type(exc).__name__]


def spoint(p):
    t, v, c = p
    return [ticks(cp.abc.Duration.from_any(t)), sf(v), sf(c)]


def query(e, q):
    k = q[0]
    try:
        if k == "value_at":
            return ["ok", sf(e.value_at(T(q[1])))]
        if k == "parameter_at":
            p = e.parameter_at(T(q[1]))
            return ["ok", sf(e.parameter_to_value(p))]
        if k == "curve_shape_at":
            return ["ok", sf(e.curve_shape_at(T(q[1])))]
        if k == "point_at":
            return ["ok", spoint(e.point_at(T(q[1])))]
        if k == "range":
            return ["ok", [spoint(p) for p in e.time_range_to_point_tuple(ranges.Range(int(q[1]) / TICK, int(q[2]) / TICK))]]
        if k == "integrate":
            return ["ok", sf(e.integrate_interval(T(q[1]), T(q[2])))]
        if k == "average":
            r = e.get_average_value(T(q[1]), T(q[2]))
            r2 = e.parameter_to_value(e.get_average_parameter(T(q[1]), T(q[2])))
            if r != r2 and not (r != r and r2 != r2):
                return ["ok", "average-parameter-differs"]
            return ["ok", sf(r)]
        if k == "average_all":
            return ["ok", sf(e.get_average_value())]
        if k == "average_from":
            r = e.get_average_value(T(q[1]))
            r2 = e.parameter_to_value(e.get_average_parameter(T(q[1])))
            return ["ok", sf(r)] if (r == r2 or (r != r and r2 != r2)) else ["ok", "average-parameter-differs"]
        if k == "average_to":
            return ["ok", sf(e.get_average_value(None, T(q[1])))]
        if k == "is_static":
            return ["ok", "1" if e.is_static else "0"]
        if k == "points":
            return ["ok", [[ticks(t), sf(v), sf(c)] for t, v, c in zip(e.absolute_time_tuple, e.value_tuple, e.curve_shape_tuple)]]
    except Exception as exc:  # noqa
        return err(exc)
    raise ValueError(f"unknown query {q}")


# ---------------------------------------------------------------- tempo conversion / metrize
from mutwo import core_converters as cc  # noqa: E402

C_, S_, P_ = ce.Chronon, ce.Consecution, ce.Concurrence


_ALL_RATIO = [False]
_SHARED = {}


def all_ratio(x):
    """deterministic per tree: a quarter of the trees have ratio durations on every leaf"""
    def total(t):
        return int(t[1]) if t[0] == "L" else sum(total(k) for k in t[3:])
    return (total(x) // 7) % 4 == 0


def build_tree_top(x):
    _SHARED.clear()
    _ALL_RATIO[0] = all_ratio(x)
    try:
        return build_tree(x)
    finally:
        _ALL_RATIO[0] = False


def build_tree(x):
    """M1 syntax: (L d l) | (S tag tempo kids...) | (P tag tempo kids...); tempo ids ignored here"""
    if x[0] == "L":
        # every fifth label is a leaf with a ratio duration (as in the M1 runner); a quarter of the trees are written in
        # ratios throughout (decided by the tree itself: see all_ratio)
        l = int(x[2])
        if l >= 1000 and (l, int(x[1])) in _SHARED:
            return _SHARED[(l, int(x[1]))]        # labels >= 1000: ONE leaf object at several positions
        c = C_(Fraction(int(x[1]), TICK) if (l % 5 == 2 or _ALL_RATIO[0]) else int(x[1]) / TICK)
        c.name = l
        if l >= 1000:
            _SHARED[(l, int(x[1]))] = c
        return c
    cls = S_ if x[0] == "S" else P_
    # a node may carry a tempo of its own: a tempo CONVERTER does not apply it (only metrize does), the leaf durations
    # are those of the bare tree
    tp = {0: None, 1: cp.DirectTempo(90), 2: cp.FlexTempo([[0, 60], [1, 120, 1], [2, 40]])}.get(int(x[2]) % 3)
    return cls([build_tree(k) for k in x[3:]], tempo=tp)


def build_tempo(x):
    if x[0] == "C":
        if fl(x[1]) == 120:
            return cp.WesternTempo(60, reference=2)       # 120 bpm written as 60 half notes per minute
        return cp.DirectTempo(fl(x[1]))
    if x[0] == "D":
        b = fl(x[1][1])
        if b == 120:
            return cp.WesternTempo(60, reference=2)
        return cp.DirectTempo(b)                        # (a plain number is not a Tempo: the converter's parameter is documented as a Tempo object)
    return build(["T"] + x[1:])


def build_ttree(x):
    if x[0] == "L":
        c = C_(int(x[1]) / TICK)
        c.tempo = build_tempo(x[2])
        return c
    cls = S_ if x[0] == "S" else P_
    return cls([build_ttree(k) for k in x[2:]], tempo=build_tempo(x[1]))


def leaf_durs(e):
    if isinstance(e, C_):
        return [sf(e.duration.beat_count)]
    out = []
    for c in e:
        out += leaf_durs(c)
    return out


def shape_of(e):
    if isinstance(e, C_):
        return ["L", getattr(e, "name", -1)]
    return ["S" if isinstance(e, S_) else "P"] + [shape_of(c) for c in e]


def tempo_snap(t):
    if isinstance(t, cp.FlexTempo):
        return ["flex"] + [[ticks(ev.duration), sf(v), sf(c)] for ev, v, c in zip(t, t.value_tuple, t.curve_shape_tuple)]
    return ["direct", sf(t.bpm)]


def full_snap(e):
    """durations + tempo of every node"""
    if isinstance(e, C_):
        return ["L", sf(e.duration.beat_count), tempo_snap(e.tempo)]
    return ["S" if isinstance(e, S_) else "P", tempo_snap(e.tempo)] + [full_snap(c) for c in e]


def neutral(e):
    t = e.tempo
    ok = (t.bpm == 60) and (not isinstance(t, cp.FlexTempo) or (t.is_static and t.value_tuple[0] == 60))
    if isinstance(e, C_):
        return ok
    return ok and all(neutral(c) for c in e)


def _walk(e):
    yield e
    if not isinstance(e, C_):
        for c in e:
            yield from _walk(c)


def run_convert(case):
    tempo = build_tempo(case[1])
    # the documented option is mostly left at its default; it only concerns the `tempo` attribute of converted nodes, not
    # the durations
    conv = cc.TempoConverter(tempo, apply_converter_on_events_tempo=False) if sum(map(ord, sx.show(case))) % 5 == 3 else cc.TempoConverter(tempo)
    if sum(map(ord, sx.show(case))) % 4 == 2:
        # the caller goes on using its tempo object after the converter was made (a converter is made from the tempo as
        # it is at that moment): every third such case edits it in place before the first conversion
        if isinstance(tempo, cp.FlexTempo):
            if len(tempo):
                tempo[0].tempo = cp.DirectTempo(tempo[0].tempo.bpm + 30)
        elif isinstance(tempo, cp.WesternTempo):
            tempo.reference = tempo.reference * 2
        elif isinstance(tempo, cp.abc.Tempo):
            tempo.bpm = tempo.bpm + 30
    env_before = None
    tempo_before = tempo_snap(tempo)
    out = ["ok"]
    flags = []
    for tx in case[2:]:
        src = build_tree_top(tx)
        before = full_snap(src)
        r = conv.convert(src)
        if env_before is None:
            env_before = snap(conv._beat_length_in_seconds_envelope)      # (not read before the first conversion)
        out.append(leaf_durs(r))
        if shape_of(r) != shape_of(src):
            flags.append("structure-changed")
        if full_snap(src) != before:
            flags.append("input-changed")
        if any(a is b for a, b in zip(_walk(r), _walk(src))):
            flags.append("shares-objects")
    if env_before is not None and snap(conv._beat_length_in_seconds_envelope) != env_before:
        flags.append("converter-envelope-changed")
    if tempo_snap(tempo) != tempo_before:
        flags.append("tempo-argument-changed")
    out.append(["flags"] + sorted(set(flags)))
    return out


def tempo_points(t):
    """a tempo as an envelope: DirectTempo b = one point (0, b, 0)"""
    if isinstance(t, cp.FlexTempo):
        return snap(t)
    return ["E", [0, sf(t.bpm), sf(0)]]


def run_jointempo(case):
    kind, da, db = case[1], int(case[3]), int(case[5])
    ta, tb = build_tempo(case[2]), build_tempo(case[4])
    tb_before = tempo_points(tb)
    ta_before = tempo_points(ta)
    flags = []
    if kind == "add":
        a = S_([C_(da / TICK)], tempo=ta)
        b = S_([C_(db / TICK)], tempo=tb)
        r = a + b
        rt = r.tempo
        if tempo_points(a.tempo) != ta_before:
            flags.append("first-operand-tempo-changed")
        if tempo_points(b.tempo) != tb_before:
            flags.append("second-operand-tempo-changed")
        if [ticks(x.duration) for x in r] != [da, db] or [ticks(x.duration) for x in a] != [da] or [ticks(x.duration) for x in b] != [db]:
            flags.append("content-wrong")
    elif kind in ("chain_index", "chain_tag", "self_index"):
        # two joins on one receiver (the third operand has the first one's tempo and length), or a self-join: after every
        # join the EARLIER operands must still read as before, and the voice's tempo follows ta | tb shifted | tc shifted
        a = P_([S_([C_(da / TICK)], tempo=ta, tag="v")])
        b = P_([S_([C_(db / TICK)], tempo=tb, tag="v")])
        c = P_([S_([C_(da / TICK)], tempo=build_tempo(case[2]), tag="v")])
        join = (lambda x, y: x.concatenate_by_tag(y)) if kind == "chain_tag" else (lambda x, y: x.concatenate_by_index(y))
        if kind == "self_index":
            a.concatenate_by_index(a.copy())
            a.concatenate_by_index(b)
            segs = [(0, da, case[2]), (da, da, case[2]), (2 * da, db, case[4])]
        else:
            join(a, b)
            b_after_first = tempo_points(b[0].tempo)
            join(a, c)
            if tempo_points(b[0].tempo) != tb_before or b_after_first != tb_before:
                flags.append("an-earlier-operand-tempo-changed-by-a-later-join")
            if tempo_points(c[0].tempo) != ta_before:
                flags.append("second-operand-tempo-changed")
            segs = [(0, da, case[2]), (da, db, case[4]), (da + db, da, case[2])]
        rt = a[0].tempo
        if [ticks(x.duration) for x in a[0]] != [d for (_, d, _) in segs]:
            flags.append("content-wrong")
        out = ["ok", tempo_points(rt)]
        frt = cp.FlexTempo.from_parameter(rt)
        rows = []
        for (start, d, tx) in segs:
            fo = cp.FlexTempo.from_parameter(build_tempo(tx))
            for i in range(1, 9):
                x = start + d * i // 9
                if start < x < start + d:
                    rows.append([x, sf(frt.value_at(x / TICK)), sf(fo.value_at((x - start) / TICK))])
        out.append(["grid"] + rows)
        if flags:
            out.append(["flags"] + flags)
        return out
    elif kind in ("padded_index", "padded_tag"):
        # a voice that is SHORTER than the first operand and carries a tempo: it is padded with rest up to the first
        # operand's duration, the second operand's voice (content and tempo) follows exactly there
        short = max(1, da // 2)
        a = P_([S_([C_(da / TICK)], tag="u"), S_([C_(short / TICK)], tempo=ta, tag="v")])
        b = P_([S_([C_(db / TICK)], tag="u"), S_([C_(db / TICK)], tempo=tb, tag="v")])
        if kind == "padded_index":
            a.concatenate_by_index(b)
        else:
            a.concatenate_by_tag(b)
        rt = a[1].tempo
        if tempo_points(b[1].tempo) != tb_before:
            flags.append("second-operand-tempo-changed")
        if sum(ticks(x.duration) for x in a[1]) != da + db or ticks(a[1][-1].duration) != db:
            flags.append("content-wrong")
    elif kind in ("unmatched_index", "unmatched_tag"):
        # a voice that only the second operand has: it is new in the result, behind a padding rest of the first operand's
        # duration; its tempo has to be the second operand's, shifted by that duration (known finding F9)
        a = P_([S_([C_(da / TICK)], tempo=ta, tag="v")])
        b = P_([S_([C_(db / TICK)], tag="v"), S_([C_(db / TICK)], tempo=tb, tag="w")])
        if kind == "unmatched_index":
            a.concatenate_by_index(b)
        else:
            a.concatenate_by_tag(b)
        rt = a[1].tempo
        if tempo_points(b[1].tempo) != tb_before:
            flags.append("second-operand-tempo-changed")
        if rt is b[1].tempo:
            flags.append("new-voice-shares-the-tempo-object-of-the-second-operand")
        if [ticks(x.duration) for x in a[1]] != [da, db]:
            flags.append("content-wrong")
        out = ["ok", tempo_points(rt)]
        fb = cp.FlexTempo.from_parameter(build_tempo(case[4]))
        frt = cp.FlexTempo.from_parameter(rt)
        rows = []
        for i in range(13):
            x = da + db * i // 12 + (1 if i == 0 else 0)
            rows.append([x, sf(frt.value_at(x / TICK)), sf(fb.value_at((x - da) / TICK))])
        out.append(["grid"] + rows)
        if flags:
            out.append(["flags"] + flags)
        return out
    elif kind == "topindex":
        # the simultaneities themselves carry the tempi (known finding F7)
        a = P_([S_([C_(da / TICK)], tag="v")], tempo=ta)
        b = P_([S_([C_(db / TICK)], tag="v")], tempo=tb)
        a.concatenate_by_index(b)
        rt = a.tempo
    else:
        a = P_([S_([C_(da / TICK)], tempo=ta, tag="v")])
        b = P_([S_([C_(db / TICK)], tempo=tb, tag="v")])
        if kind == "index":
            a.concatenate_by_index(b)
        else:
            a.concatenate_by_tag(b)
        rt = a[0].tempo
        if tempo_points(b[0].tempo) != tb_before:
            flags.append("second-operand-tempo-changed")
        if [ticks(x.duration) for x in a[0]] != [da, db] or [ticks(x.duration) for x in b[0]] != [db]:
            flags.append("content-wrong")
    out = ["ok", tempo_points(rt)]
    # the result's tempo against the operands' tempi (fresh copies), away from the joint
    oa, ob = build_tempo(case[2]), build_tempo(case[4])
    fa = cp.FlexTempo.from_parameter(oa)
    fb = cp.FlexTempo.from_parameter(ob)
    frt = cp.FlexTempo.from_parameter(rt)
    rows = []
    for i in range(13):
        x = da * i // 12
        if x < da:
            rows.append([x, sf(frt.value_at(x / TICK)), sf(fa.value_at(x / TICK))])
    for i in range(13):
        x = da + db * i // 12 + (1 if i == 0 else 0)
        rows.append([x, sf(frt.value_at(x / TICK)), sf(fb.value_at((x - da) / TICK))])
    out.append(["grid"] + rows)
    if flags:
        out.append(["flags"] + flags)
    return out


def run_metrize(case):
    src = build_ttree(case[1])
    before = full_snap(src)
    flags = []
    conv = cc.EventToMetrizedEvent()             # ONE converter object for all conversions of this case
    r = conv.convert(src)
    if full_snap(src) != before:
        flags.append("input-changed")
    if shape_of(r) != shape_of(src):
        flags.append("structure-changed")
    if not neutral(r):
        flags.append("not-neutral-after")
    inplace = src.copy()
    ret = inplace.metrize()
    if leaf_durs(inplace) != leaf_durs(r) or not neutral(inplace) or ret is not inplace:
        flags.append("inplace-differs")
    again = conv.convert(r)
    if leaf_durs(again) != leaf_durs(r) or not neutral(again):
        flags.append("not-idempotent")
    # second life of the same source: its constant tempi are edited in place (bpm doubled, a supported edit - see
    # reset_tempo / the bpm setters), then it is metrized again: every leaf below an edited node is twice as fast
    try:
        edited = []

        def walk(n, factor):
            tp = n.tempo
            if type(tp) is cp.DirectTempo:
                tp.bpm = tp.bpm * 2
                factor = None if factor is None else factor * 2
            elif type(tp) is cp.WesternTempo:
                tp.reference = tp.reference * 2          # the same number of a note value twice as long: twice as fast
                factor = None if factor is None else factor * 2
            elif isinstance(tp, cp.FlexTempo):
                factor = None           # below a trajectory the expectation is not a plain factor: not checked here
            if isinstance(n, C_):
                edited.append(factor)
                return
            for c in n:
                walk(c, factor)

        walk(src, 1)
        r2 = conv.convert(src)
        for f, d1, d2 in zip(edited, leaf_durs(r), leaf_durs(r2)):
            if f is not None and abs(fl(d2) * f - fl(d1)) > 1e-9 * max(1.0, fl(d1)) + 4e-9:
                flags.append("stale-after-editing-a-tempo-in-place")
                break
    except Exception as exc:  # noqa
        flags.append("second-conversion-raised-" + type(exc).__name__)
    return ["ok", leaf_durs(r), ["flags"] + sorted(set(flags))]


def simpson(e, a, b, panels=32):
    """composite Simpson integral of the implementation's own value_at, split at the control points"""
    if a == b:
        return ["ok", sf(0.0)]
    lo, hi = min(a, b), max(a, b)
    cuts = sorted(set([lo, hi] + [t for t in (ticks(x) for x in e.absolute_time_tuple) if lo < t < hi]))
    total = 0.0
    for u, v in zip(cuts, cuts[1:]):
        n = panels
        h = (v - u) / n
        # evaluate just inside the piece at both ends so that a jump belongs to the right piece
        xs = [u + i * h for i in range(n + 1)]
        ys = []
        for i, x in enumerate(xs):
            xi = int(round(x))
            if i == 0:
                xi = u + 1 if u + 1 < v else u
            if i == n:
                xi = v - 1 if v - 1 > u else v
            ys.append(float(e.value_at(xi / TICK)))
        acc = ys[0] + ys[-1] + 4 * sum(ys[1:-1:2]) + 2 * sum(ys[2:-1:2])
        total += acc * (h / TICK) / 3
    return ["ok", sf(total if a < b else -total)]


def grid_points(lo, hi, extra=(), n=40):
    pts = set([lo, hi])
    for i in range(n + 1):
        pts.add(lo + (hi - lo) * i // n)
    for x in extra:
        if lo <= x <= hi:
            pts.add(x)
    return sorted(pts)


def op_grid(orig, r, op):
    """(x, value of the result at x, value of the untouched original at the corresponding time)"""
    ot = [ticks(x) for x in orig.absolute_time_tuple]
    od = ticks(orig.duration)
    k = op[0]
    rows = []

    def add(res, x, xo):
        # a time shared by two control points is a jump: the curve is two-valued there (C08), not compared
        if ot.count(xo) >= 2:
            rows.append([x, sf(res.value_at(x / TICK)), sf(orig.value_at(xo / TICK)), "jump"])
            return
        rows.append([x, sf(res.value_at(x / TICK)), sf(orig.value_at(xo / TICK))])

    if k in ("sample_at", "extend_until"):
        t = int(op[1])
        hi = max(od, t) + 2500000000
        for x in grid_points(-1, hi, ot + [t, t - 1, t + 1]):
            add(r, x, x)
    elif k == "cut_out":
        s_, e_ = int(op[1]), int(op[2])
        for x in grid_points(0, e_ - s_, [y - s_ for y in ot]):
            add(r, x, s_ + x)
    elif k == "cut_off":
        s_, e_ = int(op[1]), int(op[2])
        for x in grid_points(0, max(od - (e_ - s_), s_) + 2500000000, ot + [y - (e_ - s_) for y in ot] + [s_ - 1, s_ + 1]):
            if x == s_:
                continue  # the cut itself is a jump
            add(r, x, x if x < s_ else x + (e_ - s_))
    return rows


def extend_until_somehow(e, t):
    """Envelope.extend_until in the ways a score reaches it (chosen by the target itself): directly, with an explicit white
    space function (accepted and documented as unused by envelopes), or as a voice of a simultaneity that is extended"""
    t = int(t)
    v = (t // 7) % 4
    if v == 1:
        return e.extend_until(T(t), lambda d: ce.Chronon(d))
    if v == 2:
        holder = ce.Concurrence([e])
        holder.extend_until(T(t))
        return holder[0]
    return e.extend_until(T(t))


def followup(r):
    """the envelope returned by an operation is an envelope like any other: adding a control point one beat after its end
    must create a point exactly there (an event object held twice by the result makes the point land elsewhere)"""
    try:
        n = len(r)
        t = ticks(r.duration) + TICK
        shared = len(set(map(id, r))) != n
        r.sample_at(t / TICK)
        times = [ticks(x) for x in r.absolute_time_tuple]
        if t in times and ticks(r.duration) == t and len(r) == n + 1:
            return [["followup", "shared-event-object" if shared else "ok"]]
        return [["followup", "misplaced", t, times, "shared-event-object" if shared else "distinct-objects"]]
    except ZeroDivisionError:
        return []   # curve-shape underflow (see envhist): outside the modelled range
    except Exception as exc:  # noqa
        return [["followup", "raised", type(exc).__name__]]


def run(case):
    k = case[0]
    if k == "envq":
        if case[-1] and case[-1][0] == "prelude":
            # history stream: the envelope first has other control points, answers the same questions, and is then edited
            # IN PLACE (same event objects) into the envelope of the case; the answers below must be those of the edited one
            qs = case[2:-1]
            e = build(case[-1][1])
            for q in qs:
                if q[0] != "simpson":
                    query(e, q)
            for ev, p in zip(e, case[1][1:]):
                e.apply_parameter_on_event(ev, e.value_to_parameter(num(p[1])))
                e.apply_curve_shape_on_event(ev, num(p[2]))
                ev.duration = int(p[0]) / TICK
            case = case[:-1]
        elif case[-1] and case[-1][0] == "decoy":
            # operations that must not touch the receiver run first: a copy is edited in place, the envelope is split
            e = build(case[1])
            t = int(case[-1][1])
            try:
                c = e.copy()
                c.sample_at(t / TICK)
                c.duration = c.duration * 2 + 1
                e.split_at(t / TICK)
            except Exception:  # noqa: the decoy itself is not under test here
                pass
            case = case[:-1]
        elif case[-1] and case[-1][0] == "after":
            # second-life stream: the live object was first EDITED (prolonged past its end, cut, ...); the reads below are
            # asked of that object, the untouched copy is rebuilt from the control points it reports after the edit
            e = build(case[1])
            op = case[-1][1]
            try:
                if op[0] == "sample_at":
                    e.sample_at(T(op[1]))
                elif op[0] == "extend_until":
                    e.extend_until(T(op[1]))
                elif op[0] == "cut_out":
                    e.cut_out(T(op[1]), T(op[2]))
                elif op[0] == "cut_off":
                    e.cut_off(T(op[1]), T(op[2]))
            except Exception:  # noqa: the edit itself is judged by C11
                e = build(case[1])
            base = snap(e)
            base[0] = case[1][0]
            case = [case[0], base] + case[2:-1]
        else:
            e = build(case[1])
        before = snap(e)
        out = ["envq"]
        changed = None
        stale = None
        for i, q in enumerate(case[2:]):
            if q[0] == "simpson":
                out.append(simpson(build(case[1]), int(q[1]), int(q[2])))
                continue
            a = query(e, q)
            out.append(a)
            if changed is None and snap(e) != before:
                changed = ["changed-after", i, snap(e)]
            # the same question asked of an untouched copy
            if stale is None and query(build(case[1]), q) != a:
                stale = ["differs-from-fresh-copy", i, query(build(case[1]), q)]
        if changed:
            out.append(changed)
        if stale:
            out.append(stale)
        return out
    if k == "envhist":
        # a history of in-place edits on ONE envelope object; every step is compared with an independent rebuild of
        # the state before it (so a step is judged like a single edit), the follow-up probe runs after the last step
        e = build(case[1])
        out = ["envhist"]
        for op in case[2:]:
            prev_snap = snap(e)
            prev_snap[0] = case[1][0]
            try:
                if op[0] == "sample_at":
                    r = e.sample_at(T(op[1]), append_duration=T(op[2]))
                elif op[0] == "extend_until":
                    r = extend_until_somehow(e, op[1])
                elif op[0] == "cut_out":
                    r = e.cut_out(T(op[1]), T(op[2]))
                elif op[0] == "cut_off":
                    r = e.cut_off(T(op[1]), T(op[2]))
                else:
                    raise ValueError(op)
            except Exception as exc:  # noqa
                out.append(err(exc))
                return out
            try:
                step = ["ok", snap(r), ["grid"] + op_grid(build(prev_snap), r, op)]
            except ZeroDivisionError:
                # a share of a share of a curve shape can fall below 1e-16: exp(c) - 1 == 0.0 and value_at divides by it.
                # Outside the modelled range (binary64 taken as real arithmetic): the step is reported without a grid.
                step = ["ok", snap(r), ["grid"], ["underflow"]]
            if r is not e:
                step.append(["not-in-place"])
            if len(set(map(id, r))) != len(r):
                step.append(["followup", "shared-event-object-in-result"])
            out.append(step)
            e = r
        if len(out) > 1 and ["underflow"] not in out[-1]:
            out[-1] = out[-1] + followup(e)
        return out
    if k == "envop":
        e = build(case[1])
        before = snap(e)
        op = case[2]
        try:
            if op[0] == "sample_at":
                r = e.sample_at(T(op[1]), append_duration=T(op[2]))
            elif op[0] == "extend_until":
                r = extend_until_somehow(e, op[1])
            elif op[0] == "cut_out":
                r = e.cut_out(T(op[1]), T(op[2]))
            elif op[0] == "cut_off":
                r = e.cut_off(T(op[1]), T(op[2]))
            elif op[0] == "squash_in":
                # an envelope as the receiver of Consecution.squash_in: the new child is a control point of the receiver's kind
                new = ce.Chronon(T(op[2]))
                e.apply_parameter_on_event(new, e.value_to_parameter(num(op[3])))
                e.apply_curve_shape_on_event(new, 0)
                r = e.squash_in(T(op[1]), new)
                try:
                    out = ["ok", snap(r)]
                except Exception as exc:  # noqa
                    return ["err", "reading-the-result-raised-" + type(exc).__name__]
                return out if r is e else out + [["followup", "the-editing-method-returned-another-object-than-its-receiver"]]
            elif op[0] == "split_at":
                ign = op[1] in ("1", "true")
                parts = e.split_at(*[T(x) for x in op[2:]], ignore_invalid_split_point=ign)
                out = ["ok", ["parts"] + [snap(p) for p in parts]]
                if snap(e) != before:
                    out.append(["recv-changed", snap(e)])
                # every part against the original: value at offset x == original value at part start + x
                cuts = sorted(set([0] + [int(x) for x in op[2:]]))
                rows = []
                start = 0
                orig = build(case[1])
                for part in parts:
                    d = ticks(part.duration)
                    pt = [ticks(x) for x in part.absolute_time_tuple]
                    ot = [ticks(x) for x in orig.absolute_time_tuple]
                    for x in grid_points(0, d, pt, n=12):
                        if ot.count(start + x) >= 2:
                            # jump instant: two-valued
                            rows.append([start + x, sf(part.value_at(x / TICK)), sf(orig.value_at((start + x) / TICK)), "jump"])
                            continue
                        rows.append([start + x, sf(part.value_at(x / TICK)), sf(orig.value_at((start + x) / TICK))])
                    start += d
                out.append(["grid"] + rows)
                # the parts are envelopes like any other, made of their own event objects
                ids = [id(ev) for part in parts for ev in part]
                if len(set(ids)) != len(ids) or set(ids) & set(map(id, e)):
                    out.append(["followup", "parts-share-event-objects"])
                for k_, part in enumerate(parts):
                    fu = followup(part)
                    if fu and fu[0][1] != "ok":
                        out.append(fu[0] + ["part", k_])
                        break
                return out
            else:
                raise ValueError(op)
        except Exception as exc:  # noqa
            return err(exc)
        try:
            out = ["ok", snap(r), ["grid"] + op_grid(build(case[1]), r, op)]
        except ZeroDivisionError:
            raise
        except Exception as exc:  # noqa: the edit returned, but the envelope it left behind cannot be read
            return ["err", "reading-the-result-raised-" + type(exc).__name__]
        if r is not e:
            return out + [["followup", "the-editing-method-returned-another-object-than-its-receiver"]]
        return out + followup(r)
    if k == "of_points":
        pts = []
        for i, p in enumerate(case[1]):
            pt = [int(p[0]) / TICK, num(p[1]), num(p[2])]
            if num(p[2]) == 0 and i % 2 == 0:
                pt = pt[:2]                      # the documented short form: the curve shape defaults to 0
            pts.append(tuple(pt) if i % 3 == 1 else pt)
        return snap(ce.Envelope(pts))
    if k in ("convert", "convert1"):
        try:
            r = run_convert(case)
        except Exception as exc:  # noqa
            return err(exc)
        if k == "convert1":
            return ["ok", r[1], r[-1]]
        return r
    if k == "jointempo":
        try:
            return run_jointempo(case)
        except Exception as exc:  # noqa
            return err(exc)
    if k == "metrize":
        try:
            return run_metrize(case)
        except Exception as exc:  # noqa
            return err(exc)
    raise ValueError(f"unknown case {case}")


def main():
    for line in sys.stdin:
        line = line.strip()
        if not line:
            print()
            continue
        try:
            print(sx.show(run(sx.parse(line))))
        except Exception as e:
            print(sx.show(["runner-error", type(e).__name__, str(e).replace("(", "[").replace(")", "]").replace(" ", "_")[:200]]))
        sys.stdout.flush()


if __name__ == "__main__":
    main()
