"""Fail-closed translator: straight-line Python kernels of /repo -> Gallina (second tie between model and code).

The hand-written model is tied to /repo by differential runs (sampled).  For the arithmetic kernels on which the
theorems rest, this module adds a deterministic tie: the function body is read from /repo's *current* source with `ast`,
translated statement by statement into a Gallina definition `K_<name>` (coq/Gen/K_<name>.v, regenerated on every run),
and a hand-written, kernel-checked lemma (coq/Gen/K_<name>_eq.v) states that `K_<name>` equals the model's definition
for all arguments.  A change of the source changes `K_<name>`; if the lemma no longer checks, the tie is reported as
broken (the harness then looks for a concrete failing input in the differential run).

The translator is fail-closed: any construct outside the small subset below raises `Untranslatable` - nothing is
guessed.  What it assumes (trusted, listed in DESIGN.md section 7):
  * Duration values are exact numbers: `Duration.from_any(x)`, `DirectDuration(x)` and `float(x)` are the identity;
    Duration arithmetic / comparison is the arithmetic / comparison of the numbers (ticks in Z mode, the abstract
    number type `F` of Model/Num.v in F mode);
  * `self.duration` is a plain field (read: current value; `self.duration -= x`: new value); `return self` returns it;
  * `raise X(...)` is the result `Err <enum of X>`; a failed `assert` is `Err EAssertion`-like enum given in ERRORS;
  * helper methods called as `self._assert_*(...)` are looked up in the given helper sources and inlined
    (parameters bound by `let`, defaults taken from the signature);
  * `math.exp` is `fexp`; `min((a, b))` / `min(a, b)` is the conditional `if b < a then b else a` (Python's rule).
"""
import ast
import hashlib
import os
import textwrap

REPO = os.environ.get("VERIF_REPO", os.environ.get("MUTWO_REPO", "/repo"))

COQ_KEYWORDS = {"end", "at", "in", "as", "if", "then", "else", "let", "fun", "match", "with", "return", "fix", "for", "where", "Type", "Set", "Prop", "using", "forall", "exists", "cofix", "struct"}

ERRORS = {
    "InvalidAbsoluteTime": "EInvalidAbsoluteTime",
    "InvalidStartAndEndValueError": "EInvalidStartAndEnd",
    "InvalidCutOutStartAndEndValuesError": "EInvalidCutOut",
    "InvalidStartValueError": "EInvalidStartValue",
    "ValueError": "EValueError",
    "AssertionError": "EValueError",
    "ZeroDivisionError": "EZeroDivision",
}


class Untranslatable(Exception):
    pass


def ident(name):
    return name + "_" if name in COQ_KEYWORDS else name


def find_function(tree, qualname):
    """qualname: 'func' or 'Class.method'"""
    parts = qualname.split(".")
    body = tree.body
    node = None
    for p in parts:
        node = None
        for n in body:
            if isinstance(n, (ast.FunctionDef, ast.ClassDef)) and n.name == p:
                node = n
        if node is None:
            raise Untranslatable(f"{qualname}: not found in the source")
        body = node.body
    if not isinstance(node, ast.FunctionDef):
        raise Untranslatable(f"{qualname}: not a function")
    return node


def expect_decorators(f, expected, what):
    """a decorator changes what a call means (a cached_property is not a property): the kernel's decorators are compared"""
    got = [ast.unparse(d) for d in f.decorator_list]
    if got != list(expected):
        raise Untranslatable(f"{what}: decorators {got} instead of {list(expected)}")


def strip_doc(body):
    if body and isinstance(body[0], ast.Expr) and isinstance(body[0].value, ast.Constant) and isinstance(body[0].value.value, str):
        return body[1:]
    return body


def dotted(node):
    if isinstance(node, ast.Name):
        return node.id
    if isinstance(node, ast.Attribute):
        d = dotted(node.value)
        return None if d is None else d + "." + node.attr
    return None


IDENTITY_CALLS = {"core_parameters.abc.Duration.from_any", "core_parameters.DirectDuration", "float", "Duration.from_any"}


class Tr:
    """mode 'Z': durations in ticks, comparisons Z.ltb...; mode 'F': generic numbers of Model/Num.v"""

    def __init__(self, mode, helpers=None, self_fields=("duration",), result="state", calls=None):
        self.mode = mode
        self.helpers = helpers or {}
        self.self_fields = self_fields
        self.result = result          # 'state' (return self -> Ok self_duration) | 'value'
        self.calls = calls or {}      # dotted python name -> (coq function name, arity)
        self.fresh = 0
        self.local_funs = {}
        self.obj_fields = {}          # loop object -> readable fields, e.g. {"e": ("duration",)}
        self.actions = {}             # action mode: {"call": ("e", "cut_out"), "remove": "event_to_remove_index_list"}
        self.optional = set()         # parameters of type option Z (`if x is None: x = ...` supported)

    # ------------------------------------------------------------ expressions
    def const(self, v):
        if isinstance(v, bool):
            return "true" if v else "false"
        if self.mode == "Z":
            if isinstance(v, int):
                return str(v) if v >= 0 else f"({v})"
            raise Untranslatable(f"constant {v!r} in Z mode")
        if v == 0:
            return "zero"
        if v == 1:
            return "one"
        if v == 0.5:
            return "half"
        if isinstance(v, int) and 1 < v < 10**6:
            return f"(nint N {v})"
        raise Untranslatable(f"constant {v!r}")

    def num(self, e):
        """numeric expression"""
        if isinstance(e, ast.Constant):
            return self.const(e.value)
        if isinstance(e, ast.Name):
            if e.id in self.optional:
                raise Untranslatable(f"{e.id} may be None here")
            return ident(e.id)
        if isinstance(e, ast.Attribute):
            if isinstance(e.value, ast.Name) and e.value.id == "self" and e.attr in self.self_fields:
                return "self_" + e.attr
            if isinstance(e.value, ast.Name) and e.attr in self.obj_fields.get(e.value.id, ()):
                return e.value.id + "_" + e.attr
            raise Untranslatable(f"attribute {ast.unparse(e)}")
        if isinstance(e, ast.BinOp):
            a, b = self.num(e.left), self.num(e.right)
            ops = {ast.Add: "+", ast.Sub: "-", ast.Mult: "*"} if self.mode == "Z" else {ast.Add: "+.", ast.Sub: "-.", ast.Mult: "*.", ast.Div: "/."}
            for k, s in ops.items():
                if isinstance(e.op, k):
                    return f"({a} {s} {b})"
            raise Untranslatable(f"operator {type(e.op).__name__} in mode {self.mode}")
        if isinstance(e, ast.UnaryOp) and isinstance(e.op, ast.USub):
            return f"(- {self.num(e.operand)})" if self.mode == "Z" else f"(zero -. {self.num(e.operand)})"
        if isinstance(e, ast.IfExp):
            return f"(if {self.boolean(e.test)} then {self.num(e.body)} else {self.num(e.orelse)})"
        if isinstance(e, ast.NamedExpr):
            raise Untranslatable("assignment expression outside an `if` test")
        if isinstance(e, ast.Call):
            d = dotted(e.func)
            if d in IDENTITY_CALLS and len(e.args) == 1 and not e.keywords:
                return self.num(e.args[0])
            if d == "math.exp" and len(e.args) == 1 and self.mode == "F":
                return f"(fexp {self.num(e.args[0])})"
            if d in ("min", "max") and not e.keywords:
                args = e.args
                if len(args) == 1 and isinstance(args[0], ast.Tuple):
                    args = args[0].elts
                if len(args) == 2:
                    a, b = self.num(args[0]), self.num(args[1])
                    # Python: min(a, b) = b if b < a else a ; max(a, b) = b if b > a else a
                    if d == "min":
                        return f"(if {self.cmp('<', b, a)} then {b} else {a})"
                    return f"(if {self.cmp('<', a, b)} then {b} else {a})"
            if d in self.calls and not e.keywords:
                name, arity = self.calls[d]
                if len(e.args) == arity:
                    return "(" + " ".join([name] + [self.num(a) for a in e.args]) + ")"
            if isinstance(e.func, ast.Name) and e.func.id in self.local_funs and not e.keywords:
                return "(" + " ".join([ident(e.func.id)] + [self.num(a) for a in e.args]) + ")"
            raise Untranslatable(f"call {ast.unparse(e)}")
        raise Untranslatable(f"expression {ast.unparse(e)}")

    def cmp(self, op, a, b):
        if self.mode == "Z":
            return {"<": f"({a} <? {b})", "<=": f"({a} <=? {b})", ">": f"({b} <? {a})", ">=": f"({b} <=? {a})",
                    "==": f"({a} =? {b})", "!=": f"negb ({a} =? {b})"}[op]
        return {"<": f"(nltb N {a} {b})", "<=": f"(nleb N {a} {b})", ">": f"(nltb N {b} {a})", ">=": f"(nleb N {b} {a})",
                "==": f"(neqb N {a} {b})", "!=": f"(negb (neqb N {a} {b}))"}[op]

    OPS = {ast.Lt: "<", ast.LtE: "<=", ast.Gt: ">", ast.GtE: ">=", ast.Eq: "==", ast.NotEq: "!="}

    def boolean(self, e):
        if isinstance(e, ast.Compare):
            parts = []
            left = e.left
            for op, right in zip(e.ops, e.comparators):
                if type(op) not in self.OPS:
                    raise Untranslatable(f"comparison {ast.unparse(e)}")
                parts.append(self.cmp(self.OPS[type(op)], self.num(left), self.num(right)))
                left = right
            return parts[0] if len(parts) == 1 else "(" + " && ".join(parts) + ")"
        if isinstance(e, ast.BoolOp):
            s = " && " if isinstance(e.op, ast.And) else " || "
            return "(" + s.join(self.boolean(v) for v in e.values) + ")"
        if isinstance(e, ast.UnaryOp) and isinstance(e.op, ast.Not):
            return f"(negb {self.boolean(e.operand)})"
        if isinstance(e, ast.Call) and isinstance(e.func, ast.Name) and e.func.id in self.local_funs:
            return "(" + " ".join([ident(e.func.id)] + [self.num(a) for a in e.args]) + ")"
        if isinstance(e, (ast.Name, ast.Attribute, ast.BinOp)):
            # truthiness of a number: x != 0
            return self.cmp("!=", self.num(e), self.const(0))
        raise Untranslatable(f"condition {ast.unparse(e)}")

    # ------------------------------------------------------------ statements
    @staticmethod
    def assigned(stmts):
        out = []

        def add(n):
            if n not in out:
                out.append(n)

        def target(t):
            if isinstance(t, ast.Name):
                add(ident(t.id))
            elif isinstance(t, ast.Tuple):
                for x in t.elts:
                    target(x)
            elif isinstance(t, ast.Attribute) and isinstance(t.value, ast.Name) and t.value.id == "self":
                add("self_" + t.attr)
            else:
                raise Untranslatable(f"assignment target {ast.unparse(t)}")

        for s in stmts:
            for n in ast.walk(s):
                if isinstance(n, ast.Assign):
                    for t in n.targets:
                        target(t)
                elif isinstance(n, (ast.AugAssign, ast.AnnAssign)):
                    target(n.target)
                elif isinstance(n, ast.NamedExpr):
                    target(n.target)
        return out

    @staticmethod
    def has_control(stmts):
        return any(isinstance(n, (ast.Raise, ast.Return, ast.Assert, ast.Try)) for s in stmts for n in ast.walk(s)) or \
            any(isinstance(s, ast.Expr) and isinstance(s.value, ast.Call) for s in stmts)

    def lhs(self, t):
        if isinstance(t, ast.Name):
            return ident(t.id)
        if isinstance(t, ast.Attribute) and isinstance(t.value, ast.Name) and t.value.id == "self" and t.attr in self.self_fields:
            return "self_" + t.attr
        raise Untranslatable(f"assignment target {ast.unparse(t)}")

    def err_of(self, exc):
        if isinstance(exc, ast.Call):
            exc = exc.func
        d = dotted(exc) or ""
        name = d.split(".")[-1]
        if name not in ERRORS:
            raise Untranslatable(f"exception {d}")
        return "Err " + ERRORS[name]

    def block(self, stmts, k):
        """k() gives the Gallina expression of what follows"""
        if not stmts:
            return k()
        s, rest = stmts[0], stmts[1:]

        def cont():
            return self.block(rest, k)

        if isinstance(s, ast.Pass):
            return cont()
        if isinstance(s, ast.Expr) and isinstance(s.value, ast.Constant):
            return cont()
        if isinstance(s, ast.Assign):
            if len(s.targets) != 1:
                raise Untranslatable("chained assignment")
            t, v = s.targets[0], s.value
            if isinstance(t, ast.Tuple):
                names = [self.lhs(x) for x in t.elts]
                # (f(o) for o in (a, b)) with f an identity call, or a plain tuple
                if isinstance(v, ast.GeneratorExp) and len(v.generators) == 1 and not v.generators[0].ifs \
                        and isinstance(v.generators[0].iter, ast.Tuple) and isinstance(v.generators[0].target, ast.Name):
                    var = v.generators[0].target.id
                    vals = []
                    for item in v.generators[0].iter.elts:
                        sub = SubstName(var, item).visit(ast.parse(ast.unparse(v.elt), mode="eval").body)
                        vals.append(self.num(sub))
                elif isinstance(v, ast.Tuple):
                    vals = [self.num(x) for x in v.elts]
                elif isinstance(v, ast.Name):
                    # unpacking of a tuple-valued parameter: handled by the caller's parameter list
                    raise Untranslatable(f"unpacking {ast.unparse(s)}")
                else:
                    raise Untranslatable(f"tuple assignment {ast.unparse(s)}")
                if len(vals) != len(names):
                    raise Untranslatable("tuple assignment arity")
                # simultaneous assignment: evaluate all right-hand sides first
                tmp = [f"tmp{self.fresh + i}" for i in range(len(names))]
                self.fresh += len(names)
                out = "".join(f"let {a} := {b} in\n" for a, b in zip(tmp, vals))
                out += "".join(f"let {a} := {b} in\n" for a, b in zip(names, tmp))
                return out + cont()
            return f"let {self.lhs(t)} := {self.num(v)} in\n" + cont()
        if isinstance(s, ast.AnnAssign):
            if s.value is None:
                return cont()
            return f"let {self.lhs(s.target)} := {self.num(s.value)} in\n" + cont()
        if isinstance(s, ast.AugAssign):
            x = self.lhs(s.target)
            e = ast.BinOp(left=s.target, op=s.op, right=s.value)
            return f"let {x} := {self.num(e)} in\n" + cont()
        if isinstance(s, ast.FunctionDef):
            # local pure helper: a single return of an expression
            body = strip_doc(s.body)
            if len(body) != 1 or not isinstance(body[0], ast.Return) or s.args.defaults or s.args.kwonlyargs:
                raise Untranslatable(f"local function {s.name}")
            params = [ident(a.arg) for a in s.args.args]
            self.local_funs[s.name] = len(params)
            return f"let {ident(s.name)} := fun {' '.join(params)} => {self.num(body[0].value)} in\n" + cont()
        if isinstance(s, ast.Raise):
            return self.err_of(s.exc)
        if isinstance(s, ast.Return):
            if s.value is None:
                raise Untranslatable("bare return")
            if isinstance(s.value, ast.Name) and s.value.id == "self":
                if self.result != "state":
                    raise Untranslatable("return self in a value kernel")
                return "Ok " + "self_" + self.self_fields[0]
            if self.result == "option":
                if isinstance(s.value, ast.Constant) and s.value.value is None:
                    return "None"
                return f"Some {self.num(s.value)}"
            return f"Ok {self.num(s.value)}"
        if isinstance(s, ast.Assert):
            return f"if {self.boolean(s.test)} then\n{cont()}\nelse Err {ERRORS['AssertionError']}"
        if isinstance(s, ast.Try):
            # try: assert C  except AssertionError: raise X
            if len(s.body) == 1 and isinstance(s.body[0], ast.Assert) and len(s.handlers) == 1 and not s.orelse and not s.finalbody \
                    and dotted(s.handlers[0].type) == "AssertionError" and len(s.handlers[0].body) == 1 and isinstance(s.handlers[0].body[0], ast.Raise):
                return f"if {self.boolean(s.body[0].test)} then\n{cont()}\nelse {self.err_of(s.handlers[0].body[0].exc)}"
            raise Untranslatable("try statement")
        if isinstance(s, ast.Expr) and isinstance(s.value, ast.Call) and self.result == "action":
            # an effect on the loop object / the removal list: only in tail position of the loop body
            call = s.value
            d = dotted(call.func) or ""
            if cont() != "ActKeep":
                raise Untranslatable(f"effect {ast.unparse(call)[:60]} is not the last statement of the loop body")
            obj, meth = self.actions.get("call", (None, None))
            if d == f"{obj}.{meth}" and not call.keywords:
                return "ActCall " + " ".join(self.num(a) for a in call.args)
            if d == self.actions.get("remove") + ".append" and len(call.args) == 1 and ast.unparse(call.args[0]) == self.actions.get("index"):
                return "ActRemove"
            raise Untranslatable(f"effect {ast.unparse(call)[:80]}")
        if isinstance(s, ast.Expr) and isinstance(s.value, ast.Call):
            return self.inline_call(s.value, cont)
        if isinstance(s, ast.If) and isinstance(s.test, ast.Compare) and len(s.test.ops) == 1 and isinstance(s.test.ops[0], ast.Is) \
                and isinstance(s.test.left, ast.Name) and isinstance(s.test.comparators[0], ast.Constant) and s.test.comparators[0].value is None:
            x = s.test.left.id
            if x not in self.optional or s.orelse or len(s.body) != 1 or not isinstance(s.body[0], ast.Assign) \
                    or ast.unparse(s.body[0].targets[0]) != x:
                raise Untranslatable(f"None test {ast.unparse(s)[:80]}")
            self.optional.discard(x)
            return f"let {ident(x)} := match {ident(x)} with Some v => v | None => {self.num(s.body[0].value)} end in\n" + cont()
        if isinstance(s, ast.If):
            pre = ""
            test = s.test
            # (x := e) > 0  in the test: bind first
            for n in ast.walk(test):
                if isinstance(n, ast.NamedExpr):
                    pre += f"let {self.lhs(n.target)} := {self.num(n.value)} in\n"
            test = DropWalrus().visit(ast.parse(ast.unparse(test), mode="eval").body)
            c = self.boolean(test)
            if self.has_control(s.body) or self.has_control(s.orelse):
                return pre + f"if {c} then\n{self.block(s.body, cont)}\nelse\n{self.block(s.orelse, cont)}"
            mods = self.assigned(s.body + s.orelse)
            if not mods:
                return pre + cont()
            tup = mods[0] if len(mods) == 1 else "(" + ", ".join(mods) + ")"
            pat = mods[0] if len(mods) == 1 else "'(" + ", ".join(mods) + ")"
            # variables first assigned inside a branch must exist on the other branch too
            return pre + (f"let {pat} :=\n  if {c} then\n{self.block(s.body, lambda: tup)}\n  else\n{self.block(s.orelse, lambda: tup)}\nin\n" + cont())
        raise Untranslatable(f"statement {type(s).__name__}: {ast.unparse(s)[:80]}")

    def inline_call(self, call, cont):
        d = dotted(call.func) or ""
        name = d.split(".")[-1]
        if not d.startswith("self.") or name not in self.helpers:
            raise Untranslatable(f"call statement {ast.unparse(call)[:80]}")
        h = self.helpers[name]
        params = [a.arg for a in h.args.args if a.arg != "self"]
        defaults = dict(zip(params[len(params) - len(h.args.defaults):], h.args.defaults))
        given = dict(zip(params, call.args))
        for kw in call.keywords:
            given[kw.arg] = kw.value
        out = ""
        self.fresh += 1
        pref = f"h{self.fresh}_"
        ren = {}
        for p in params:
            v = given.get(p, defaults.get(p))
            if v is None:
                raise Untranslatable(f"{name}: no value for parameter {p}")
            ren[p] = pref + p
            if isinstance(v, ast.Lambda):
                ps = [ident(a.arg) for a in v.args.args]
                self.local_funs[pref + p] = len(ps)
                out += f"let {pref + p} := fun {' '.join(ps)} => {self.boolean(v.body)} in\n"
            else:
                out += f"let {pref + p} := {self.num(v)} in\n"
        body = [Rename(ren).visit(ast.parse(ast.unparse(x)).body[0]) for x in strip_doc(h.body)]
        return out + self.block(body, cont)


class SubstName(ast.NodeTransformer):
    def __init__(self, name, value):
        self.name, self.value = name, value

    def visit_Name(self, n):
        return self.value if n.id == self.name else n


class DropWalrus(ast.NodeTransformer):
    def visit_NamedExpr(self, n):
        return n.target


class Rename(ast.NodeTransformer):
    def __init__(self, ren):
        self.ren = ren

    def visit_Name(self, n):
        return ast.Name(id=self.ren.get(n.id, n.id), ctx=n.ctx)


def indent(s, n=2):
    return textwrap.indent(s, " " * n)


# ------------------------------------------------------------------------------------------------ kernels
def src(path):
    return open(os.path.join(REPO, path)).read()


def helpers_from(path, cls, names):
    tree = ast.parse(src(path))
    out = {n: find_function(tree, f"{cls}.{n}") for n in names}
    for n, f in out.items():
        expect_decorators(f, ["staticmethod"], f"{cls}.{n}")
    return out


HEADER_Z = """(* GENERATED by harness/translate.py from {path} ({qual}), sha256 of the function source {sha}.
   Do not edit: regenerated from /repo's working tree on every run. *)
From Coq Require Import ZArith List Bool.
From MV Require Import Base.Res Model.EventTree.
Import ListNotations.
Open Scope Z_scope.
"""

HEADER_F = """(* GENERATED by harness/translate.py from {path} ({qual}), sha256 of the function source {sha}.
   Do not edit: regenerated from /repo's working tree on every run. *)
From Coq Require Import ZArith List Bool.
From MV Require Import Base.Res Model.Num.
Import ListNotations.
Section K.
  Context {{F : Type}} (N : Num F).
  Local Notation "a +. b" := (nadd N a b) (at level 50, left associativity).
  Local Notation "a -. b" := (nsub N a b) (at level 50, left associativity).
  Local Notation "a *. b" := (nmul N a b) (at level 40, left associativity).
  Local Notation "a /. b" := (ndiv N a b) (at level 40, left associativity).
  Local Notation zero := (n0 N).
  Local Notation one := (n1 N).
  Local Notation fexp := (nexp N).
  Definition half : F := one /. (one +. one).
"""


def fsha(node, text):
    seg = ast.get_source_segment(text, node) or ""
    return hashlib.sha256(seg.encode()).hexdigest()[:16]


def kernel_chronon(method):
    path = "mutwo/core_events/basic.py"
    text = src(path)
    f = find_function(ast.parse(text), f"Chronon.{method}")
    expect_decorators(f, [], f"Chronon.{method}")
    helpers = helpers_from("mutwo/core_events/abc.py", "Event", ["_assert_valid_absolute_time", "_assert_correct_start_and_end_values"])
    params = [ident(a.arg) for a in f.args.args if a.arg != "self"]
    tr = Tr("Z", helpers=helpers)
    body = tr.block(strip_doc(f.body), lambda: (_ for _ in ()).throw(Untranslatable("function body falls off the end")))
    name = f"K_chronon_{method}"
    code = HEADER_Z.format(path=path, qual=f"Chronon.{method}", sha=fsha(f, text))
    code += f"\nDefinition {name} (self_duration {' '.join(params)} : Z) : res Z :=\n{indent(body)}.\n"
    return name, code


def kernel_index():
    path = "mutwo/core_events/basic.py"
    text = src(path)
    f = find_function(ast.parse(text), "Consecution._get_index_at_from_absolute_time_tuple")
    expect_decorators(f, ["staticmethod"], "Consecution._get_index_at_from_absolute_time_tuple")
    params = [ident(a.arg) for a in f.args.args if a.arg != "self"]
    tr = Tr("Z", result="option", calls={"bisect.bisect_right": ("bisect_right_z", 2)})
    body = tr.block(strip_doc(f.body), lambda: (_ for _ in ()).throw(Untranslatable("function body falls off the end")))
    name = "K_index_at"
    if len(params) != 3:
        raise Untranslatable("index kernel: unexpected signature")
    code = HEADER_Z.format(path=path, qual="Consecution._get_index_at_from_absolute_time_tuple", sha=fsha(f, text))
    code += "\n(* bisect.bisect_right as an integer *)\nDefinition bisect_right_z (l : list Z) (t : Z) : Z := Z.of_nat (bisect_right l t).\n"
    code += f"\nDefinition {name} ({params[0]} : Z) ({params[1]} : list Z) ({params[2]} : Z) : option Z :=\n{indent(body)}.\n"
    return name, code


def kernel_scale():
    path = "mutwo/core_utilities/tools.py"
    text = src(path)
    f = find_function(ast.parse(text), "scale")
    expect_decorators(f, [], "scale")
    params = [ident(a.arg) for a in f.args.args]
    tr = Tr("F", result="value")
    body = tr.block(strip_doc(f.body), lambda: (_ for _ in ()).throw(Untranslatable("function body falls off the end")))
    name = "K_scale"
    code = HEADER_F.format(path=path, qual="scale", sha=fsha(f, text))
    code += f"\n  Definition {name} ({' '.join(params)} : F) : res F :=\n{indent(body, 4)}.\nEnd K.\n"
    return name, code


def kernel_segment_area():
    """the body of the `for p0, p1 in zip(point_tuple, point_tuple[1:])` loop of Envelope.integrate_interval:
    new value of `integral` as a function of the old one and the two points"""
    path = "mutwo/core_events/envelopes.py"
    text = src(path)
    f = find_function(ast.parse(text), "Envelope.integrate_interval")
    expect_decorators(f, [], "Envelope.integrate_interval")
    loops = [n for n in strip_doc(f.body) if isinstance(n, ast.For)]
    if len(loops) != 1:
        raise Untranslatable("integrate_interval: expected exactly one loop")
    loop = loops[0]
    if ast.unparse(loop.target).strip("()") != "p0, p1" or ast.unparse(loop.iter) != "zip(point_tuple, point_tuple[1:])" or loop.orelse:
        raise Untranslatable("integrate_interval: unexpected loop header " + ast.unparse(loop.target) + " in " + ast.unparse(loop.iter))
    body = list(loop.body)
    # the two unpacking statements define the parameters (whatever they are called): a, b, c = p0 ; d, e, _ = p1
    names = []
    for st, src_name in zip(body[:2], ("p0", "p1")):
        if not (isinstance(st, ast.Assign) and len(st.targets) == 1 and isinstance(st.targets[0], ast.Tuple)
                and len(st.targets[0].elts) == 3 and all(isinstance(x, ast.Name) for x in st.targets[0].elts)
                and isinstance(st.value, ast.Name) and st.value.id == src_name):
            raise Untranslatable(f"integrate_interval: unexpected unpacking {ast.unparse(st)}")
        names.append([x.id for x in st.targets[0].elts])
    (t0n, v0n, c0n), (t1n, v1n, _unused) = names
    if len({t0n, v0n, c0n, t1n, v1n}) != 5 or _unused in (t0n, v0n, c0n, t1n, v1n):
        raise Untranslatable("integrate_interval: unpacked names are not distinct")
    # statements around the loop: start == end -> 0; integral = 0; return float(integral)
    before = [ast.unparse(s) for s in strip_doc(f.body) if not isinstance(s, ast.For)]
    before = [b[1:].replace(") =", " =", 1) if b.startswith("(start, end) =") else b for b in before]
    expect = ["start, end = (core_parameters.abc.Duration.from_any(o) for o in (start, end))", "if start == end:\n    return 0",
              "point_tuple = self.time_range_to_point_tuple(ranges.Range(start, end))", "integral = 0", "return float(integral)"]
    if before != expect:
        raise Untranslatable(f"integrate_interval: statements around the loop changed: {before}")
    tr = Tr("F", result="value")
    code_body = tr.block(body[2:], lambda: "integral")
    name = "K_segment_step"
    code = HEADER_F.format(path=path, qual="Envelope.integrate_interval (loop body)", sha=fsha(f, text))
    code += f"\n  Definition {name} (integral {ident(t0n)} {ident(v0n)} {ident(c0n)} {ident(t1n)} {ident(v1n)} : F) : F :=\n{indent(code_body, 4)}.\nEnd K.\n"
    return name, code


ACTION = """
(* what the loop body does with the child: nothing, remove it, or call the recursive operation on it *)
Inductive action := ActKeep | ActRemove | ActCall (a b : Z).
"""


def loop_kernel(qual, header, unpack, name, params, call, remove, optional=()):
    """the body of the single `for` loop of a Consecution method, as a decision function per child"""
    path = "mutwo/core_events/basic.py"
    text = src(path)
    f = find_function(ast.parse(text), qual)
    expect_decorators(f, [], qual)
    loops = [n for n in ast.walk(f) if isinstance(n, ast.For)]
    if len(loops) != 2:
        raise Untranslatable(f"{qual}: expected the child loop and the deletion loop")
    loop = loops[0]
    if ast.unparse(loop.target).strip("()") != unpack or ast.unparse(loop.iter) != header or loop.orelse:
        raise Untranslatable(f"{qual}: unexpected loop header: for {ast.unparse(loop.target)} in {ast.unparse(loop.iter)}")
    dele = ast.unparse(loops[1])
    want = f"for {{v}} in reversed({remove}):\n    del self[{{v}}]"
    if dele not in (want.format(v="i"), want.format(v="event_to_remove_index")):
        raise Untranslatable(f"{qual}: unexpected deletion loop: {dele}")
    tr = Tr("Z", result="action")
    tr.obj_fields = {"e": ("duration",)}
    tr.actions = {"call": call, "remove": remove, "index": "i"}
    tr.optional = set(optional)
    body = tr.block(list(loop.body), lambda: "ActKeep")
    ps = " ".join(f"({ident(p)} : option Z)" if p in optional else f"({ident(p)} : Z)" for p in params)
    code = HEADER_Z.format(path=path, qual=qual + " (body of the loop over the children)", sha=fsha(f, text)) + ACTION
    code += f"\nDefinition {name} {ps} : action :=\n{indent(body)}.\n"
    return name, code


def kernel_cut_out_step():
    return loop_kernel("Consecution.cut_out", "zip(range(len(self)), self.absolute_time_tuple, self)", "i, t0, e",
                       "K_cut_out_step", ["t0", "e_duration", "start", "end"], ("e", "cut_out"), "event_to_remove_index_list")


def kernel_cut_off_step():
    return loop_kernel("Consecution._cut_off", "zip(range(len(self)), abst_tuple, abst_tuple[1:] + (None,), self)", "i, t0, t1, e",
                       "K_cut_off_step", ["t0", "t1", "e_duration", "start", "end", "cut_off_duration"], ("e", "cut_off"),
                       "event_to_delete_list", optional=("t1",))


def kernel_tempo_seconds():
    """Tempo.seconds: the beat length every conversion starts from (a plain property: read afresh on every access)"""
    path = "mutwo/core_parameters/abc.py"
    text = src(path)
    f = find_function(ast.parse(text), "Tempo.seconds")
    expect_decorators(f, ["property"], "Tempo.seconds")
    if [a.arg for a in f.args.args] != ["self"]:
        raise Untranslatable("Tempo.seconds: unexpected signature")
    tr = Tr("F", result="value", self_fields=("bpm",))
    body = tr.block(strip_doc(f.body), lambda: (_ for _ in ()).throw(Untranslatable("function body falls off the end")))
    code = HEADER_F.format(path=path, qual="Tempo.seconds", sha=fsha(f, text))
    code += f"\n  Definition K_tempo_seconds (self_bpm : F) : res F :=\n{indent(body, 4)}.\nEnd K.\n"
    return "K_tempo_seconds", code


KERNELS = {
    "K_tempo_seconds": kernel_tempo_seconds,
    "K_cut_out_step": kernel_cut_out_step,
    "K_cut_off_step": kernel_cut_off_step,
    "K_chronon_cut_out": lambda: kernel_chronon("cut_out"),
    "K_chronon_cut_off": lambda: kernel_chronon("cut_off"),
    "K_index_at": kernel_index,
    "K_scale": kernel_scale,
    "K_segment_step": kernel_segment_area,
}


import translate_px  # noqa: E402  (second front end: pipelines and short effectful statement lists; it imports the helpers above)
KERNELS.update(translate_px.KERNELS)


def generate(name, outdir):
    """returns (ok, message); writes <outdir>/<name>.v when ok"""
    try:
        n, code = KERNELS[name]()
    except Untranslatable as e:
        return False, f"translator: {name}: unsupported or changed source: {e}"
    except (OSError, SyntaxError) as e:
        return False, f"translator: {name}: cannot read the source: {e}"
    except Exception as e:      # fail closed: a source shape the translator did not foresee is a broken obligation, not a crash
        return False, f"translator: {name}: unsupported source ({type(e).__name__}: {e})"
    os.makedirs(outdir, exist_ok=True)
    p = os.path.join(outdir, n + ".v")
    old = open(p).read() if os.path.exists(p) else None
    if old != code:
        open(p, "w").write(code)
    return True, p


if __name__ == "__main__":
    import sys
    out = sys.argv[1] if len(sys.argv) > 1 else "/verif/coq/Gen"
    for k in KERNELS:
        ok, msg = generate(k, out)
        print(k, "ok" if ok else "FAILED", msg)
        if ok:
            print(open(msg).read())
