"""Seeded generators for envelopes (control point lists) and envelope queries / operations."""
import random

UNITS = [2500000000, 10000000000, 3333333333, 5000000000, 1234567891]
SHAPES = [0, 0, 0, 0.5, -0.5, 1, -1, 2, -2, 3, -3, 5, -5, 8, -8]


def hexf(v):
    return float(v).hex()


class GE:
    def __init__(self, rng, kind=None, unit=None, jumps=None, last_positive=None, max_points=7, shapes=SHAPES, values="any"):
        self.r = rng
        self.kind = kind or rng.choice(["E", "E", "T"])
        self.unit = unit or rng.choice(UNITS)
        self.jump_p = jumps if jumps is not None else rng.choice([0.0, 0.0, 0.2, 0.35])
        self.last_positive = last_positive if last_positive is not None else (rng.random() < 0.1)
        self.max_points = max_points
        self.shapes = shapes
        self.values = values

    def value(self):
        r = self.r
        if self.kind == "T":
            return r.choice([20, 30, 40, 60, 60, 90, 120, 240, r.uniform(20, 240)])
        if self.values == "positive":
            return r.choice([1, 2, 0.5, 10, r.uniform(0.1, 100)])
        return r.choice([0, 1, -1, 2, 10, 0.5, -3.25, 100, r.uniform(-1000, 1000), r.randint(-5, 5)])

    def env(self, n=None):
        r = self.r
        if n is None and self.max_points >= 7 and r.random() < 0.03:
            n = r.choice([33, 40, 64, 65, 120])          # a long envelope now and then (an automation lane has hundreds of points)
        n = n if n is not None else r.randint(1, self.max_points)
        pts = []
        for i in range(n):
            last = i == n - 1
            if last:
                d = r.randint(1, 4) * self.unit if self.last_positive else 0
            else:
                d = 0 if r.random() < self.jump_p else r.randint(1, 6) * self.unit
            pts.append([d, hexf(self.value()), hexf(r.choice(self.shapes))])
        return [self.kind] + pts


def starts(e):
    out, t = [], 0
    for p in e[1:]:
        out.append(t)
        t += int(p[0])
    return out, t


def pick_time(rng, e, allow_bad=True, inside_bias=0.5):
    st, d = starts(e)
    pool = set([0, d, d + 1, d + 2500000000, d + 12345678901])
    if allow_bad:
        pool |= {-1, -2500000000}
    inside = []
    for i, p in enumerate(e[1:]):
        a, b = st[i], st[i] + int(p[0])
        pool |= {a, a + 1, a - 1 if a > 0 or allow_bad else a, b}
        if b - a >= 2:
            inside.append((a + b) // 2)
            inside.append(rng.randint(a + 1, b - 1))
            inside.append(a + (b - a) // 3)
    if inside and rng.random() < inside_bias:
        return rng.choice(inside)
    return rng.choice(sorted(pool))


def in_curved_segment(e, t):
    st, _ = starts(e)
    for i, p in enumerate(e[1:]):
        a, b = st[i], st[i] + int(p[0])
        if a < t < b and float.fromhex(p[2]) != 0 and i + 1 < len(e) - 1:
            return True
    return False


def on_repeated_time(e, t):
    st, _ = starts(e)
    return st.count(t) >= 2


def near_jump(e, t, eps=10000):
    """t is strictly within eps ticks of a repeated time but not on it (rounding could decide a branch)"""
    st, _ = starts(e)
    for s in set(x for x in st if st.count(x) >= 2):
        if 0 < abs(t - s) < eps:
            return True
    return False
