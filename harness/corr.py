"""Run the same cases through the extracted model (OCaml driver) and the implementation runner."""
import os
import subprocess
import sys

HERE = os.path.dirname(os.path.abspath(__file__))
VERIF = os.path.dirname(HERE)
DRIVER = os.path.join(VERIF, "coq", "Extract", "driver")
PY = "/venv/bin/python"
REPO = os.environ.get("VERIF_REPO", "/repo")


def impl_env():
    env = dict(os.environ)
    env.update(
        PYTHONPATH=REPO,
        PYTHONHASHSEED="0",
        PYTHONDONTWRITEBYTECODE="1",
        MUTWO_CORE_VERIF="1",
    )
    return env


def _chunks(l, n):
    k = max(1, (len(l) + n - 1) // n)
    return [l[i:i + k] for i in range(0, len(l), k)]


def run_lines(cmd, lines, env=None, jobs=1, timeout=900):
    """Feed `lines` to `jobs` copies of cmd (stdin -> stdout, one line per line); returns output lines."""
    if not lines:
        return []
    parts = _chunks(lines, jobs)
    procs = []
    for p in parts:
        pr = subprocess.Popen(cmd, stdin=subprocess.PIPE, stdout=subprocess.PIPE, stderr=subprocess.PIPE, env=env, text=True)
        procs.append((pr, p))
    # feed from threads to avoid pipe deadlocks
    import threading

    outs = [None] * len(procs)

    def work(i, pr, p):
        o, e = pr.communicate("\n".join(p) + "\n", timeout=timeout)
        outs[i] = (o, e, pr.returncode)

    th = [threading.Thread(target=work, args=(i, pr, p)) for i, (pr, p) in enumerate(procs)]
    for t in th:
        t.start()
    for t in th:
        t.join()
    res = []
    for (o, e, rc), p in zip(outs, parts):
        ol = o.split("\n")
        if ol and ol[-1] == "":
            ol.pop()
        if rc != 0 or len(ol) != len(p):
            raise RuntimeError(f"{cmd}: rc={rc}, {len(ol)} outputs for {len(p)} inputs\nstderr: {e[-2000:]}")
        res += ol
    return res


def run_model(lines, jobs=1):
    return run_lines([DRIVER], lines, jobs=jobs)


def run_impl(runner, lines, jobs=1):
    return run_lines([PY, os.path.join(HERE, runner)], lines, env=impl_env(), jobs=jobs)
