"""Verdict protocol shared by all checks (DESIGN.md section 3.1).

  1. proof obligations: incremental `make`, re-check of Properties/<id>.v, Print Assumptions
     parsed against the axiom allow-list, vernacular scan for forbidden commands;
  2. corpus + generated cases (one PRNG state per case);
  3. implementation run (/repo working tree) and model run (extracted OCaml driver);
  4. diff of canonical observations;
  5. property oracle on the implementation's observations;
  6. verdict, replay files, evidence.
"""
import glob
import json
import os
import re
import subprocess
import sys
import time

HERE = os.path.dirname(os.path.abspath(__file__))
VERIF = os.path.dirname(HERE)
COQ = os.path.join(VERIF, "coq")
sys.path.insert(0, HERE)
import corr  # noqa: E402
import sx  # noqa: E402

ALLOWED_AXIOMS = {
    # declared by the Coq standard library (real numbers, classical logic, extensionality)
    "ClassicalDedekindReals.sig_not_dec",
    "ClassicalDedekindReals.sig_forall_dec",
    "FunctionalExtensionality.functional_extensionality_dep",
    "Classical_Prop.classic",
}

FORBIDDEN = [
    r"\bAdmitted\b", r"\badmit\b", r"\bAxiom\b", r"\bAxioms\b", r"\bParameter\b", r"\bParameters\b",
    r"\bConjecture\b", r"\bConjectures\b", r"Admit\s+Obligations", r"Unset\s+Guard\s+Checking",
    r"Unset\s+Positivity\s+Checking", r"Unset\s+Universe\s+Checking", r"bypass_check",
    r"type-in-type", r"impredicative-set", r"\bgive_up\b",
]


def strip_comments(src):
    out = []
    depth = 0
    i = 0
    n = len(src)
    in_str = False
    while i < n:
        if depth == 0 and src[i] == '"':
            in_str = not in_str
            out.append(src[i])
            i += 1
            continue
        if not in_str and src.startswith("(*", i):
            depth += 1
            i += 2
            continue
        if not in_str and depth > 0 and src.startswith("*)", i):
            depth -= 1
            i += 2
            continue
        if depth == 0:
            out.append(src[i])
        i += 1
    return "".join(out)


def scan_sources():
    """Vernacular-level scan of every .v file and _CoqProject. Returns list of offending (file, what)."""
    bad = []
    files = sorted(glob.glob(os.path.join(COQ, "**", "*.v"), recursive=True)) + [os.path.join(COQ, "_CoqProject")]
    for f in files:
        try:
            src = open(f).read()
        except OSError:
            continue
        code = strip_comments(src) if f.endswith(".v") else src
        for pat in FORBIDDEN:
            if re.search(pat, code):
                bad.append((os.path.relpath(f, VERIF), pat))
        if f.endswith(".v"):
            # Variable / Hypothesis / Context outside a Section declare axioms
            depth = 0
            for sentence in re.split(r"\.\s", code):
                s = sentence.strip()
                if re.match(r"^(Section|Module\s+Type)\b", s):
                    depth += 1
                elif re.match(r"^End\b", s) and depth > 0:
                    depth -= 1
                elif depth == 0 and re.match(r"^(Variable|Variables|Hypothesis|Hypotheses|Context)\b", s):
                    bad.append((os.path.relpath(f, VERIF), "Variable/Hypothesis outside Section"))
    return bad


def run(cmd, cwd=None, timeout=3000, env=None):
    t = time.time()
    try:
        p = subprocess.run(cmd, cwd=cwd, stdout=subprocess.PIPE, stderr=subprocess.STDOUT, text=True, timeout=timeout, env=env)
        return p.returncode, p.stdout, time.time() - t
    except subprocess.TimeoutExpired as e:
        return 124, (e.stdout or "") + "\nTIMEOUT", time.time() - t


# trial runs against a scratch copy of the repository (tools/try_seeded.py): VERIF_REPO points to the copy and
# VERIF_OUT to a scratch directory for evidence / replays, so that /repo and the committed evidence stay untouched
OUT = os.environ.get("VERIF_OUT", VERIF)
TRIAL = os.environ.get("VERIF_REPO", "/repo") != "/repo"


class build_lock:
    """checks may run side by side: builds of the shared coq/ tree are serialised"""

    def __enter__(self):
        import fcntl
        self.f = open(os.path.join(COQ, ".build.lock"), "w")
        fcntl.flock(self.f, fcntl.LOCK_EX)

    def __exit__(self, *a):
        import fcntl
        fcntl.flock(self.f, fcntl.LOCK_UN)
        self.f.close()


def ensure_build():
    """Incremental full (.vo) build + extraction + driver. Returns (ok, log)."""
    with build_lock():
        rc, out, _ = run(["bash", os.path.join(VERIF, "build.sh")], timeout=3400)
    return rc == 0 and "build-ok" in out, out


def kernel_ties(names):
    """Second tie (translator): regenerate coq/Gen/K_<name>.v from /repo's current source and re-check the hand-written
    lemma coq/Gen/K_<name>_eq.v that equates it with the model.  Returns (info list, problems)."""
    import translate
    infos, problems = [], []
    gen = os.path.join(COQ, "Gen")
    with build_lock():
        for name in names:
            info = {"kernel": name, "translated": False, "lemma_checked": False}
            infos.append(info)
            gfile = os.path.join(gen, name + ".v")
            saved = open(gfile).read() if TRIAL and os.path.exists(gfile) else None
            try:
                kernel_tie(name, gen, info, problems)
            finally:
                if saved is not None and open(gfile).read() != saved:
                    # a trial run must not leave the translation of a scratch copy behind
                    open(gfile, "w").write(saved)
                    run(["timeout", "300", "coqc", "-Q", ".", "MV", f"Gen/{name}.v"], cwd=COQ, timeout=320)
    return infos, problems


def kernel_tie(name, gen, info, problems):
    import translate
    ok, msg = translate.generate(name, gen)
    if not ok:
        problems.append(("obligation", f"kernel tie {name}: {msg}"))
        return
    info["translated"] = True
    head = open(msg).read().split("\n", 1)[0]
    info["source"] = head.strip("(* ").strip()
    rc, out, _ = run(["timeout", "300", "coqc", "-Q", ".", "MV", f"Gen/{name}.v"], cwd=COQ, timeout=320)
    if rc != 0:
        problems.append(("obligation", f"kernel tie {name}: the generated definition does not compile: " + out[-600:]))
        return
    rc, out, _ = run(["timeout", "300", "coqc", "-Q", ".", "MV", f"Gen/{name}_eq.v"], cwd=COQ, timeout=320)
    if rc != 0:
        problems.append(("obligation", f"kernel tie {name}: lemma Gen/{name}_eq.v (translated source = model) no longer checks: " + out[-900:]))
        return
    closed, axioms = parse_assumptions(out)
    if axioms - ALLOWED_AXIOMS or closed + out.count("Axioms:") < 1:
        problems.append(("obligation", f"kernel tie {name}: unexpected assumptions " + ", ".join(sorted(axioms))))
        return
    info["lemma_checked"] = True
    info["lemma"] = f"Gen/{name}_eq.v"


def theorem_names(vfile):
    code = strip_comments(open(vfile).read())
    return re.findall(r"^\s*Theorem\s+([A-Za-z0-9_']+)", code, flags=re.M)


def parse_assumptions(out):
    """Parse the output of Print Assumptions commands: returns (n_closed, axioms set)."""
    axioms = set()
    closed = out.count("Closed under the global context")
    in_block = False
    for line in out.split("\n"):
        if line.startswith("Axioms:"):
            in_block = True
            continue
        if not in_block:
            continue
        if line.startswith("Closed under") or line.startswith("File ") or line.startswith("Warning"):
            in_block = False
            continue
        m = re.match(r"^([A-Za-z_][A-Za-z0-9_.']*)\s*(:|$)", line)
        if m:
            axioms.add(m.group(1))
        elif line and not line[0].isspace():
            in_block = False
    return closed, axioms


def proof_obligations(pid, tier, mod=None):
    """Re-check Properties/<pid>.v. Returns dict for the evidence + list of problems."""
    problems = []
    ok, log = ensure_build()
    vfile = os.path.join(COQ, "Properties", pid + ".v")
    info = {"obligations": 0, "discharged": 0, "theorems": [], "axioms": [], "checker_cmd": "", "build_ok": ok}
    if not os.path.exists(vfile):
        problems.append(("obligation", f"Properties/{pid}.v missing"))
        return info, problems
    names = theorem_names(vfile)
    info["theorems"] = names
    info["obligations"] = len(names)
    if not ok:
        problems.append(("obligation", "coq build failed: " + log[-1500:]))
    cmd = ["timeout", "900", "coqc", "-Q", ".", "MV", "Properties/" + pid + ".v"]
    info["checker_cmd"] = "cd coq && make (full .vo build) && " + " ".join(cmd[2:])
    rc, out, dt = run(cmd, cwd=COQ, timeout=1000)
    info["coqc_s"] = round(dt, 2)
    if rc != 0:
        problems.append(("obligation", f"coqc Properties/{pid}.v failed: " + out[-1500:]))
        return info, problems
    closed, axioms = parse_assumptions(out)
    n_print = closed + out.count("Axioms:")
    if n_print < len(names):
        problems.append(("obligation", f"only {n_print} Print Assumptions outputs for {len(names)} theorems"))
    extra = axioms - ALLOWED_AXIOMS
    if extra:
        problems.append(("obligation", "axioms outside the allow-list: " + ", ".join(sorted(extra))))
    info["axioms"] = sorted(axioms)
    bad = scan_sources()
    if bad:
        problems.append(("obligation", "forbidden vernacular: " + "; ".join(f"{f}: {w}" for f, w in bad)))
    kinfo, kproblems = kernel_ties(getattr(mod, "KERNELS", [])) if mod is not None else ([], [])
    info["kernels"] = kinfo
    problems += kproblems
    if not problems:
        info["discharged"] = len(names)
    if tier == "thorough":
        # independent re-check of the compiled property file and everything it depends on
        cmd2 = ["timeout", "2400", "coqchk", "-silent", "-o", "-Q", ".", "MV", "MV.Properties." + pid]
        rc2, out2, dt2 = run(cmd2, cwd=COQ, timeout=2500)
        info["coqchk_s"] = round(dt2, 1)
        info["coqchk_rc"] = rc2
        info["coqchk_tail"] = out2[-1200:]
        if rc2 != 0:
            problems.append(("obligation", "coqchk failed: " + out2[-800:]))
    return info, problems


# --------------------------------------------------------------------------- findings
def load_findings():
    p = os.path.join(VERIF, "known_findings.json")
    try:
        return json.load(open(p))
    except Exception:
        return {"fixed": [], "open": []}


# --------------------------------------------------------------------------- the check driver
class Check:
    """One property check. A property module provides:
       PID, RUNNER (impl runner file name), LEVEL_RULE (str),
       gen(rng_seed:int, index:int) -> case (s-expr list),
       compare(case, model_obs, impl_obs) -> None | str   (disagreement description)
       oracle(case, impl_obs, model_obs) -> None | str    (property violated on the implementation)
       nontrivial(case, impl_obs) -> bool
       known(case, msg) -> None | finding-id              (match against open known findings)
       neighbours(case) -> [case]                         (extended search around a disagreement)
       N = {"quick": int, "thorough": int}
    """

    def __init__(self, mod):
        self.mod = mod
        self.pid = mod.PID

    def run_cases(self, cases, jobs):
        lines = [sx.show(c) for c in cases]
        mc = getattr(self.mod, "model_case", None)
        mlines = [sx.show(mc(c)) for c in cases] if mc else lines
        model = corr.run_model(mlines, jobs=max(1, jobs // 2)) if getattr(self.mod, "USE_MODEL", True) else [None] * len(lines)
        rf = getattr(self.mod, "runner_for", None)
        if rf is None:
            impl = corr.run_impl(self.mod.RUNNER, lines, jobs=jobs)
        else:
            # several implementation runners in one property: partition the cases, keep the order
            impl = [None] * len(lines)
            groups = {}
            for i, c in enumerate(cases):
                groups.setdefault(rf(c), []).append(i)
            for runner, idxs in groups.items():
                outs = corr.run_impl(runner, [lines[i] for i in idxs], jobs=jobs)
                for i, o in zip(idxs, outs):
                    impl[i] = o
        return lines, model, impl

    def evaluate(self, cases, jobs):
        lines, model, impl = self.run_cases(cases, jobs)
        results = []
        for c, l, m, i in zip(cases, lines, model, impl):
            mo = sx.parse(m) if m is not None else None
            io = sx.parse(i)
            dis = None
            orc = None
            if io and io[0] == "runner-error":
                dis = "runner-error: " + sx.show(io)
            elif mo is not None and mo and mo[0] == "driver-error":
                dis = "driver-error: " + sx.show(mo)
            else:
                # an observation of a shape the comparison / the oracle cannot read (a changed implementation may return
                # anything) is a failure of that case, never a crash of the check
                if mo is not None:
                    try:
                        dis = self.mod.compare(c, mo, io)
                    except Exception as exc:  # noqa
                        dis = f"the observation cannot be compared with the model's ({type(exc).__name__}: {exc}): impl {sx.show(io)[:300]}"
                try:
                    orc = self.mod.oracle(c, io, mo)
                except Exception as exc:  # noqa
                    orc = f"the observation is not of the form the property's oracle reads ({type(exc).__name__}: {exc}): {sx.show(io)[:300]}"
            results.append({"case": c, "line": l, "model": m, "impl": i, "dis": dis, "orc": orc, "io": io, "mo": mo})
        return results

    def main(self, argv):
        t0 = time.time()
        tier = os.environ.get("VERIF_TIER", "quick")
        replay = None
        a = list(argv)
        while a:
            x = a.pop(0)
            if x == "--tier":
                tier = a.pop(0)
            elif x == "--replay":
                replay = a.pop(0)
        seed = int(os.environ.get("VERIF_SEED", "0") or 0)
        jobs = int(os.environ.get("VERIF_JOBS", "16"))
        pid = self.pid
        mod = self.mod

        if replay:
            return self.replay(replay)

        info, problems = proof_obligations(pid, tier, mod)

        # corpus first, then generated
        cases = []
        corpus_dir = os.path.join(VERIF, "corpus", pid)
        corpus_n = 0
        for f in sorted(glob.glob(os.path.join(corpus_dir, "*.sx"))):
            for line in open(f):
                line = line.strip()
                if line and not line.startswith(";"):
                    cases.append(sx.parse(line))
                    corpus_n += 1
        n = mod.N[tier]
        for i in range(n):
            cases.append(mod.gen(seed, i))
        exhaustive_n = 0
        if tier == "thorough" and hasattr(mod, "exhaustive_cases"):
            ex = mod.exhaustive_cases()
            exhaustive_n = len(ex)
            cases += ex

        results = self.evaluate(cases, jobs) if cases else []
        vm = None
        if tier == "thorough" and getattr(mod, "VM_CROSSCHECK", False):
            import vmcheck
            # the cross-check needs the case as it was sent to the driver (run_cases applies model_case the same way)
            mc = getattr(mod, "model_case", None)
            vm = vmcheck.crosscheck([mc(r["case"]) if mc else r["case"] for r in results], [r["model"] for r in results], tag=pid)
            for (c, a, b) in vm["mismatches"]:
                problems.append(("obligation", f"extraction cross-check: vm_compute and the extracted driver disagree on {c}: {a} vs {b}"))
        for extra in getattr(mod, "extra_checks", lambda seed, tier: [])(seed, tier):
            results.append(extra)

        violations = []       # (kind, message, result)
        known_lines = []
        open_findings = [f for f in load_findings().get("open", []) if f.get("property") == pid]
        dis_results = [r for r in results if r.get("dis")]
        orc_results = [r for r in results if r.get("orc")]

        # extended search around disagreements when the oracle found nothing yet
        searched = 0
        if dis_results and not orc_results and hasattr(mod, "neighbours"):
            extra_cases = []
            for r in dis_results[:20]:
                extra_cases += mod.neighbours(r["case"])
            extra_cases = extra_cases[:4000]
            if extra_cases:
                more = self.evaluate(extra_cases, jobs)
                searched = len(more)
                orc_results += [r for r in more if r.get("orc")]

        def is_known(r):
            for f in open_findings:
                fn = getattr(mod, "known", None)
                if fn and fn(f, r["case"], r["orc"], r.get("io")):
                    return f
            return None

        unknown_orc = []
        seen_known = {}
        for r in orc_results:
            f = is_known(r)
            if f is not None:
                seen_known.setdefault(f["id"], (f, r))
            else:
                unknown_orc.append(r)
        for fid, (f, r) in seen_known.items():
            known_lines.append(f"KNOWN-FINDING: property={pid} {f['what']}")

        os.makedirs(os.path.join(OUT, "replays"), exist_ok=True)
        replay_paths = []

        def write_replay(name, payload):
            note = getattr(mod, "case_note", None)
            if note and payload.get("case"):
                try:
                    n = note(sx.parse(payload["case"]))
                    if n:
                        payload["note"] = n
                except Exception:  # noqa
                    pass
            p = os.path.join(OUT, "replays", f"{pid}-{seed}-{name}.json")
            json.dump(payload, open(p, "w"), indent=1)
            replay_paths.append(p)
            return p

        out_lines = []
        if unknown_orc:
            # shrink: prefer the smallest failing case
            unknown_orc.sort(key=lambda r: len(r["line"]))
            r = unknown_orc[0]
            if hasattr(mod, "shrink"):
                r = self.shrink(r)
            p = write_replay("oracle", {
                "property": pid, "kind": "property-violated-on-implementation", "what": r["orc"],
                "case": r["line"], "implementation_observation": r["impl"], "model_observation": r["model"],
                "how_to_replay": f"./check {pid} --replay <this file>", "other_failing_cases": [x["line"] for x in unknown_orc[1:6]],
            })
            out_lines.append(f"VIOLATION property={pid} replay={p}")
        elif dis_results or problems:
            # a proof obligation or the correspondence broke and no failing input was found
            # disagreements that coincide with an open known finding are not counted
            unk_dis = []
            for r in dis_results:
                fn = getattr(mod, "known_dis", None)
                hit = None
                if fn:
                    for f in open_findings:
                        if fn(f, r["case"], r["dis"], r.get("io"), r.get("mo")):
                            hit = f
                            break
                if hit is None:
                    unk_dis.append(r)
                elif hit["id"] not in seen_known:
                    seen_known[hit["id"]] = (hit, r)
                    known_lines.append(f"KNOWN-FINDING: property={pid} {hit['what']}")
            if unk_dis or problems:
                unk_dis.sort(key=lambda r: len(r["line"]))
                p = write_replay("broken", {
                    "property": pid, "kind": "proof-obligation-or-correspondence-broken",
                    "broken_obligations": [m for _, m in problems],
                    "broken_correspondence": [
                        {"name": f"corr:{pid}", "what": r["dis"], "case": r["line"], "model": r["model"], "impl": r["impl"]}
                        for r in unk_dis[:5]
                    ],
                    "searched_for_failing_input": {"cases_of_run": len(results), "neighbourhood_cases": searched, "found": 0},
                })
                out_lines.append(f"VIOLATION property={pid} replay={p} no-failing-input-found")

        # ---------------------------------------------------------------- evidence
        nontriv = set()
        for r in results:
            try:
                if r.get("line") and mod.nontrivial(r["case"], r.get("io")):
                    nontriv.add(r["line"])
            except Exception:
                pass
        stats = getattr(mod, "stats", lambda results: {})(results)
        samples = [r["line"] for r in results[corpus_n:corpus_n + 3] if r.get("line")]
        if hasattr(mod, "sample_obligations"):
            samples += mod.sample_obligations()
        ev = {
            "property_id": pid,
            "tier": tier,
            "seed": seed,
            "level": "proof",
            "coverage": {
                "obligations": info["obligations"],
                "discharged": info["discharged"],
                "checker_cmd": info["checker_cmd"],
                "trusted_base": [
                    "Coq 8.16.1 kernel (coqc" + ("; coqchk re-check in this run" if tier == "thorough" else "") + "); no native_compute",
                    "axioms reported by Print Assumptions in this run: " + (", ".join(info["axioms"]) if info["axioms"] else "none (Closed under the global context)"),
                    "extraction: ExtrOcamlBasic only, no Extract Constant; hand-written coq/Extract/driver.ml (s-expression I/O, int<->Z)",
                    "correspondence harness (generators, canonical observation, oracles) in /verif/harness",
                ] + (["translators harness/translate.py and harness/translate_px.py (Python ast -> Gallina, fail-closed) for the functions listed under "
                      "translated_kernels: trusted to render the small Python subset faithfully; the readings they adopt are stated in the "
                      "generated headers coq/Gen/K_*.v and in DESIGN.md section 7"] if info.get("kernels") else []) + getattr(mod, "TRUSTED", []),
                "theorems": info["theorems"],
                "evaluations": len(results),
                "distinct_nontrivial": len(nontriv),
                "rule": mod.LEVEL_RULE,
                "samples": samples,
                "traces_validated_against_impl": sum(1 for r in results if r.get("model") is not None and not r.get("dis")),
                "disagreements": len(dis_results),
                "oracle_failures": len(orc_results),
                "corpus_cases": corpus_n,
                "known_findings_seen": sorted(seen_known.keys()),
                "input_distribution": stats,
                "coqc_s": info.get("coqc_s"),
                "translated_kernels": info.get("kernels", []),
            },
            "assumptions": getattr(mod, "ASSUMPTIONS", []),
            "wall_s": round(time.time() - t0, 2),
            "violations": len([l for l in out_lines if l.startswith("VIOLATION")]),
        }
        if exhaustive_n:
            ev["coverage"]["exhaustive_small_scope"] = {"cases": exhaustive_n, "space": getattr(mod, "EXHAUSTIVE_SPACE", ""), "exhaustive": True}
        if vm is not None:
            ev["coverage"]["extraction_crosscheck_vm_compute"] = {"cases": vm["checked"], "mismatches": len(vm["mismatches"])}
            if set(vm.get("per_kind", {})) - {"m1"}:
                ev["coverage"]["extraction_crosscheck_vm_compute"]["cases_per_kind"] = vm["per_kind"]
        if tier == "thorough":
            ev["coverage"]["coqchk_rc"] = info.get("coqchk_rc")
            ev["coverage"]["coqchk_s"] = info.get("coqchk_s")
        os.makedirs(os.path.join(OUT, "evidence"), exist_ok=True)
        json.dump(ev, open(os.path.join(OUT, "evidence", pid + ".json"), "w"), indent=1)

        for l in known_lines:
            print(l)
        for l in out_lines:
            print(l)
        print(f"{pid}: tier={tier} seed={seed} theorems={info['discharged']}/{info['obligations']} cases={len(results)} "
              f"nontrivial={len(nontriv)} disagreements={len(dis_results)} oracle_failures={len(orc_results)} "
              f"wall={ev['wall_s']}s")
        return 1 if out_lines else 0

    def shrink(self, r):
        """Greedy shrinking with the property module's candidate generator."""
        mod = self.mod
        best = r
        for _ in range(40):
            cands = mod.shrink(best["case"])
            if not cands:
                break
            cands = cands[:200]
            res = self.evaluate(cands, 8)
            fails = [x for x in res if x.get("orc")]
            if not fails:
                break
            fails.sort(key=lambda x: len(x["line"]))
            if len(fails[0]["line"]) >= len(best["line"]):
                break
            best = fails[0]
        return best

    def replay(self, path):
        d = json.load(open(path))
        lines = []
        if "case" in d:
            lines.append(d["case"])
        for b in d.get("broken_correspondence", []):
            lines.append(b["case"])
        cases = [sx.parse(l) for l in lines]
        res = self.evaluate(cases, 1) if cases else []
        bad = False
        for r in res:
            print("case :", r["line"])
            print("model:", r["model"])
            print("impl :", r["impl"])
            print("disagreement:", r["dis"])
            print("oracle:", r["orc"])
            bad = bad or bool(r["dis"] or r["orc"])
        for m in d.get("broken_obligations", []):
            print("broken obligation:", m)
        if bad:
            print(f"VIOLATION property={self.pid} replay={path}")
        return 1 if bad else 0
