"""Implementation runner for the M1 (event tree) cases.

Runs under /venv/bin/python with PYTHONPATH=/repo, i.e. against /repo's current working tree.
Reads one s-expression case per line (same syntax as coq/Extract/driver.ml), drives the
public mutwo API and prints one s-expression observation per line.
"""
import sys
import weakref
import functools
import copy
import os
import logging
from fractions import Fraction

sys.path.insert(0, os.path.dirname(os.path.abspath(__file__)))
import sx  # noqa: E402

logging.disable(logging.CRITICAL)
from mutwo import core_events as ce  # noqa: E402
from mutwo import core_parameters as cp  # noqa: E402

C, S, P = ce.Chronon, ce.Consecution, ce.Concurrence
TICK = 10**10
DIGITS = 10


def set_resolution(case):
    """every eighth case (decided by the case text) runs under the library's public precision switch set to 12 digits, the
    tick of the case then being 1e-12 beats: the model counts in ticks, so its answers are the same"""
    global TICK, DIGITS
    fine = os.environ.get("VERIF_DEFAULT_PRECISION") != "1" and sum(map(ord, sx.show(case))) % 8 == 3
    DIGITS = 12 if fine else 10
    TICK = 10 ** DIGITS
    cp.configurations.ROUND_DURATION_TO_N_DIGITS = DIGITS


def ticks(duration):
    x = duration.beat_count * TICK
    r = round(x)
    if abs(x - r) > 1e-3:
        raise AssertionError(f"duration {duration!r} is not tick-exact: {x!r}")
    return r


def mk_tag(n):
    return None if n == 0 else f"t{n}"


def rd_tag(t):
    if not t:
        return 0
    return int(t[1:]) if isinstance(t, str) and t[0] == "t" else 999


FLEX7 = [[0, 60], [2, 120]]


def mk_tempo(n):
    """tempo ids: 0 none, 7 a trajectory, 8 a WesternTempo with a reference, otherwise the constant 60 + n"""
    if n == 7:
        return cp.FlexTempo(FLEX7)
    if n == 8:
        return cp.WesternTempo(60, reference=2)
    return None if n == 0 else cp.DirectTempo(60 + n)


def rd_tempo(e):
    t = e.tempo
    if type(t) is cp.DirectTempo:
        return int(round(t.bpm)) - 60
    if type(t) is cp.FlexTempo and [[float(x), float(v)] for x, v in zip(t.absolute_time_tuple, t.value_tuple)] == [[0.0, 60.0], [2.0, 120.0]] \
            and list(t.curve_shape_tuple) == [0, 0]:
        return 7
    if type(t) is cp.WesternTempo and t.bpm == 120 and t.reference == 2:
        return 8
    return 999


_DURPOOL = {}


class TickDuration(cp.abc.Duration):
    """a user-defined duration (the documented extension point: only `beat_count` has to be provided); its constructor
    takes ticks, not beats, so code that rebuilds durations with `type(d)(beats)` instead of going through the property is seen"""

    def __init__(self, tick_count):
        self._tick_count = int(tick_count)

    @property
    def beat_count(self):
        return round(self._tick_count / TICK, DIGITS)

    @beat_count.setter
    def beat_count(self, beat_count):
        self._tick_count = round(float(beat_count) * TICK)


class RestMaker:
    """a maker of rests that is an object, not a function"""

    def __call__(self, duration):
        return ce.Chronon(duration)


class Section(ce.Consecution):
    """a named sequence, `Section(title, events)`: new, empty sections can only be made through its own `empty_copy`"""

    def __init__(self, title, iterable=(), **kwargs):
        super().__init__(iterable, **kwargs)
        self.title = title

    def empty_copy(self):
        return type(self)(self.title, [], tempo=copy.deepcopy(self.tempo), tag=self.tag)


class Staff(ce.Concurrence):
    """a named simultaneity, `Staff(title, voices)`: like Section, rebuilt only through its own `empty_copy`"""

    def __init__(self, title, iterable=(), **kwargs):
        super().__init__(iterable, **kwargs)
        self.title = title

    def empty_copy(self):
        return type(self)(self.title, [], tempo=copy.deepcopy(self.tempo), tag=self.tag)


class Coloured(ce.Consecution, class_specific_side_attribute_tuple=("colour",)):
    """a sequence with a declared side attribute (the documented way): every container made from it - slices, parts,
    copies, sums - has to carry it too"""

    def __init__(self, *args, colour=None, **kwargs):
        super().__init__(*args, **kwargs)
        self.colour = colour if colour is not None else []


class Anchor:
    pass


_ANCHOR = Anchor()


class BoxDuration(cp.abc.Duration):
    """a user-defined duration whose state is a nested mutable object, updated in place by the setter (a copy that is only
    shallow shares it)"""

    def __init__(self, tick_count):
        self._box = [int(tick_count)]

    @property
    def beat_count(self):
        return round(self._box[0] / TICK, DIGITS)

    @beat_count.setter
    def beat_count(self, beat_count):
        self._box[0] = round(float(beat_count) * TICK)


def build(x):
    if x[0] == "L":
        d, l = int(x[1]), int(x[2])
        # every fifth label is a RatioDuration leaf, the others DirectDuration leaves
        dur = Fraction(d, TICK) if l % 5 == 2 else d / TICK
        if l % 7 == 4 and l % 3 != 0 and l < 1000:
            dur = TickDuration(d)          # every seventh label: a user-defined Duration class
        elif l % 7 == 5 and l % 3 != 0 and l < 1000:
            dur = BoxDuration(d)           # ... and one that keeps its value inside a nested mutable object
        elif l % 3 == 0:
            # leaves may legitimately share one Duration object (a note-value constant reused across notes):
            # every third label takes its duration object from a per-case pool keyed by the value
            key = (d, l % 5 == 2)
            if key not in _DURPOOL:
                _DURPOOL[key] = cp.abc.Duration.from_any(dur)
            dur = _DURPOOL[key]
        if l >= 1000:
            # shared reference stream (pure operations only): leaves with the same label >= 1000 and duration
            # are ONE object referenced several times
            key = ("leaf", d, l)
            if key not in _DURPOOL:
                o = C(dur)
                o.name = l
                _DURPOOL[key] = o
            return _DURPOOL[key]
        c = C(dur)
        if l != -1:
            c.name = l
            if l % 2 == 0:
                c.marks = [l]                       # a mutable parameter value of the leaf (its payload)
            if l % 11 == 7:
                c.ref = weakref.ref(_ANCHOR)        # not picklable with a TypeError: copy() takes its deepcopy fallback
        _ROOTS.append(c)
        return c
    if int(x[1]) >= 1000:
        # shared reference stream (pure operations only): containers with the same tag >= 1000 and the same content are ONE
        # object referenced several times
        key = ("container", sx.show(x))
        if key in _DURPOOL:
            return _DURPOOL[key]
    kids = [build(k) for k in x[3:]]
    if int(x[1]) >= 1000:
        r = (S if x[0] == "S" else P)(kids, tag=mk_tag(int(x[1])), tempo=mk_tempo(int(x[2])))
        _DURPOOL[("container", sx.show(x))] = r
        return r
    if x[0] == "P" and len(kids) % 4 == 3:
        r = Staff("a staff", kids, tag=mk_tag(int(x[1])), tempo=mk_tempo(int(x[2])))
        _ROOTS.append(r)
        return r
    if x[0] == "S" and len(kids) % 4 == 2:
        r = Coloured(kids, tag=mk_tag(int(x[1])), tempo=mk_tempo(int(x[2])), colour=["red"])
        _ROOTS.append(r)
        return r
    if x[0] == "S" and len(kids) % 4 == 3:
        # every fourth sequence (by its number of children) is a user subclass whose constructor takes a title first and
        # which therefore overrides the documented hook `empty_copy`
        r = Section("a section", kids, tag=mk_tag(int(x[1])), tempo=mk_tempo(int(x[2])))
        _ROOTS.append(r)
        return r
    cls = S if x[0] == "S" else P
    r = cls(kids, tag=mk_tag(int(x[1])), tempo=mk_tempo(int(x[2])))
    _ROOTS.append(r)
    return r


def snap(e):
    if isinstance(e, C):
        return ["L", ticks(e.duration), getattr(e, "name", -1)]
    k = "S" if isinstance(e, S) else "P"
    return [k, rd_tag(e.tag), rd_tempo(e)] + [snap(c) for c in e]


def deep(e):
    """derived time data of every container, DFS order (same rule as driver.ml)"""
    if isinstance(e, C):
        return []
    if isinstance(e, S):
        st = [ticks(x) for x in e.absolute_time_tuple]
        fl = [round(x * TICK) for x in e.absolute_time_in_floats_tuple]
        d = ticks(e.duration)
        q = sorted(set([y for s_ in st for y in (s_ - 1, s_, s_ + 1)] + [-1, d - 1, d, d + 1]))
        idx = []
        for x in q:
            try:
                i = e.get_event_index_at(T(x))
                evx = e.get_event_at(T(x))
            except Exception as exc:  # noqa: a lookup that raises is an observation, not a harness failure
                idx.append("raised-" + type(exc).__name__)
                continue
            if (i is None) != (evx is None) or (i is not None and evx is not e[i]):
                idx.append("event-at-differs")
            else:
                idx.append("none" if i is None else i)
        node = ["s", d, st if fl == st else ["floats-differ"] + fl,
                [[ticks(r.start), ticks(r.end)] for r in e.start_and_end_time_per_event], idx]
    else:
        node = ["p", ticks(e.duration)]
    out = [node]
    for c in e:
        out += deep(c)
    return out


def unshare(e, seen=None):
    """Histories only: squash_in / slide_in on a Concurrence insert the same object into every
    voice.  The tree-as-value model has no shared references (hypothesis NoSharing), so later
    occurrences of an object are replaced by copies before the next edit; first occurrences stay live."""
    if seen is None:
        seen = set()
    if isinstance(e, C):
        return
    for i, c in enumerate(e):
        if id(c) in seen:
            c = c.copy()
            list.__setitem__(e, i, c)
        seen.add(id(c))
        unshare(c, seen)


def err(exc):
    return ["err", type(exc).__name__]


def objects_of(e, acc=None):
    """ids of the mutable objects of an event graph: events and the Duration objects of leaves"""
    if acc is None:
        acc = {}
    acc[id(e)] = e
    tp = e.__dict__.get("_tempo", None)          # the tempo object of the node (None = never set: the default is made afresh)
    if tp is not None:
        acc[id(tp)] = tp
    if isinstance(e, C):
        d = e.__dict__.get("_duration", None)
        if d is not None:
            acc[id(d)] = d
        m = e.__dict__.get("marks", None)
        if m is not None:
            acc[id(m)] = m
    else:
        col = e.__dict__.get("colour", None)
        if col is not None:
            acc[id(col)] = col
        for c in e:
            objects_of(c, acc)
    return acc


def aliased(result, source):
    """a pure operation returns new events: no event or Duration object of the result may be one of the receiver's
    (otherwise a later in-place edit of either silently changes the other).  [] when independent."""
    src = objects_of(source)
    res = {}
    for r in (result if isinstance(result, (list, tuple)) and not isinstance(result, (S, P)) else [result]):
        objects_of(r, res)
    n = len(set(src) & set(res))
    if not n:
        # the parts among each other: two parts must not hold one object either
        rs = result if isinstance(result, (list, tuple)) and not isinstance(result, (S, P)) else []
        if any((isinstance(o, C) and getattr(o, "name", 0) >= 1000) or
               (isinstance(o, (S, P)) and isinstance(o.tag, str) and o.tag[1:].isdigit() and int(o.tag[1:]) >= 1000) for o in src.values()):
            rs = []         # shared-reference stream: the receiver itself holds one leaf / container at several positions, so may its copy
        seen, twice = {}, 0
        for k, r in enumerate(rs):
            for i, o in objects_of(r).items():
                if isinstance(o, cp.abc.Duration):
                    continue        # leaves may share a pooled Duration object in the receiver already (and so in its copy)
                if seen.setdefault(i, k) != k:
                    twice += 1
        return [["aliased-with-receiver", twice, "parts-share-objects-with-each-other", []]] if twice else []
    # demonstrate: double every leaf of the receiver in place and look at the returned value again
    rs = result if isinstance(result, (list, tuple)) and not isinstance(result, (S, P)) else [result]
    before = [snap(r) for r in rs]
    leaves = [o for o in src.values() if isinstance(o, C)]
    saved = [o._duration for o in leaves]
    for o in leaves:
        o.duration = o.duration * 2 + 1
    after = [snap(r) for r in rs]
    for o, d in zip(leaves, saved):
        o._duration = d
    return [["aliased-with-receiver", n, "result-changes-when-receiver-is-edited" if after != before else "latent", after]]


def keep_of(c):
    if c[0] == "durgt":
        n = int(c[1])
        return lambda e: ticks(e.duration) > n
    if c[0] == "labmod":
        k, r = int(c[1]), int(c[2])
        return lambda e: (getattr(e, "name", -1) % k == r) if isinstance(e, C) else True
    if c[0] == "leafonly":
        return lambda e: isinstance(e, C)
    raise ValueError(c)


def tie_of(c):
    if c[0] == "samekey":
        k = int(c[1])
        return lambda a, b: (
            isinstance(a, C) and isinstance(b, C) and getattr(a, "name", -1) % k == getattr(b, "name", -1) % k
        )
    if c[0] == "always":
        return lambda a, b: True
    if c[0] == "samekind":
        return lambda a, b: isinstance(a, C) == isinstance(b, C)
    if c[0] == "samedur":
        return lambda a, b: a.duration == b.duration
    raise ValueError(c)


def T(n):
    """a time argument in one of the kinds of Duration.Type: float (half of the values), Fraction, a ratio string,
    a RatioDuration or a DirectDuration object - chosen by the value itself, so that a case always replays the same"""
    n = int(n)
    k = (abs(n) // 3) % 10
    if os.environ.get("VERIF_FLOAT_ARGS") == "1":
        return n / TICK
    if n < 0:
        return Fraction(n, TICK) if k == 5 else f"{n}/{TICK}" if k == 6 else n / TICK
    if n % TICK == 0 and k < 3:
        return n // TICK                    # whole beats as a plain int
    if k < 5:
        return n / TICK
    if k == 5:
        return Fraction(n, TICK)
    if k == 6:
        return f"{n}/{TICK}"
    if k == 7:
        return cp.RatioDuration(Fraction(n, TICK))
    if k == 8:
        return cp.DirectDuration(n / TICK)
    return Fraction(n, TICK)


def coloured_ok(e):
    """every Coloured sequence below e still carries its side attribute"""
    if isinstance(e, C):
        return True
    if isinstance(e, Coloured) and getattr(e, "colour", None) != ["red"]:
        return False
    return all(coloured_ok(c) for c in e)


KEEPS_VOICES = ("cut_out", "cut_off", "squash_in", "slide_in", "extend_until")      # (split_child_at wraps a leaf voice in a sequence)
KEEPS_CLASS = KEEPS_VOICES + ("split_child_at", "remove_by", "tie_by", "tie_all", "slice", "pyslice", "mul", "gadd", "add", "seti", "deli", "set_tag", "del_tag")


def apply_op(t, op):
    """Returns (result event, extra observations)."""
    voices = [id(v) for v in t] if isinstance(t, P) else None
    r = apply_op1(t, op)
    _ROOTS.append(r[0])
    if op[0] in IN_PLACE and r[0] is not t:
        # the documented contract of the editing methods: they change the receiver and return it
        r = (r[0], r[1] + [["result-is-not-the-receiver", snap(t)]])
    res = r[0]
    if op[0] in KEEPS_VOICES and voices is not None and isinstance(res, P) and [id(v) for v in res] != voices:
        # an in-place edit of a simultaneity edits its voices in place: whoever holds a voice sees the edit
        r = (res, r[1] + [["result-is-not-the-receiver", ["voices-were-replaced-by-other-objects"]]])
    if op[0] in KEEPS_CLASS and isinstance(res, (S, P)) and isinstance(t, (S, P)) and type(res) is not type(t):
        r = (res, r[1] + [["result-is-not-the-receiver", ["class-" + type(res).__name__ + "-instead-of-" + type(t).__name__]]])
    if isinstance(res, (S, P)) and not coloured_ok(res):
        r = (res, r[1] + [["result-is-not-the-receiver", ["a-declared-side-attribute-was-lost"]]])
    return r


IN_PLACE = ("cut_out", "cut_off", "split_child_at", "squash_in", "slide_in", "extend_until", "remove_by", "tie_by", "tie_all",
            "set_tag", "del_tag", "set_dur", "child", "seti", "deli")


def apply_op1(t, op):
    k = op[0]
    if k == "child":
        i = int(op[1])
        if i < 0 or i >= len(t):
            raise IndexError(i)
        r, _ = apply_op1(t[i], op[2])
        if r is not t[i]:
            t[i] = r
        return t, []
    if k == "set_dur":
        if not isinstance(t, C):
            raise AttributeError("set_dur on container")
        t.duration = T(op[1])
        return t, []
    if k == "cut_out":
        return t.cut_out(T(op[1]), T(op[2])), []
    if k == "cut_off":
        return t.cut_off(T(op[1]), T(op[2])), []
    if k == "split_child_at":
        return t.split_child_at(T(op[1])), []
    if k == "squash_in":
        return t.squash_in(T(op[1]), build(op[2])), []
    if k == "slide_in":
        return t.slide_in(T(op[1]), build(op[2])), []
    if k == "extend_until":
        prolong = op[1] in ("1", "true")
        if op[2] == "none":
            return t.extend_until(), []
        if prolong:
            # the maker of the rest is an optional argument: mostly not passed; otherwise a callable that makes the same
            # plain rest but is not a function with a name (a functools.partial, an object with __call__)
            v = (int(op[2]) // 11) % 4
            kw = {} if v < 2 else {"duration_to_white_space": functools.partial(ce.Chronon) if v == 2 else RestMaker()}
            r = t.extend_until(T(op[2]), **kw)           # prolong_chronon=True is the documented default: not passed
            first = snap(r)
            again = r.extend_until(T(op[2]), **kw)       # "doing it twice equals doing it once": the same object, called again
            extra = [] if (again is r and snap(again) == first) else [["second-call-differs", snap(again)]]
            return r, extra
        return t.extend_until(T(op[2]), prolong_chronon=False), []
    if k == "sequentialize":
        r = t.sequentialize()
        return r, [["recv", snap(t)]] + aliased(r, t)
    if k == "concat":
        o = build(op[2])
        r = t.concatenate_by_tag(o) if op[1] in ("1", "true") else t.concatenate_by_index(o)
        return r, [["other", snap(o)]]
    if k == "add":
        o = build(op[1])
        r = t + o
        return r, [["recv", snap(t)], ["other", snap(o)]]
    if k == "remove_by":
        extra = []
        if isinstance(t, S) and len(t) and all(isinstance(c, C) for c in t):
            # "every container": the same pruning on the library's other sequence classes (an envelope, a tempo trajectory -
            # they override list access), holding copies of the same leaves
            want = [[ticks(c.duration), getattr(c, "name", -1)] for c in t if keep_of(op[1])(c)]
            for cls in (ce.Envelope, cp.FlexTempo):
                kids = [c.copy() for c in t]
                for c in kids:
                    c.value, c.curve_shape = 1, 0
                o = cls(kids)
                r = o.remove_by(keep_of(op[1]))
                got = [[ticks(c.duration), getattr(c, "name", -1)] for c in o]
                if got != want or r is not o:
                    extra.append(["another-container-class-prunes-differently", cls.__name__, got, want])
        return t.remove_by(keep_of(op[1])), extra
    if k == "tie_by":
        return t.tie_by(tie_of(op[1]), event_type_to_examine=C, event_to_remove=op[2] in ("1", "true")), []
    if k == "tie_all":
        # no restriction to leaves: neighbouring containers are merged too (the survivor's duration is SET to the total)
        return t.tie_by(tie_of(op[1]), event_to_remove=op[2] in ("1", "true")), []
    if k == "geti":
        r = t[int(op[1])]
        return r, [["recv", snap(t)]]
    if k == "seti":
        t[int(op[1])] = build(op[2])
        return t, []
    if k == "deli":
        del t[int(op[1])]
        return t, []
    if k == "pyslice":
        a, b = (None if x == "none" else int(x) for x in op[1:3])
        r = t[a:b]
        return r, [["recv", snap(t)]]
    if k == "mul":
        n = int(op[1])
        r = (n * t) if n % 2 else (t * n)            # the repetition written either way round
        extra = [["recv", snap(t)]]
        if len(t) and any(r[i] is not t[i % len(t)] for i in range(len(r))):
            extra.append(["repetition-does-not-repeat-the-children-themselves"])
        return r, extra
    if k == "gadd":
        o = build(op[1])
        r = t + o
        return r, [["recv", snap(t)], ["other", snap(o)]]
    if k == "set_tag":
        t[mk_tag(int(op[1]))] = build(op[2])
        return t, []
    if k == "del_tag":
        del t[mk_tag(int(op[1]))]
        return t, []
    if k == "slice":
        r = t[int(op[1]):int(op[2])]
        return r, [["recv", snap(t)]]
    raise ValueError(f"unknown op {op}")


_ROOTS = []


def scorch():
    """edit every Duration object reachable from the events of the warm-up run IN PLACE (and the Duration objects the
    library hands out for the same plain numbers): whatever the library keeps and re-uses across calls - a parser
    cache, a pooled rest, a memo on an object that survives - is now wrong, and the real run below will show it"""
    seen = set()

    def walk(e):
        if id(e) in seen:
            return
        seen.add(id(e))
        if isinstance(e, C):
            d = e.__dict__.get("_duration")
            if d is not None and id(d) not in seen:
                seen.add(id(d))
                try:
                    v = float(d.beat_count)
                    for form in (v, int(v)) if v == int(v) else (v,):
                        x = cp.abc.Duration.from_any(form)
                        if id(x) not in seen:
                            seen.add(id(x))
                            x.add(1).multiply(3)
                    d.add(1).multiply(3)
                except Exception:  # noqa
                    pass
        elif isinstance(e, (S, P)):
            for c in e:
                walk(c)
            try:
                walk(e.tempo)
            except Exception:  # noqa
                pass

    for r in _ROOTS:
        for x in (r if isinstance(r, (list, tuple)) and not isinstance(r, (S, P)) else [r]):
            walk(x)
    _ROOTS.clear()


def run(case):
    """every case runs twice in this process: a warm-up whose objects are scorched afterwards, then the real run on fresh
    objects (self-contained and replayable: state that leaks from one call into the next shows within one case)"""
    if os.environ.get("VERIF_NO_WARMUP") != "1":
        try:
            run1(case)
        except Exception:  # noqa
            pass
        scorch()
    _ROOTS.clear()
    return run1(case)


def run1(case):
    set_resolution(case)
    _DURPOOL.clear()
    k = case[0]
    if k == "dur":
        return ["ok", ticks(build(case[1]).duration)]
    if k == "seqinfo":
        t = build(case[1])
        out = ["ok", ["dur", ticks(t.duration)]]
        out.append(["starts"] + [ticks(x) for x in t.absolute_time_tuple])
        # the float view has to agree with the Duration view
        fl = [round(x * TICK) for x in t.absolute_time_in_floats_tuple]
        if fl != out[-1][1:]:
            out.append(["floats-differ"] + fl)
        out.append(["ranges"] + [[ticks(r.start), ticks(r.end)] for r in t.start_and_end_time_per_event])
        idx = []
        for x in case[2:]:
            i = t.get_event_index_at(T(x))
            ev = t.get_event_at(T(x))
            if (i is None) != (ev is None) or (i is not None and ev is not t[i]):
                idx.append("event-at-differs")
            else:
                idx.append("none" if i is None else i)
        out.append(["index"] + idx)
        return out
    if k == "split_at":
        t = build(case[1])
        before = snap(t)
        ign = case[2] in ("1", "true")
        try:
            if ign:
                parts = t.split_at(*[T(x) for x in case[3:]], ignore_invalid_split_point=True)
            else:
                parts = t.split_at(*[T(x) for x in case[3:]])     # False is the documented default: not passed
        except Exception as e:  # noqa
            return err(e)
        _ROOTS.append(parts)
        out = ["ok", ["parts"] + [snap(p) for p in parts]]
        if snap(t) != before:
            out.append(["recv-changed", snap(t)])
        if isinstance(t, (S, P)):
            # the parts are events of the receiver's class and carry its declared side attributes
            if any(type(p) is not type(t) for p in parts):
                out.append(["result-is-not-the-receiver", ["parts-of-class-" + "-".join(sorted({type(p).__name__ for p in parts})) + "-instead-of-" + type(t).__name__]])
            elif not all(coloured_ok(p) for p in parts):
                out.append(["result-is-not-the-receiver", ["a-declared-side-attribute-was-lost"]])
        return out + aliased(parts, t)
    if k == "get_tag":
        t = build(case[1])
        try:
            return ["ok", snap(t[mk_tag(int(case[2]))])]
        except Exception as e:  # noqa
            return err(e)
    if k == "op":
        t = build(case[1])
        try:
            r, extra = apply_op(t, case[2])
        except Exception as e:  # noqa
            return err(e)
        return ["ok", snap(r)] + extra
    if k == "hist":
        t = build(case[1])
        out = ["hist"]
        for op in case[2:]:
            try:
                t, _ = apply_op(t, op)
                unshare(t)
            except Exception as e:  # noqa
                out.append(err(e))
                break
            out.append(["ok", snap(t)])
        return out
    if k == "falsyleaf":
        # finding F15: a leaf voice of a user class that is falsy (a note class whose rests have no pitches: __len__ == 0)
        class Rest(C):
            def __len__(self):
                return 0
        p = P([Rest(2), S([C(1), C(1)])])
        parts = p.split_at(1)
        return ["ok", [len(x) for x in parts], [[type(v).__name__ for v in x] for x in parts]]
    if k == "chist":
        # a history of tag / index operations on ONE container object
        t = build(case[1])
        out = ["chist"]
        for op in case[2:]:
            try:
                if op[0] == "get_tag":
                    out.append(["ok", snap(t[mk_tag(int(op[1]))])])
                else:
                    r, _ = apply_op(t, op)
                    if r is not t:
                        out.append(["ok", snap(r), ["result-is-not-the-receiver", snap(t)]])
                        t = r
                    else:
                        out.append(["ok", snap(t)])
            except Exception as e:  # noqa
                out.append(err(e))
        return out
    if k == "c01":
        t = build(case[1])
        pre = ["pre"] + deep(t)
        for op in case[2:]:
            try:
                t, _ = apply_op(t, op)
                unshare(t)
            except Exception as e:  # noqa
                return ["c01", pre, err(e)]
        return ["c01", pre, ["post"] + deep(t), snap(t)]
    raise ValueError(f"unknown case {case}")


def main():
    for line in sys.stdin:
        line = line.strip()
        if not line:
            print()
            continue
        try:
            print(sx.show(run(sx.parse(line))))
        except Exception as e:  # harness-level failure: never silently dropped
            print(sx.show(["runner-error", type(e).__name__, str(e).replace("(", "[").replace(")", "]").replace(" ", "_")[:200]]))
        sys.stdout.flush()


if __name__ == "__main__":
    main()
