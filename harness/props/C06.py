"""C06 — slide_in inserts without overwriting: later content shifts by the inserted length."""
from props.m1common import *  # noqa: F401,F403
from props.m1common import hist_compare, hist_oracle, hist_times, g, sp, sx, rng_for, is_err, compare_result, shrink_tree
from props import C05 as _c5

PID = "C06"
KERNELS = ['K_abstf', 'K_split_child_at', 'K_split_at', 'K_slide_in', 'K_sim_handlers']   # translated from /repo on every run, tied to the model by coq/Gen/<name>_eq.v
RUNNER = "impl_m1.py"
VM_CROSSCHECK = True
N = {"quick": 2000, "thorough": 80000}
LEVEL_RULE = ("(10 % of the sequence cases are histories of 2-3 further insertions into the same object, every step judged like a single call on the state left behind) receivers and inserted events as C05 (sequences with nested sequences / simultaneities, simultaneities of "
              "containers with unequal voices; inserted leaf / sequence / simultaneity of length 0 .. 6 units); start drawn from child "
              "boundaries +-1 tick, leaf interiors, 0 and the duration; plus a malformed stream (about 14 %: negative start, start "
              "beyond the duration, simultaneities with a leaf voice) and a shared-reference stream (15 %: one leaf object sits at several positions of the receiver). non-trivial = the call succeeds and start lies strictly inside a "
              "leaf of a nested (depth >= 2) child, or strictly inside a leaf with content on both sides of it")
ASSUMPTIONS = ASSUMPTIONS_M1
TRUSTED = TRUSTED_M1
OP = "slide_in"
ERR_LEAF = "ImpossibleToSlideInError"


def gen1(seed, index):
    case = _c5.gen_case(PID, OP, seed, index)
    rng = rng_for(PID + "-share", seed, index)
    if rng.random() < 0.15:
        # shared reference stream: one leaf object sits at several positions of the receiver (built with [c] * n, or the
        # same marker slid in twice).  slide_in divides a copy and re-joins, so the tree-as-value model still applies.
        from props import C02 as _c2
        _c2.share_leaves(rng, case[1])
    return case


def gen(seed, index):
    case = gen1(seed, index)
    rng = rng_for(PID + "-hist", seed, index)
    if rng.random() < 0.1 and case[1][0] == "S" and case[0] == "op":
        # history stream: 2-3 further events put into the same sequence object (each with fresh labels)
        unit = max(1, g.dur(case[1]) // 8)
        d = g.dur(case[1])
        ops = []
        for k in range(rng.randint(2, 3)):
            n = rng.choice([0, 1, 1, 2, 3]) * unit
            new = ["L", n, 5000 + k] if rng.random() < 0.7 else ["S", 0, 0, ["L", n, 5000 + k], ["L", unit, 5100 + k]]
            start = hist_times(rng, d, max(1, unit // 2))[0]
            ops.append([OP, min(start, d), new])
            d = d + g.dur(new)
        return ["hist", case[1]] + ops
    return case


def compare(case, mo, io):
    if case[0] == "hist":
        return hist_compare(case, mo, io)
    return compare_result(mo, io)


def check_seq(t, r, start, new):
    d = sp.dur(new)
    if sp.shape(r) != sp.shape(t):
        return "kind / tag / tempo of the event changed"
    if sp.dur(r) != sp.dur(t) + d:
        return f"duration {sp.dur(r)} != old duration + d = {sp.dur(t) + d}"
    if not _c5.child_at(r, new, start):
        return "the new event is not a child beginning exactly at start"
    bps = sp.breakpoints(t) | {b + d for b in sp.breakpoints(t)} | sp.breakpoints(r) | sp.breakpoints(new, start) | {start, start + d}
    for x in sp.probes(bps):
        if x < start:
            exp = sp.at(t, x)
        elif x < start + d:
            exp = sp.at(new, x - start)
        else:
            exp = sp.at(t, x - d)
        if sp.at(r, x) != exp:
            return (f"at time {x}: active {sp.at(r, x)}, expected {exp} (old content before start, the new event in "
                    "[start, start+d), old content shifted by d afterwards)")
    # a leaf under start is divided, not shortened; nothing lost, duplicated or reordered
    newl = {l for (_, _, l, _) in sp.flat(new)}
    got = sorted((l, a, b) for (a, b, l, _) in sp.flat(r) if a < b and l not in newl)
    exp = []
    for (a, b, l, _) in sp.flat(t):
        if a >= b:
            continue
        if a < start < b:
            exp += [(l, a, start), (l, start + d, b + d)]
        elif b <= start:
            exp.append((l, a, b))
        else:
            exp.append((l, a + d, b + d))
    if got != sorted(exp):
        return "the old non-zero leaves are not the originals divided at start with the later ones shifted by d"
    # zero-length leaves inside sequences keep their (shifted) time; one sitting exactly at start may stay or move
    zr = [z for z in _c5.zero_leaves(r, seq_only=True) if z[1] not in newl]
    zt = _c5.zero_leaves(t, seq_only=True)
    if len(zr) != len(zt):
        return "zero-length leaves inside sequences were lost or duplicated"
    for (a, l) in zt:
        want = {(a, l)} if a < start else {(a + d, l)} if a > start else {(a, l), (a + d, l)}
        if not want & set(zr):
            return f"zero-length leaf {l} at time {a} is not at its (shifted) time afterwards"
    # a zero-length DIRECT child that starts at an interior `start` belongs to "everything from start onwards":
    # it is moved later by d (only start == duration leaves the order unconstrained)
    if 0 < start < sp.dur(t) and d > 0:
        o = 0
        for c in sp.kids(t):
            if o == start and c[0] == "L" and c[1] == 0:
                if (start + d, c[2]) not in set(zr):
                    return (f"zero-length child {c[2]} sitting at start={start} was not moved later by d={d} "
                            "(everything from start onwards has to move)")
            o += sp.dur(c)
    # "content and order intact": no container disappears or loses its kind / tag / tempo. Containers that start before
    # `start` and end behind it are divided (their kind / tag / tempo then occurs on both halves), all others occur as before
    have = metas(r, None)
    for m, n in metas(t, start).items():
        if have.get(m, 0) < n:
            return (f"{n} container(s) of kind / tag / tempo {m} below the receiver before, {have.get(m, 0)} afterwards "
                    "(nested containers - empty ones included - keep their place, kind, tag and tempo; a divided one keeps them on both halves)")
    return None


def metas(t, start, off=0, top=True, in_divided_sim=False):
    """multiset of (kind, tag, tempo) of the containers strictly below the root; with `start` given, zero-length containers
    inside a simultaneity that is divided at `start` are left out (dividing a simultaneity drops voices without a part)"""
    from collections import Counter
    c = Counter()
    if t[0] == "L":
        return c
    leafless = sp.dur(t) == 0       # no leaf, or zero-length leaves only
    if not top and not (leafless and in_divided_sim):
        c[(t[0], t[1], t[2])] += 1
    divided = start is not None and t[0] == "P" and not top and off < start < off + sp.dur(t)
    o = off
    for k in sp.kids(t):
        c.update(metas(k, start, o, False, in_divided_sim or divided))
        if t[0] == "S":
            o += sp.dur(k)
    return c


def oracle(case, io, mo):
    if case[0] == "hist":
        return hist_oracle(oracle, case, io)
    return _c5.oracle_for(case, io, ERR_LEAF, check_seq)


def nontrivial(case, io):
    if case[0] == "hist":
        return io is not None and len(io) >= 3 and not any(is_err(x) for x in io[1:])
    if io is None or is_err(io):
        return False
    t = case[1]
    start = int(case[2][1])
    iv = [(a, b) for (a, b) in g.leaf_intervals(t) if a < b]
    inside = [(a, b) for (a, b) in iv if a < start < b]
    if not inside:
        return False
    return g.depth(t) >= 3 or (any(b <= start for (a, b) in iv) and any(a >= start for (a, b) in iv))


def stats(results):
    from collections import Counter
    c = Counter()
    for r in results:
        io = r.get("io")
        case = r["case"]
        if case[0] == "hist":
            c["history:steps=%d" % (len(case) - 2)] += 1
            continue
        c["ok" if io and io[0] == "ok" else "err:" + (io[1] if io and len(io) > 1 else "?")] += 1
        c["root:" + case[1][0]] += 1
        c["new:" + case[2][2][0]] += 1
        dt, s = g.dur(case[1]), int(case[2][1])
        c["d=0" if g.dur(case[2][2]) == 0 else "d>0"] += 1
        c["start:" + ("0" if s == 0 else "end" if s == dt else "neg" if s < 0 else "beyond" if s > dt else "inner")] += 1
    return dict(sorted(c.items()))


shrink = _c5.shrink
neighbours = _c5.neighbours
