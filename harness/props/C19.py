"""C19 — children are addressed and pruned faithfully: tags, slices, sums, remove_by, tie_by."""
from props.m1common import *  # noqa: F401,F403
from props.m1common import g, sp, sx, rng_for, is_err, compare_result, shrink_tree

PID = "C19"
KERNELS = ['K_remove_by', 'K_tie_step']   # translated from /repo on every run, tied to the model by coq/Gen/<name>_eq.v
RUNNER = "impl_m1.py"
N = {"quick": 2100, "thorough": 70000}
LEVEL_RULE = ("(12 % of the tie cases are UNRESTRICTED ties on sequences of non-empty sequences - whole containers are merged and the survivor rescaled to the run total; model Model/TieAll.v, theorems Proofs/TieAllP.v; leaf lengths compared within one tick per merge step because of half-tick rounding ties) seven operations in equal shares on random sequences / simultaneities with 0-6 children (leaves and nested containers), "
              "tags of the children drawn from {none, 1, 2, 3} with repeats and missing ones, tempi from three values: read / replace / "
              "delete by tag (query tags 1-3, about 30 % absent -> KeyError), slices i0:i1 with 0 <= i0, i1 <= len + 2 (also i0 > i1), "
              "sequence + container (equal tempo), remove_by with duration / label-class / leaf-only conditions, tie_by with key = "
              "label mod k (k in 1..3, labels drawn from 1..12 so that runs of 1-6 leaves occur) keeping the first or the last leaf, on "
              "flat and nested sequences, plus a small stream (about 12 % of the tie cases) with simultaneities (known limitation F4: "
              "the duration clause is not required there). non-trivial = the call succeeds and: the tag is carried by >= 2 children or "
              "not by the first child; the slice is non-empty and proper; both summands non-empty; remove_by removes and keeps at least "
              "one child; tie_by merges at least one run")
ASSUMPTIONS = ASSUMPTIONS_M1
TRUSTED = TRUSTED_M1
KINDS = ["get_tag", "set_tag", "del_tag", "slice", "add", "remove_by", "tie_by", "listops"]


# ------------------------------------------------------------------------------------------------ generation
def container(rng, G, kind=None):
    n = rng.choice([0, 1, 2, 3, 3, 4, 5, 6])
    kids = []
    for _ in range(n):
        if rng.random() < 0.3:
            kids.append(G.leaf())
        else:
            c = G.tree(depth=rng.choice([1, 1, 2]), kind=rng.choice(["S", "S", "P"]))
            c[1] = rng.choice([0, 1, 1, 2, 2, 3])
            kids.append(c)
    tag, tempo = G.meta()
    return [kind or rng.choice(["S", "S", "P"]), tag, tempo] + kids


def tie_tree(rng, G, depth, sim):
    kids = []
    for _ in range(rng.choice([0, 1, 2, 3, 4, 5, 6, 7])):
        if depth == 0 or rng.random() < 0.78:
            d = 0 if rng.random() < G.zero_p / 2 else rng.randint(1, 4) * G.unit
            kids.append(["L", d, rng.randint(1, 12)])
        else:
            kids.append(tie_tree(rng, G, depth - 1, sim))
    tag, tempo = G.meta()
    return ["P" if (sim and rng.random() < 0.5) else "S", tag, tempo] + kids


def gen(seed, index):
    rng = rng_for(PID, seed, index)
    k = KINDS[index % 8] if rng.random() < 0.9 else rng.choice(KINDS)
    G = g.G(rng, tags=True, tempi=True)
    if k == "listops":
        # integer get / set / delete (negative and out-of-range indices), slices with open / negative bounds, repetition,
        # and the generic sum (simultaneity receiver; sequences have their own sum = kind "add")
        t = container(rng, G)
        n = len(t) - 3
        kk = rng.choice(["geti", "seti", "deli", "pyslice", "pyslice", "mul", "mul", "gadd"])
        if kk in ("geti", "seti", "deli"):
            i = rng.choice([0, -1, n - 1, -n, n, -n - 1, rng.randint(-n - 2, n + 2)])
            return ["op", t, [kk, i] + ([G.tree(depth=rng.choice([0, 1]))] if kk == "seti" else [])]
        if kk in ("pyslice", "mul") and rng.random() < 0.3:
            t[2] = rng.choice([7, 8])        # the receiver carries a tempo trajectory (7) or a WesternTempo with a reference (8)
        if kk == "pyslice":
            def bound():
                return rng.choice(["none", 0, 1, -1, -2, n, n + 3, -n - 3, rng.randint(-n - 1, n + 1)])
            return ["op", t, ["pyslice", bound(), bound()]]
        if kk == "mul":
            return ["op", t, ["mul", rng.choice([0, 1, 2, 2, 3, -1])]]
        t[0] = "P"
        o = container(rng, G, kind=rng.choice(["P", "P", "S"]))
        return ["op", t, ["gadd", o]]
    if k in ("get_tag", "set_tag", "del_tag") and rng.random() < 0.2:
        # a history of 3-6 tag / index operations on ONE container (a child that carries a tag may be put in front of
        # another one carrying the same tag: "the first child" is decided anew by every operation)
        t = container(rng, G)
        ops = []
        for _ in range(rng.randint(3, 6)):
            n = max(1, len(t) - 3)
            kk = rng.choice(["get_tag", "get_tag", "set_tag", "del_tag", "seti", "seti", "deli"])
            tg = rng.choice([1, 2, 3])
            if kk == "get_tag":
                ops.append(["get_tag", tg])
            elif kk == "del_tag":
                ops.append(["del_tag", tg])
            elif kk == "set_tag":
                ops.append(["set_tag", tg, G.tree(depth=1, kind="S")])
            elif kk == "seti":
                ops.append(["seti", rng.choice([0, 0, -1, rng.randint(-n, n)]), G.tree(depth=1, kind="S")])
            else:
                ops.append(["deli", rng.choice([0, -1, rng.randint(-n, n)])])
        tagged = [(i, int(c[1])) for i, c in enumerate(t[3:]) if c[0] != "L" and int(c[1]) != 0]
        later = [(i, tg) for (i, tg) in tagged if i >= 1 and all(tg2 != tg for (i2, tg2) in tagged if i2 < i)]
        if later and rng.random() < 0.6:
            # the pattern that asks most of "first": look a tag up, put a child with the same tag IN FRONT of the one that
            # was found (or delete / replace the found one), look it up again
            j, tg = rng.choice(later)
            front = G.tree(depth=1, kind="S")
            front[1] = tg
            ops = [["get_tag", tg], rng.choice([["seti", rng.randrange(j), front], ["seti", rng.randrange(j) - len(t) + 3, front], ["del_tag", tg]]),
                   rng.choice([["get_tag", tg], ["del_tag", tg], ["set_tag", tg, G.tree(depth=0)]]), ["get_tag", tg]]
        return ["chist", t] + ops
    if k in ("get_tag", "set_tag", "del_tag"):
        t = container(rng, G)
        present = sorted({int(c[1]) for c in t[3:] if c[0] != "L" and int(c[1]) != 0})
        tg = rng.choice(present) if present and rng.random() < 0.75 else rng.choice([1, 2, 3])
        if k == "get_tag":
            return ["get_tag", t, tg]
        if k == "set_tag":
            new = G.tree(depth=rng.choice([0, 1, 2]))
            return ["op", t, ["set_tag", tg, new]]
        return ["op", t, ["del_tag", tg]]
    if k == "slice":
        t = container(rng, G)
        n = len(t) - 3
        return ["op", t, ["slice", rng.randint(0, n + 2), rng.randint(0, n + 2)]]
    if k == "add":
        t = container(rng, G, kind="S")
        o = container(rng, G, kind=rng.choice(["S", "S", "S", "S", "P"]))
        o[2] = t[2]       # equal constant tempi: the sum keeps that tempo (different tempi are joined on the time axis: C12)
        return ["op", t, ["add", o]]
    if k == "remove_by":
        t = container(rng, G)
        ds = [g.dur(c) for c in t[3:]] or [0]
        r = rng.random()
        if r < 0.4:
            cond = ["durgt", rng.choice([0, 0, G.unit, rng.choice(ds), max(0, rng.choice(ds) - 1)])]
        elif r < 0.8:
            m = rng.choice([2, 2, 3])
            cond = ["labmod", m, rng.randrange(m)]
        else:
            cond = ["leafonly"]
        return ["op", t, ["remove_by", cond]]
    if rng.random() < 0.12:
        # unrestricted tie on a sequence of non-empty sequences: whole containers are merged, the survivor is rescaled
        # to the run's total (Model/TieAll.v)
        G2 = g.G(rng, unit=rng.choice([2500000000, 10000000000, 3333333333, 5000000000]), zero_p=0.1, max_depth=2, allow_sim=False)
        kids = []
        for _ in range(rng.randint(2, 4)):
            sub = ["S", 0, 0] + [G2.tree(depth=rng.choice([0, 0, 1])) for _ in range(rng.randint(1, 3))]
            kids.append(sub)
        t = ["S", 0, 0] + kids
        if rng.random() < 0.4:
            # one leaf object under two sub-containers of ONE child (across children the merge steps would alias)
            from props import C02 as _c2
            _c2.share_leaves(rng, rng.choice(kids))
        degenerate = rng.random() < 0.12
        for sub in kids:
            if g.dur(sub) == 0:
                sub.append(["L", G2.unit, G2.label()])      # every child of the run has a positive length
        if degenerate:
            # finding F11: the survivor has duration 0 (nested zero-length leaves) or no leaf at all
            surv = rng.choice([["S", 0, 0, ["S", 0, 0, ["L", 0, G2.label()], ["L", 0, G2.label()]]], ["S", 0, 0, ["S", 0, 0, ["S", 0, 0]]]])
            first = rng.choice([0, 1])
            t = ["S", 0, 0] + ([surv] + kids if first else kids + [surv])
            return ["op", t, ["tie_all", ["always"], first]]
        return ["op", t, ["tie_all", ["always"], rng.choice([0, 1])]]
    sim = rng.random() < 0.12
    t = tie_tree(rng, G, rng.choice([0, 1, 1, 2, 3]), sim)
    if not sim:
        t[0] = "S"
    return ["op", t, ["tie_by", ["samekey", rng.choice([1, 2, 2, 3])], rng.choice([0, 1])]]


def compare(case, mo, io):
    if case[0] == "chist":
        if len(mo) != len(io):
            return f"history: model answers {len(mo) - 1} steps, implementation {len(io) - 1}"
        for k_, (a, b) in enumerate(zip(mo[1:], io[1:])):
            d = compare_result(a, b)
            if d:
                return f"step {k_} {sx.show(case[2 + k_])[:80]}: {d}"
        return None
    return compare_single(case, mo, io)


def compare_single(case, mo, io):
    if case[0] == "op" and case[2][0] == "tie_all":
        # Model/TieAll.v rounds d * new / old half-to-even on the exact rational; the code evaluates new * (d / old) in
        # binary64, so an exact half-tick tie may fall the other way: leaf lengths are compared within one tick per leaf of the input
        if is_err(mo) or is_err(io):
            return None if mo[:2] == io[:2] else f"outcome differs: model {sx.show(mo[:2])} impl {sx.show(io[:2])}"
        a, b = sp.norm(mo[1]), sp.norm(io[1])
        if sp.shape(a) != sp.shape(b) or len(sp.flat(a)) != len(sp.flat(b)):
            return f"unrestricted tie: structure differs: model {sx.show(a)[:160]} impl {sx.show(b)[:160]}"
        tol = max(1, len(sp.flat(sp.norm(case[1]))))     # every leaf of an intermediate survivor may sit on a tie
        for (s1, e1, l1, _), (s2, e2, l2, _) in zip(sp.flat(a), sp.flat(b)):
            if l1 != l2 or abs((e1 - s1) - (e2 - s2)) > tol:
                return f"unrestricted tie: leaf {l1} lasts {e1 - s1} ticks in the model, {e2 - s2} in the implementation"
        return None
    return compare_result(mo, io)


def oracle_tie_all(case, io):
    t = sp.norm(case[1])
    first = case[2][2] in (1, "1", "true")      # event_to_remove=True keeps the first of the run
    if is_err(io):
        return f"unrestricted tie_by raised {io[1]} on a sequence of non-empty sequences"
    r = sp.norm(io[1])
    D = sp.dur(t)
    kids = sp.kids(r)
    if len(kids) != 1:
        return f"tie_by with an always-true condition left {len(kids)} children, one run has one survivor"
    src = sp.kids(t)[0] if first else sp.kids(t)[-1]
    surv = kids[0]
    if sp.dur(src) == 0 and sp.dur(r) != D:
        return (f"[F11] the survivor of the run has duration 0 ({'no leaf at all' if not sp.flat(src) else 'zero-length leaves only'}): "
                f"the container's duration changed from {D} to {sp.dur(r)}")
    if sp.shape(surv) != sp.shape(src):
        return "the surviving child is not the first / last child of the run (structure differs)"
    n = max(1, len(sp.flat(t)))      # every merge step rescales the current survivor and rounds each of its leaves
    if abs(sp.dur(surv) - D) > n:
        return f"the survivor lasts {sp.dur(surv)} ticks, the run's total is {D} (rescaling may round each leaf by half a tick)"
    if abs(sp.dur(r) - D) > n:
        return f"the container's duration changed from {D} to {sp.dur(r)}"
    d0 = sp.dur(src)
    if d0 == 0:
        return None     # a zero-length survivor is filled evenly (the other branch of the duration setter, C16)
    for (a, b, l, _), (a2, b2, l2, _) in zip(sp.flat(src), sp.flat(surv)):
        want = (b - a) * D / d0
        if l != l2 or abs((b2 - a2) - want) > n:
            return f"leaf {l}: {b - a} ticks became {b2 - a2}, rescaling the survivor from {d0} to {D} gives {want:.1f}"
    return None


# ------------------------------------------------------------------------------------------------ expected values
def first_with_tag(t, tg):
    for i, c in enumerate(sp.kids(t)):
        if c[0] != "L" and c[1] == tg:
            return i
    return None


def keeps(cond):
    if cond[0] == "durgt":
        n = int(cond[1])
        return lambda c: sp.dur(c) > n
    if cond[0] == "labmod":
        k, r = int(cond[1]), int(cond[2])
        return lambda c: c[0] != "L" or c[2] % k == r
    if cond[0] == "leafonly":
        return lambda c: c[0] == "L"
    raise ValueError(cond)


def tie(t, k, keep_first):
    """every maximal run of neighbouring leaves with equal label mod k becomes one leaf (run's total duration, label of the
    first / last leaf); containers break runs and are tied inside"""
    if t[0] == "L":
        return t
    out = []
    run = None  # [total, first label, last label, key]
    for c in sp.kids(t):
        if c[0] == "L" and run is not None and run[3] == c[2] % k:
            run[0] += c[1]
            run[2] = c[2]
            continue
        if run is not None:
            out.append(("L", run[0], run[1] if keep_first else run[2]))
            run = None
        if c[0] == "L":
            run = [c[1], c[2], c[2], c[2] % k]
        else:
            out.append(tie(c, k, keep_first))
    if run is not None:
        out.append(("L", run[0], run[1] if keep_first else run[2]))
    return t[:3] + tuple(out)


def extra(io, key):
    for e in io[2:]:
        if e and e[0] == key:
            return sp.norm(e[1])
    return None


def expect_tree(io, exp, what):
    if is_err(io):
        return f"{what}: rejected with {io[1]}"
    r = sp.norm(io[1])
    if r == exp:
        return None
    if sp.shape(r) != sp.shape(exp):
        return f"{what}: kind / tag / tempo {sp.shape(r)}, expected {sp.shape(exp)}"
    return f"{what}: children differ from the expected ones (got {len(sp.kids(r))}, expected {len(sp.kids(exp))})"


def oracle(case, io, mo):
    if case[0] == "chist":
        state = case[1]
        for k_, (op, step) in enumerate(zip(case[2:], io[1:])):
            single = ["get_tag", state, op[1]] if op[0] == "get_tag" else ["op", state, op]
            m = oracle_single(single, step, None)
            if m:
                return f"step {k_} {sx.show(op)[:60]} on the container as the earlier steps left it {sx.show(state)[:160]}: {m}"
            if op[0] != "get_tag" and not is_err(step):
                state = step[1]
        return None
    return oracle_single(case, io, mo)


def oracle_single(case, io, mo):
    from props.m1common import alias_failure as _af
    if case[0] != "hist" and _af(io):
        return _af(io)
    t = sp.norm(case[1])
    if t[0] == "L":
        return None
    if case[0] == "op" and case[2][0] == "tie_all":
        return oracle_tie_all(case, io)
    if case[0] == "get_tag":
        i = first_with_tag(t, int(case[2]))
        if i is None:
            return None if io[:2] == ["err", "KeyError"] else f"absent tag not rejected with KeyError: {sx.show(io[:2])[:100]}"
        return expect_tree(io, sp.kids(t)[i], "e[tag] is not the first child carrying the tag")
    op = case[2]
    k = op[0]
    ks = sp.kids(t)
    if k in ("set_tag", "del_tag"):
        i = first_with_tag(t, int(op[1]))
        if i is None:
            return None if io[:2] == ["err", "KeyError"] else f"absent tag not rejected with KeyError: {sx.show(io[:2])[:100]}"
        mid = (sp.norm(op[2]),) if k == "set_tag" else ()
        return expect_tree(io, t[:3] + ks[:i] + mid + ks[i + 1:], f"{k} on the first child carrying the tag")
    if k in ("geti", "seti", "deli"):
        i, n = int(op[1]), len(ks)
        if not -n <= i < n:
            return None if io[:2] == ["err", "IndexError"] else f"index {i} of {n} children not rejected with IndexError: {sx.show(io[:2])[:100]}"
        j = i % n
        if k == "geti":
            m = expect_tree(io, ks[j], f"e[{i}] is not the child at that position")
            return m or (None if extra(io, "recv") == t else "reading a child modified the receiver")
        mid = (sp.norm(op[2]),) if k == "seti" else ()
        return expect_tree(io, t[:3] + ks[:j] + mid + ks[j + 1:], f"{k} at index {i}")
    if k == "pyslice":
        a, b = (None if x == "none" else int(x) for x in op[1:3])
        m = expect_tree(io, t[:3] + tuple(list(ks)[a:b]), f"slice {a}:{b} (same kind, tag and tempo, the children of that list slice)")
        return m or (None if extra(io, "recv") == t else "slicing modified the receiver")
    if k == "mul":
        n = int(op[1])
        m = expect_tree(io, t[:3] + tuple(list(ks) * n), f"repetition * {n} (same kind, tag and tempo, the children repeated)")
        if m:
            return m
        if any(isinstance(x, list) and x and x[0].startswith("repetition-does-not") for x in io[2:]):
            return "the repetition does not repeat the children themselves (list semantics: references)"
        return None if extra(io, "recv") == t else "the repetition modified the receiver"
    if k == "gadd":
        o = sp.norm(op[1])
        m = expect_tree(io, t[:3] + ks + sp.kids(o), "sum of a simultaneity (same kind, tag and tempo, children of both)")
        if m:
            return m
        if extra(io, "recv") != t:
            return "the sum modified the receiver"
        return None if extra(io, "other") == o else "the sum modified the right operand"
    if k == "slice":
        i0, i1 = int(op[1]), int(op[2])
        m = expect_tree(io, t[:3] + tuple(list(ks)[i0:i1]), f"slice {i0}:{i1}")
        if m:
            return m
        return None if extra(io, "recv") == t else "slicing modified the receiver"
    if k == "add":
        o = sp.norm(op[1])
        m = expect_tree(io, t[:3] + ks + sp.kids(o), "sum")
        if m:
            return m
        if extra(io, "recv") != t:
            return "the sum modified the receiver"
        return None if extra(io, "other") == o else "the sum modified the right operand"
    if k == "remove_by":
        f = keeps(op[1])
        return expect_tree(io, t[:3] + tuple(c for c in ks if f(c)), "remove_by")
    if k == "tie_by":
        if op[1][0] != "samekey":
            return None
        exp = tie(t, int(op[1][1]), op[2] in ("1", "true", 1, True))
        m = expect_tree(io, exp, "tie_by")
        if m:
            return m
        r = sp.norm(io[1])
        if sp.dur(r) != sp.dur(t):
            if sp.has_sim(t):
                # known finding F4 (matched by `known`): neighbours inside a simultaneity are simultaneous, their durations are summed
                return f"[F4] tie_by inside a simultaneity changed the duration from {sp.dur(t)} to {sp.dur(r)}"
            return f"tie_by changed the duration from {sp.dur(t)} to {sp.dur(r)}"
        return None
    return None


# ------------------------------------------------------------------------------------------------ evidence
def nontrivial(case, io):
    if case[0] == "chist":
        return io is not None and sum(1 for x in io[1:] if not is_err(x)) >= 2
    if io is None or is_err(io):
        return False
    t = sp.norm(case[1])
    ks = sp.kids(t)
    if case[0] == "get_tag" or case[2][0] in ("set_tag", "del_tag"):
        tg = int(case[2]) if case[0] == "get_tag" else int(case[2][1])
        hits = [i for i, c in enumerate(ks) if c[0] != "L" and c[1] == tg]
        return len(hits) >= 2 or (len(hits) == 1 and hits[0] > 0)
    op = case[2]
    if op[0] == "slice":
        n = len(list(ks)[int(op[1]):int(op[2])])
        return 0 < n < len(ks)
    if op[0] == "add":
        return len(ks) > 0 and len(op[1]) > 3
    if op[0] == "remove_by":
        n = len(io[1]) - 3
        return 0 < n < len(ks)
    if op[0] == "tie_by":
        return sp.norm(io[1]) != t
    return False


def stats(results):
    from collections import Counter
    c = Counter()
    for r in results:
        io = r.get("io")
        case = r["case"]
        if case[0] == "chist":
            c["tag / index history: steps=%d" % (len(case) - 2)] += 1
            continue
        k = case[0] if case[0] == "get_tag" else case[2][0]
        c["op:" + k] += 1
        c[k + ":" + ("ok" if io and io[0] == "ok" else "err:" + (io[1] if io and len(io) > 1 else "?"))] += 1
        c["root:" + case[1][0]] += 1
        c["children=%d" % min(len(case[1]) - 3, 6)] += 1
        if k == "tie_by" and sp.has_sim(sp.norm(case[1])):
            c["tie_by:with simultaneity (F4 stream)"] += 1
    return dict(sorted(c.items()))


def shrink(case):
    if case[0] == "chist":
        return [case[:i] + case[i + 1:] for i in range(2, len(case)) if len(case) > 3]
    if case[0] == "op" and case[2][0] == "tie_all":
        return []
    if case[0] == "get_tag":
        return [["get_tag", t2, case[2]] for t2 in shrink_tree(case[1])]
    out = [["op", t2, case[2]] for t2 in shrink_tree(case[1])]
    op = case[2]
    if op[0] == "set_tag":
        out += [["op", case[1], ["set_tag", op[1], n2]] for n2 in shrink_tree(op[2])]
    if op[0] == "add":
        out += [["op", case[1], ["add", n2]] for n2 in shrink_tree(op[1])]
    return out


def neighbours(case):
    out = []
    if case[0] == "chist":
        return shrink(case)
    if case[0] == "get_tag":
        out = [["get_tag", case[1], tg] for tg in (1, 2, 3)]
    else:
        op = case[2]
        if op[0] == "slice":
            out = [["op", case[1], ["slice", max(0, int(op[1]) + a), max(0, int(op[2]) + b)]] for a in (-1, 0, 1) for b in (-1, 0, 1)]
        elif op[0] in ("set_tag", "del_tag"):
            out = [["op", case[1], [op[0], tg] + op[2:]] for tg in (1, 2, 3)]
        elif op[0] == "tie_by":
            out = [["op", case[1], ["tie_by", ["samekey", k], rm]] for k in (1, 2, 3) for rm in (0, 1)]
    return out + shrink(case)


def known(f, case, msg, io):
    if f.get("id") == "F11":
        return (msg or "").startswith("[F11]")
    return f.get("id") == "F4" and (msg or "").startswith("[F4]")
