"""Shared pieces of the M1 property modules."""
import random
import sys
import os

sys.path.insert(0, os.path.dirname(os.path.dirname(os.path.abspath(__file__))))
import gen_m1 as g  # noqa: E402
import m1spec as sp  # noqa: E402
import sx  # noqa: E402

ASSUMPTIONS_M1 = ["runner: every case is executed twice in one process - a warm-up whose objects are edited in place afterwards, then the real run (state leaking between calls shows within one case); time arguments are handed over in all kinds of Duration.Type (float, Fraction, ratio string, RatioDuration, DirectDuration)", 
    "NoSharing: every object occurs once in the input tree (the tree-as-value model is not the code otherwise)",
    "durations are multiples of 1e-10 beat below 1e4 beats, so the 10-digit rounding of the implementation is exact integer arithmetic",
    "a raising call is observed only by its error kind (the partially mutated receiver is outside the property)",
    "the Coq theorems are about the Gallina model; the model is tied to /repo by this run's differential correspondence (sampled)",
]
TRUSTED_M1 = ["harness/impl_m1.py (drives the public mutwo API, canonical snapshots)", "harness/m1spec.py (Python transliteration of dur/at/flat used by the oracle)"]


def rng_for(pid, seed, index):
    return random.Random(f"{pid}-{seed}-{index}")


def is_err(o):
    return o and o[0] == "err"


def same_or_flat_equal(mt, it):
    """None if the trees agree structurally; a description otherwise."""
    if mt == it:
        return None
    a, b = sp.norm(mt), sp.norm(it)
    if a == b:
        return None
    if sp.shape(a) != sp.shape(b):
        return f"root differs: model {sp.shape(a)} impl {sp.shape(b)}"
    if sp.flat(a) != sp.flat(b):
        return "timeline differs"
    # same timeline, other nesting / tags / tempi / empty containers: the model is one-to-one with the code, so this is
    # a disagreement too (the properties speak about every level of nesting, about tags and tempi of parts)
    return f"structure differs below the root (nesting, tags, tempi or empty containers): model {sx.show(a)[:160]} impl {sx.show(b)[:160]}"


def compare_result(mo, io):
    """generic comparison of (ok tree)/(ok (parts ..))/(err kind) observations"""
    if is_err(mo) or is_err(io):
        if mo[:2] != io[:2]:
            return f"outcome differs: model {sx.show(mo[:2])} impl {sx.show(io[:2])}"
        return None
    if mo[0] != io[0]:
        return "observation kind differs"
    for x in io[2:]:
        if isinstance(x, list) and x and x[0] == "result-is-not-the-receiver":
            return ("the editing method returned another object than its receiver; the receiver now reads "
                    f"{sx.show(x[1])[:200]} (the model's result is what the receiver has to be afterwards)")
        if isinstance(x, list) and x and x[0] == "another-container-class-prunes-differently":
            return f"remove_by on a {x[1]} holding the same leaves keeps {sx.show(x[2])[:200]}, the condition holds for {sx.show(x[3])[:200]}"
        if isinstance(x, list) and x and x[0] == "aliased-with-receiver":
            return (f"the returned event shares {x[1]} mutable object(s) (events / durations) with the receiver: the model's result is "
                    "a new value; an in-place edit of either would change the other")
    m1, i1 = mo[1], io[1]
    if isinstance(m1, list) and m1 and m1[0] == "parts":
        if len(m1) != len(i1):
            return f"number of parts differs: model {len(m1) - 1} impl {len(i1) - 1}"
        for k, (a, b) in enumerate(zip(m1[1:], i1[1:])):
            d = same_or_flat_equal(a, b)
            if d:
                return f"part {k}: {d}"
        return None
    if isinstance(m1, list):
        return same_or_flat_equal(m1, i1)
    return None if m1 == i1 else "value differs"


def alias_failure(io):
    """oracle clause shared by the pure operations: the returned events are new objects"""
    if not isinstance(io, list):
        return None
    for x in io[2:]:
        if isinstance(x, list) and x and x[0] == "another-container-class-prunes-differently":
            return f"remove_by on a {x[1]} holding the same leaves keeps {sx.show(x[2])[:200]}, the condition holds for {sx.show(x[3])[:200]}"
        if isinstance(x, list) and x and x[0] == "result-is-not-the-receiver":
            return f"the editing method returned another object than its receiver, which now reads {sx.show(x[1])[:200]}"
        if isinstance(x, list) and x and x[0] == "aliased-with-receiver":
            if x[2] == "result-changes-when-receiver-is-edited":
                return (f"the returned event shares {x[1]} object(s) with the receiver: after doubling the receiver's leaves in place "
                        f"the value returned earlier reads {sx.show(x[3])[:300]}")
            return f"the returned event shares {x[1]} mutable object(s) with the receiver"
    return None


def same_at(f, g_, points):
    for x in points:
        if f(x) != g_(x):
            return x
    return None


def shrink_tree(t):
    """candidate smaller trees: drop a child, replace a container by one of its children, halve leaves"""
    out = []
    if t[0] == "L":
        return out
    ks = t[3:]
    for i in range(len(ks)):
        out.append(t[:3] + ks[:i] + ks[i + 1:])
    for i, c in enumerate(ks):
        for c2 in shrink_tree(c):
            out.append(t[:3] + ks[:i] + [c2] + ks[i + 1:])
    return out


# ------------------------------------------------------------------------------------------------ histories
def hist_times(rng, dur, half, n=1):
    """times on a half-unit grid in [0, dur], some one tick off"""
    out = []
    for _ in range(n):
        x = rng.randint(0, max(0, dur // half)) * half + rng.choice([0, 0, 0, 1, -1])
        out.append(max(0, x))
    return out


def hist_compare(case, mo, io):
    """(hist t op...) -> (hist (ok tree) ... [(err kind)]): compared step by step"""
    if len(mo) != len(io):
        return f"history: model answers {len(mo) - 1} steps, implementation {len(io) - 1}"
    for k, (a, b) in enumerate(zip(mo[1:], io[1:])):
        d = compare_result(a, b)
        if d:
            return f"step {k} {sx.show(case[2 + k])[:80]}: {d}"
    return None


def hist_oracle(single, case, io):
    """every step is judged like a single call on the state the implementation itself left behind"""
    prev = case[1]
    for k, (op, step) in enumerate(zip(case[2:], io[1:])):
        m = single(["op", prev, op], step, None)
        if m:
            return f"step {k} on the state left by the earlier calls {sx.show(prev)[:160]}: {m}"
        if is_err(step):
            break
        prev = step[1]
    return None


def case_note(case):
    """how the M1 runner executes this case (decided by the case text, see harness/impl_m1.py set_resolution)"""
    if sum(map(ord, sx.show(case))) % 8 == 3:
        return ("this case runs with mutwo.core_parameters.configurations.ROUND_DURATION_TO_N_DIGITS = 12; one tick of the case is "
                "1e-12 beats (all times and durations above are in ticks)")
    return "one tick of the case is 1e-10 beats (the default resolution)"
