"""C01 — durations and start times compose (sum in sequence, max in parallel); lookup by time."""
from props.m1common import *  # noqa: F401,F403
from props.m1common import g, sp, sx, rng_for, is_err

PID = "C01"
KERNELS = ['K_index_at', 'K_abstf', 'K_abst', 'K_ranges', 'K_seq_duration', 'K_sim_duration', 'K_get_event_at']   # translated from /repo on every run, tied to the model by coq/Gen/<name>_eq.v
RUNNER = "impl_m1.py"
N = {"quick": 1500, "thorough": 60000}
LEVEL_RULE = ("random event trees (depth <= 4, zero-length leaves 0-30 %, empty containers, Direct and Ratio "
              "leaves) edited by 0-5 operations on the tree or on nested children (cut_out, cut_off, squash_in, "
              "slide_in, split_child_at, extend_until, tie_by, remove_by, leaf duration assignment); every container "
              "reports duration, start times, ranges and lookups at every start -1/0/+1, -1, dur-1, dur, dur+1 before "
              "and after the edits. non-trivial = depth >= 3 and (a simultaneity below a sequence or a zero-length child) "
              "and at least one edit succeeded")
ASSUMPTIONS = ASSUMPTIONS_M1
TRUSTED = TRUSTED_M1


def gen_op(rng, G, t, depth=0):
    k = rng.choice(["cut_out", "cut_off", "squash_in", "slide_in", "split_child_at", "extend_until", "tie_by",
                    "remove_by", "child", "child", "child"])
    kids = g.kids(t)
    if k == "child":
        if not kids or depth > 2:
            k = "cut_off"
        else:
            i = rng.randrange(len(kids))
            c = kids[i]
            if c[0] == "L":
                return ["child", i, ["set_dur", rng.choice([0, 1, 2, 3, 5]) * G.unit]]
            return ["child", i, gen_op(rng, G, c, depth + 1)]
    if k in ("cut_out", "cut_off"):
        a = g.pick_time(rng, t, rng.random() < 0.1)
        b = g.pick_time(rng, t, rng.random() < 0.1)
        if a > b and rng.random() < 0.9:
            a, b = b, a
        return [k, a, b]
    if k in ("squash_in", "slide_in"):
        return [k, g.pick_time(rng, t, rng.random() < 0.1), G.tree(depth=rng.choice([0, 0, 1]))]
    if k == "split_child_at":
        return [k, g.pick_time(rng, t, rng.random() < 0.1)]
    if k == "extend_until":
        return [k, 1, g.dur(t) + rng.randint(0, 3) * G.unit]
    if k == "tie_by":
        return [k, ["samekey", rng.choice([1, 2])], rng.choice([0, 1])]
    return ["remove_by", rng.choice([["durgt", 0], ["labmod", 3, rng.choice([0, 1, 2])]])]


def gen(seed, index):
    rng = rng_for(PID, seed, index)
    G = g.G(rng, tags=True, tempi=True)      # containers carry tags and tempi (opaque ids in the model)
    t = G.tree(kind=rng.choice(["S", "S", "S", "P"]))
    ops = [gen_op(rng, G, t) for _ in range(rng.choice([0, 1, 1, 2, 3, 4, 5]))]
    if rng.random() < 0.08 and t[0] == "S":
        # shared child references (one leaf / one nested container object at several positions): read only, no edits
        from props import C02 as _c2
        t = _c2.share_container(rng, _c2.share_leaves(rng, t)) if rng.random() < 0.6 else _c2.share_leaves(rng, t)
        ops = []
    return ["c01", t] + ops


def compare(case, mo, io):
    if mo == io:
        return None
    if len(mo) != len(io):
        return "observation length differs"
    for k, (a, b) in enumerate(zip(mo, io)):
        if a != b:
            return f"field {k} differs: model {sx.show(a)[:200]} impl {sx.show(b)[:200]}"
    return None


def check_nodes(tree, nodes):
    """the C01 statement over one tree and the implementation's reports for its containers (DFS order)"""
    t = sp.norm(tree)
    it = iter(nodes)

    def walk(e):
        if e[0] == "L":
            return None
        try:
            n = next(it)
        except StopIteration:
            return "missing node report"
        ds = [sp.dur(c) for c in sp.kids(e)]
        if e[0] == "P":
            if n[0] != "p" or int(n[1]) != max(ds, default=0):
                return f"simultaneity duration {n[1]} is not the longest child {max(ds, default=0)}"
        else:
            if n[0] != "s":
                return "node kind"
            total = sum(ds)
            if int(n[1]) != total:
                return f"sequence duration {n[1]} is not the sum {total}"
            starts, acc = [], 0
            for d in ds:
                starts.append(acc)
                acc += d
            if n[2] and n[2][0] == "floats-differ":
                return "absolute_time_in_floats_tuple differs from absolute_time_tuple"
            if [int(x) for x in n[2]] != starts:
                return f"start times {n[2]} are not the running sums {starts}"
            rg = [[int(a), int(b)] for a, b in n[3]]
            if rg != [[s, s + d] for s, d in zip(starts, ds)]:
                return f"ranges {rg} do not tile"
            q = sorted(set([y for s in starts for y in (s - 1, s, s + 1)] + [-1, total - 1, total, total + 1]))
            if len(q) != len(n[4]):
                return "lookup count"
            for x, r in zip(q, n[4]):
                exp = None
                for i, (s, d) in enumerate(zip(starts, ds)):
                    if s <= x < s + d:
                        exp = i
                if isinstance(r, str) and r.startswith("raised-"):
                    return f"lookup at {x} raised {r[7:]} (the time was handed over in one of the kinds of Duration.Type)"
                got = None if r == "none" else (r if r == "event-at-differs" else int(r))
                if got != exp:
                    return f"lookup at {x} returned {got}, the child whose half-open range contains it is {exp}"
        for c in sp.kids(e):
            m = walk(c)
            if m:
                return m
        return None

    return walk(t)


def oracle(case, io, mo):
    if io[0] != "c01":
        return None
    m = check_nodes(case[1], io[1][1:])
    if m:
        return "before edits: " + m
    if is_err(io[2]):
        return None
    m = check_nodes(io[3], io[2][1:])
    if m:
        return "after edits: " + m
    return None


def nontrivial(case, io):
    t = case[1]
    return g.depth(t) >= 3 and (g.has_sim_under_seq(t) or g.has_zero_child(t)) and len(case) > 2 and io is not None and not is_err(io[2])


def stats(results):
    from collections import Counter
    c = Counter()
    for r in results:
        case = r["case"]
        if case[0] != "c01":
            continue
        c["ops=%d" % (len(case) - 2)] += 1
        c["depth=%d" % g.depth(case[1])] += 1
        io = r.get("io")
        if io and len(io) > 2 and is_err(io[2]):
            c["err:" + io[2][1]] += 1
        for op in case[2:]:
            c["op:" + op[0]] += 1
    return dict(sorted(c.items()))


def shrink(case):
    out = []
    for i in range(2, len(case)):
        out.append(case[:i] + case[i + 1:])
    for t2 in shrink_tree(case[1]):  # noqa: F405
        out.append([case[0], t2] + case[2:])
    return out


def neighbours(case):
    return shrink(case)
