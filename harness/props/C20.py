"""C20 — numeric and caching helpers meet their contracts for all arguments."""
import itertools
import math
from fractions import Fraction
from props.m1common import rng_for, is_err
import sx

PID = "C20"
KERNELS = ['K_scale', 'K_lazy_wrapper', 'K_tools']   # translated from /repo on every run, tied to the model by coq/Gen/<name>_eq.v
RUNNER = "impl_m6.py"
N = {"quick": 3000, "thorough": 100000}
VM_CROSSCHECK = True
LEVEL_RULE = ("one helper per case: scale (old/new ranges incl. reversed new ranges, |curve shape| <= 20, three ordered values incl. "
              "both bounds), scale_sequence_to_sum (fractions, zero sums, negative entries), find_closest_index/item (unsorted data "
              "with ties and duplicates, key variant), nested get/set/delete (depth <= 4, bad paths), cyclic_permutations, "
              "accumulate_from_n, uniqify_sequence, round_floats (exact dyadic floats incl. decimal ties, ints and Fractions), find_numbers_which_sums_up_to (default and explicit arguments; candidates sorted and unsorted, zero and negative ones), attribute / "
              "dictionary extraction, compute_lazy (call histories <= 15 with repeats on one temp file, forced and unforced, call "
              "counter). non-trivial = ties/duplicates present, a repeat after a change in a history, nesting depth >= 3, curve shape != 0")
ASSUMPTIONS = ["integers / fractions as data (exact arithmetic on both sides); scale is compared in binary64 within 1e-9 relative",
               "compute_lazy: the file system behaviour (atomicity, pickling equality of arguments) is outside the model; the runner uses a fresh temporary file per case",
               "the model is tied to /repo by this run's differential correspondence (sampled)"]
TRUSTED = ["harness/impl_m6.py (calls the helpers, call counter for the lazy cache)"]


def hexf(v):
    return float(v).hex()


def fl(a):
    return float.fromhex(a) if "x" in a else float(a)


def gen_nest(rng, depth):
    if depth == 0 or rng.random() < 0.3:
        return rng.randint(0, 9)
    return ["l"] + [gen_nest(rng, depth - 1) for _ in range(rng.randint(0, 3))]


def paths(n, acc=()):
    out = [acc]
    if isinstance(n, list):
        for i, c in enumerate(n[1:]):
            out += paths(c, acc + (i,))
    return out


def gen(seed, index):
    rng = rng_for(PID, seed, index)
    k = rng.choice(["scale", "scale", "sss", "closest", "closest", "nget", "nset", "ndel", "cyc", "acc", "uniq", "sums", "attr", "kwarg", "chronon", "lazy", "lazy", "round"])
    if k == "round":
        digits = rng.choice([0, 1, 2, 3, 10, 10])
        r = rng.random()
        if r < 0.12:
            return ["round", ["q", rng.randint(-50, 50), 1], digits, "int"]
        if r < 0.2:
            return ["round", ["q", rng.randint(-50, 50), rng.choice([3, 7, 10])], digits, "frac"]
        # floats as exact dyadic rationals: decimal-looking values, exact ties (x.5, x.25 at fewer digits), tiny residues
        x = rng.choice([rng.randint(-10**6, 10**6) / rng.choice([10, 100, 1000, 10**5]), rng.randint(-64, 64) / rng.choice([2, 4, 8, 16]),
                        rng.uniform(-100, 100), rng.randint(0, 10**11) / 10**10 + rng.choice([0, 4e-11, 5e-11, 6e-11]), 0.1 + 0.2])
        f = Fraction(x)
        return ["round", ["q", f.numerator, f.denominator], digits, "float"]
    if k == "scale":
        a = rng.choice([0, -1, 2.5, 10])
        b = a + rng.choice([1, 0.5, 4, 100])
        c = rng.choice([0, -3, 1, 100, 7.25])
        d = rng.choice([0, 1, 100, -50, 7.25, c + 1])
        sh = rng.choice([0, 0, 1, -1, 0.5, -0.5, 3, -3, 8, -8, 20, -20, rng.uniform(-20, 20)])
        vs = sorted([a, b, rng.uniform(a, b), rng.uniform(a, b), (a + b) / 2])
        return ["scale"] + [hexf(x) for x in (a, b, c, d, sh)] + [hexf(v) for v in vs]
    if k == "sss":
        n = rng.randint(0, 6)
        data = [Fraction(rng.randint(-3, 9), rng.choice([1, 2, 3])) for _ in range(n)]
        if rng.random() < 0.15 and n >= 2:
            data[-1] = -sum(data[:-1])
        t = Fraction(rng.randint(-4, 12), rng.choice([1, 2, 5]))
        return ["sss", ["q", t.numerator, t.denominator]] + [["q", x.numerator, x.denominator] for x in data]
    if k == "closest":
        n = rng.randint(0, 8)
        data = [rng.randint(-10, 30) for _ in range(n)]
        if n and rng.random() < 0.4:
            data[rng.randrange(n)] = data[0]
        item = rng.choice(data + [rng.randint(-15, 35)]) if data else 3
        if n >= 2 and rng.random() < 0.3:
            item = (data[0] + data[1]) // 2   # near a tie
        return ["closest", item] + data
    if k in ("nget", "nset", "ndel"):
        n = ["l"] + [gen_nest(rng, rng.choice([1, 2, 3])) for _ in range(rng.randint(1, 3))]
        ps = [p for p in paths(n) if p]
        p = list(rng.choice(ps)) if ps and rng.random() < 0.85 else [rng.randint(0, 4) for _ in range(rng.randint(1, 3))]
        if k == "nset":
            return ["nset", n, gen_nest(rng, 1)] + p
        return [k, n] + p
    if k == "cyc":
        return ["cyc"] + [rng.randint(0, 5) for _ in range(rng.randint(0, 6))]
    if k == "acc":
        return ["acc", rng.randint(-3, 5)] + [rng.randint(-4, 9) for _ in range(rng.randint(0, 7))]
    if k == "uniq":
        return ["uniq"] + [rng.randint(0, 6) for _ in range(rng.randint(0, 9))]
    if k == "sums":
        if rng.random() < 0.4:
            return ["sums", rng.randint(1, 6)]
        nums = sorted(set(rng.randint(1, 6) for _ in range(rng.randint(1, 4))))
        if rng.random() < 0.5:
            # candidates in any order, also zero / negative ones (the documented argument is an arbitrary sequence)
            nums = list(set(rng.randint(-2, 7) for _ in range(rng.randint(1, 4))))
            rng.shuffle(nums)
        cnts = sorted(set(rng.randint(1, 4) for _ in range(rng.randint(1, 3))))
        return ["sums", rng.randint(2, 10), nums, cnts]
    if k == "attr":
        ps = [[i, rng.randint(0, 9)] for i in sorted(set(rng.randint(1, 5) for _ in range(rng.randint(0, 4))))]
        return ["attr", ps, rng.randint(1, 6), rng.randint(10, 12)]
    if k == "kwarg":
        ps = [[i, rng.randint(0, 9)] for i in sorted(set(rng.randint(1, 5) for _ in range(rng.randint(0, 4))))]
        return ["kwarg", ps, rng.randint(1, 6), rng.randint(1, 3)]
    if k == "chronon":
        ps = [[i, rng.randint(0, 9)] for i in sorted(set(rng.randint(1, 5) for _ in range(rng.randint(0, 4))))]
        convs = [[rng.randint(1, 6), rng.randint(1, 3)] for _ in range(rng.randint(1, 4))]
        return ["chronon", ps, convs]
    calls = []
    for _ in range(rng.randint(1, 15)):
        calls.append(calls[-1] if calls and rng.random() < 0.5 else rng.randint(0, 4))
    if rng.random() < 0.5:
        # richer histories: a second wrapper on the same file, the argument object mutated in place, the file removed
        ops = []
        for a in calls:
            r = rng.random()
            if r < 0.08:
                ops.append(["del"])
            ops.append([rng.choice(["c", "c", "c2", "m", "m"]), a])
        return ["lazy2", rng.choice([0, 0, 0, 1])] + ops
    if rng.random() < 0.3:
        # the bare function raises for the argument 99; the wrapper must do the same and must answer every later call as before
        for _ in range(rng.randint(1, 2)):
            calls.insert(rng.randint(0, len(calls)), 99)
    return ["lazy", rng.choice([0, 0, 0, 1])] + calls


def canon(o):
    """fractions reduced, floats parsed"""
    if isinstance(o, list):
        if len(o) == 3 and o[0] == "q":
            f = Fraction(int(o[1]), int(o[2]))
            return ("q", f.numerator, f.denominator)
        return [canon(x) for x in o]
    return o


def model_case(case):
    return case[:3] if case[0] == "round" else case


def rhe(q):
    f = q.numerator // q.denominator
    r = q - f
    if r < Fraction(1, 2):
        return f
    if r > Fraction(1, 2):
        return f + 1
    return f if f % 2 == 0 else f + 1


def compare(case, mo, io):
    k = case[0]
    if k == "round":
        if case[3] != "float":
            return None
        if is_err(mo) or is_err(io):
            return None if mo[:2] == io[:2] else f"outcome differs: model {sx.show(mo[:2])} impl {sx.show(io[:2])}"
        return None if int(mo[1]) == int(io[1]) else f"round_floats: model numerator {mo[1]} impl {io[1]}"
    if is_err(mo) or is_err(io):
        a, b = mo[:2], io[:2]
        if a != b and not (b[1] in ("AssertionError", "ZeroDivisionError") and k == "scale"):
            return f"outcome differs: model {sx.show(a)} impl {sx.show(b)}"
        return None
    if k == "scale":
        for a, b in zip(mo[1:], io[1:]):
            x, y = fl(a), fl(b)
            if abs(x - y) > 1e-9 * max(1, abs(x), abs(y)):
                return f"scale: model {x!r} impl {y!r}"
        return None
    a = canon(mo)
    b = canon([x for x in io if not (isinstance(x, list) and x and isinstance(x[0], str) and x[0].endswith(("differs", "changed")))])
    if k == "sums":
        a, b = sorted(map(tuple, a[1:])), sorted(map(tuple, b[1:]))
    if k == "chronon":
        a, b = sorted(map(tuple, a[1:])), sorted(map(tuple, b[1:]))
    return None if a == b else f"model {sx.show(mo)[:200]} impl {sx.show(io)[:200]}"


def oracle(case, io, mo):
    k = case[0]
    flags = [x[0] for x in io if isinstance(x, list) and x and isinstance(x[0], str) and x[0].endswith(("differs", "changed"))]
    if flags:
        return f"{k}: " + " ".join(flags)
    if k == "round":
        if is_err(io):
            return f"round_floats raised {io[1]}"
        if case[3] != "float":
            return None if io[1] == "unchanged" else "round_floats changed a number that is not a float"
        q = Fraction(int(case[1][1]), int(case[1][2]))
        exp = rhe(q * 10 ** int(case[2]))
        if int(io[1]) != exp:
            return f"round_floats({float(q)!r}, {case[2]}) is {int(io[1])}/10^{case[2]}, the nearest (ties to even) is {exp}/10^{case[2]}"
        return None if io[2] == "nearest-double" else "the result is not the double nearest to the rounded decimal"
    if k == "scale":
        a, b, c, d, sh = [fl(x) for x in case[1:6]]
        vs = [fl(x) for x in case[6:]]
        if is_err(io):
            return f"scale raised {io[1]}"
        rs = [fl(x) for x in io[1:]]
        lo, hi = min(c, d), max(c, d)
        eps = 1e-9 * max(1, abs(lo), abs(hi))
        for v, r in zip(vs, rs):
            if not (lo - eps <= r <= hi + eps):
                return f"scale({v}, {a}, {b}, {c}, {d}, {sh}) = {r!r} leaves the new range"
            if v == a and abs(r - c) > eps:
                return f"scale maps the old minimum to {r!r}, not to the new minimum {c}"
            if v == b and abs(r - d) > eps:
                return f"scale maps the old maximum to {r!r}, not to the new maximum {d}"
        for r1, r2 in zip(rs, rs[1:]):
            if (d >= c and r2 < r1 - eps) or (d <= c and r2 > r1 + eps):
                return f"scale is not monotone: {rs}"
        return None
    if is_err(io):
        ok_err = (k in ("nget", "nset", "ndel") and io[1] in ("IndexError", "TypeError", "AttributeError")) or (k == "closest" and len(case) == 2)
        return None if ok_err and bad_path(case) else (None if k == "closest" and len(case) == 2 else f"{k} raised {io[1]}")
    if k == "sss":
        t = Fraction(int(case[1][1]), int(case[1][2]))
        data = [Fraction(int(x[1]), int(x[2])) for x in case[2:]]
        r = [Fraction(int(x[1]), int(x[2])) for x in io[1:]]
        if len(r) != len(data):
            return "length changed"
        if data and sum(r) != t:
            return f"rescaled list sums to {sum(r)}, not to {t}"
        s = sum(data)
        if data and s != 0 and any(y * s != x * t for x, y in zip(data, r)):
            return "ratios changed"
        if data and s == 0 and len(set(r)) > 1:
            return "zero-sum list is not rescaled to equal shares"
        return None
    if k == "closest":
        item, data = int(case[1]), [int(x) for x in case[2:]]
        i = int(io[1])
        if not (0 <= i < len(data)) or abs(data[i] - item) != min(abs(x - item) for x in data):
            return f"index {i} is not an element with minimal distance to {item} in {data}"
        return None
    if k == "nget":
        n, p = pynest(case[1]), [int(i) for i in case[2:]]
        exp = n
        for i in p:
            exp = exp[i]
        return None if pynest_out(io[1]) == exp else "nested get differs from chained indexing"
    if k == "nset":
        n, item, p = pynest(case[1]), pynest(case[2]), [int(i) for i in case[3:]]
        t = n
        for i in p[:-1]:
            t = t[i]
        t[p[-1]] = item
        return None if pynest_out(io[1]) == n else "nested set differs from chained indexing"
    if k == "ndel":
        n, p = pynest(case[1]), [int(i) for i in case[2:]]
        t = n
        for i in p[:-1]:
            t = t[i]
        del t[p[-1]]
        return None if pynest_out(io[1]) == n else "nested delete differs from chained indexing"
    if k == "cyc":
        data = [int(x) for x in case[1:]]
        exp = [data[i:] + data[:i] for i in range(len(data))]
        return None if [[int(y) for y in x] for x in io[1:]] == exp else "not exactly the cyclic permutations"
    if k == "acc":
        n, data = int(case[1]), [int(x) for x in case[2:]]
        exp = [n + sum(data[:i]) for i in range(len(data) + 1)]
        return None if [int(x) for x in io[1:]] == exp else "not the running sums from n"
    if k == "uniq":
        data = [int(x) for x in case[1:]]
        return None if [int(x) for x in io[1:]] == sorted(set(data)) else "not the sorted duplicate-free elements"
    if k == "sums":
        t = int(case[1])
        nums = [int(x) for x in case[2]] if len(case) > 2 else list(range(1, t + 1))
        cnts = [int(x) for x in case[3]] if len(case) > 2 else list(range(1, t + 1))
        exp = sorted(tuple(sorted(c)) for n in set(cnts) for c in itertools.combinations_with_replacement(nums, n) if sum(c) == t)
        got = sorted(tuple(sorted(int(y) for y in x)) for x in io[1:])
        return None if got == exp else f"not exactly the multisets of the allowed sizes with the given sum: {got} vs {exp}"
    if k == "attr":
        d = {int(a): int(b) for a, b in case[1]}
        return None if int(io[1]) == d.get(int(case[2]), int(case[3])) else "attribute extraction wrong"
    if k == "kwarg":
        d = {int(a): int(b) for a, b in case[1]}
        exp = ["none"] if int(case[2]) not in d else [str(int(case[3])), str(d[int(case[2])])]
        return None if [str(x) for x in io[1:]] == exp else "keyword extraction wrong"
    if k == "chronon":
        d = {int(a): int(b) for a, b in case[1]}
        exp = {}
        for s_, kw in case[2]:
            if int(s_) in d:
                exp[int(kw)] = d[int(s_)]
        got = {int(a): int(b) for a, b in io[1:]}
        return None if got == exp else "keyword arguments wrong"
    if k == "lazy2":
        force = case[1] in ("1", 1)
        prev = None
        for op, r in zip(case[2:], io[1:]):
            if op[0] == "del":
                prev = None
                continue
            a = int(op[1])
            v, ran = r
            if int(v) != a * a + 1:
                return f"the cached function returned {v} for argument {a} ({op[0]}), the bare function returns {a * a + 1}"
            exp_ran = force or prev is None or prev != a
            if (ran in ("1", 1)) != exp_ran:
                return f"argument {a} ({op[0]}) after {prev}: recomputed={ran}, expected {exp_ran}"
            prev = a
        return None
    if k == "lazy":
        force = case[1] in ("1", 1)
        prev = None
        for a, r in zip(case[2:], io[1:]):
            a = int(a)
            if a == 99:
                if r != ["raised", "ValueError"]:
                    return f"the bare function raises ValueError for 99, the cached function gave {sx.show(r)}"
                continue
            if r and r[0] == "raised":
                return f"the cached function raised {r[1]} for argument {a} (after {prev}), the bare function returns {a * a + 1}"
            v, ran = r
            if int(v) != a * a + 1:
                return f"the cached function returned {v} for argument {a}, the bare function returns {a * a + 1}"
            exp_ran = force or prev is None or prev != a
            if (ran in ("1", 1)) != exp_ran:
                return f"argument {a} after {prev}: recomputed={ran}, expected {exp_ran}"
            prev = a
        return None
    return None


def bad_path(case):
    k = case[0]
    n = pynest(case[1])
    p = [int(i) for i in (case[3:] if k == "nset" else case[2:])]
    try:
        t = n
        for i in p[:-1] if k != "nget" else p:
            t = t[i]
        if k != "nget":
            t[p[-1]]
        return False
    except (IndexError, TypeError):
        return True


def pynest(x):
    if isinstance(x, list):
        return [pynest(i) for i in x[1:]]
    return int(x)


def pynest_out(x):
    return pynest(x)


def nontrivial(case, io):
    k = case[0]
    if k == "scale":
        return fl(case[5]) != 0
    if k == "round":
        return case[3] == "float" and int(case[2]) > 0
    if k == "closest":
        d = [int(x) for x in case[2:]]
        return len(set(d)) < len(d) or len(d) >= 3
    if k in ("nget", "nset", "ndel"):
        return len(case) - (3 if k == "nset" else 2) >= 2
    if k == "lazy2":
        return any(op[0] in ("m", "c2", "del") for op in case[2:])
    if k == "lazy":
        c = [x for x in case[2:] if int(x) != 99]
        return any(c[i] == c[i + 1] for i in range(len(c) - 1)) and len(set(c)) > 1
    if k == "sss":
        return len(case) > 3
    return True


def stats(results):
    from collections import Counter
    c = Counter()
    for r in results:
        c[r["case"][0]] += 1
        io = r.get("io")
        if io and is_err(io):
            c["err:" + r["case"][0] + ":" + io[1]] += 1
    return dict(sorted(c.items()))


def shrink(case):
    if case[0] == "lazy":
        return [case[:i] + case[i + 1:] for i in range(2, len(case))]
    return []


def neighbours(case):
    return shrink(case)
