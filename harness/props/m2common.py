"""Shared pieces of the M2 (envelope / tempo) property modules."""
import math
import random
import sys
import os

sys.path.insert(0, os.path.dirname(os.path.dirname(os.path.abspath(__file__))))
import gen_m2 as g  # noqa: E402
import gen_m1 as g1  # noqa: E402
import sx  # noqa: E402

TICK = 10**10
ASSUMPTIONS_M2 = ["runner: trajectories are built from point lists of plain numbers (every third time a Fraction), plain envelopes from events with float and (every third) ratio durations; time arguments come in all kinds of Duration.Type; a quarter of the conversion trees are written in ratios throughout", 
    "theorems are about the real-number instance of the generic model (ideal arithmetic, no rounding); the executable instance uses binary64 with the same expression trees as the implementation",
    "modelled, not verified: binary64 evaluation stays within the comparison tolerance (1e-9 relative, +-2 ticks for converted durations) of the real value; the 10-digit rounding of duration quotients is negligible",
    "times are exact multiples of 1e-10 beat below 1e4 beats; query times are on a control point or >= 1e-6 beat away from a repeated-time jump",
    "the model is tied to /repo by this run's differential correspondence (sampled)",
]
TRUSTED_M2 = ["harness/impl_m2.py (drives the public mutwo API, snapshots, Simpson/grids with the implementation's own value_at)",
              "coq/Extract/driver.ml float instance of Num (OCaml +. -. *. /. exp, %.10f rounding)"]


def rng_for(pid, seed, index):
    return random.Random(f"{pid}-{seed}-{index}")


def fl(a):
    return float.fromhex(a) if "x" in a else float(a)


def close(a, b, rel=1e-9, abs_=0.0):
    if a == b:
        return True
    try:
        x, y = fl(a), fl(b)
    except Exception:
        return False
    if x != x and y != y:
        return True
    if math.isinf(x) or math.isinf(y):
        return x == y
    return abs(x - y) <= rel * max(1.0, abs(x), abs(y)) + abs_


def same(a, b, rel=1e-9, abs_=0.0):
    if isinstance(a, list) and isinstance(b, list):
        return len(a) == len(b) and all(same(x, y, rel, abs_) for x, y in zip(a, b))
    if isinstance(a, list) or isinstance(b, list):
        return False
    return close(a, b, rel, abs_)


def is_err(o):
    return isinstance(o, list) and o and o[0] == "err"


def env_points(e):
    """[(abs time, value, shape)] of an s-expr envelope, durations list, total"""
    out, t = [], 0
    for p in e[1:]:
        out.append((t, fl(p[1]), fl(p[2])))
        t += int(p[0])
    return out, [int(p[0]) for p in e[1:]], t


def seg(v0, v1, c, p):
    if c == 0:
        return v0 + (v1 - v0) * p
    return v0 + (v1 - v0) * math.expm1(c * p) / math.expm1(c)      # the documented curve, evaluated without cancellation


def ref_value_at(e, t):
    """the documented curve, evaluated directly (Python floats)"""
    pts, durs, total = env_points(e)
    if t <= 0:
        return pts[0][1]
    if t >= pts[-1][0]:
        return pts[-1][1]
    # last index with start <= t
    i = max(k for k, p in enumerate(pts) if p[0] <= t)
    t0, v0, c = pts[i]
    t1, v1, _ = pts[i + 1]
    return seg(v0, v1, c, (t - t0) / (t1 - t0))
