"""C15 — refining structure (split_child_at, sequentialize) does not move content; extend_until pads with rest."""
from props.m1common import *  # noqa: F401,F403
from props.m1common import alias_failure, g, sp, sx, rng_for, is_err, compare_result, shrink_tree

PID = "C15"
KERNELS = ['K_abstf', 'K_split_child_at', 'K_split_at', 'K_extend_until', 'K_sim_split_at', 'K_sequentialize', 'K_sim_handlers']   # translated from /repo on every run, tied to the model by coq/Gen/<name>_eq.v
RUNNER = "impl_m1.py"
VM_CROSSCHECK = True
N = {"quick": 2100, "thorough": 75000}
LEVEL_RULE = ("three case kinds in equal shares. split_child_at: random sequences and simultaneities (leaf, sequence and "
              "simultaneity voices, depth <= 4, zero-length leaves), times in [0, duration) on child boundaries +-1 tick and in leaf "
              "interiors, plus negative times and times at/after the end (about 12 %). sequentialize: simultaneities with leaf, "
              "sequence and nested simultaneity voices of unequal length (zero-length voices included: known limitation F3), a few "
              "empty ones. extend_until: sequences and simultaneities (leaf / sequence / nested simultaneity voices), targets below, at "
              "and above the duration (about 30 % no-op targets for the idempotence clause), empty simultaneities. non-trivial = "
              "the call succeeds and: the time lies strictly inside a leaf of a nested (depth >= 2) child / voice (split_child_at); the "
              "result has at least two slices and the receiver at least two voices (sequentialize); at least one voice or the "
              "sequence is really extended and the receiver has depth >= 2 content (extend_until). The value returned by sequentialize is also walked for events / Duration objects shared with the receiver (a shared object is demonstrated by editing the receiver in place and reading the returned value again)")
ASSUMPTIONS = ASSUMPTIONS_M1
TRUSTED = TRUSTED_M1


# ------------------------------------------------------------------------------------------------ generation
def gen(seed, index):
    rng = rng_for(PID, seed, index)
    G = g.G(rng, tags=True, tempi=True)      # containers carry tags and tempi (opaque ids in the model)
    kind = index % 3 if rng.random() < 0.9 else rng.randrange(3)
    if kind == 0:
        for _ in range(3):  # mostly events in which some time is inside every voice
            t = G.tree(kind=rng.choice(["S", "S", "S", "P", "P"]))
            if min_voice(t) > 0 and (t[0] == "S" or len(t) > 3):
                break
        d = g.dur(t)
        pool = [x for x in g.interesting_times(rng, t) if 0 <= x < d] or [0]
        if t[0] == "P" and rng.random() < 0.9:
            m = min_voice(t)
            pool = [x for x in pool if x < m] or pool
        x = rng.choice(pool)
        r = rng.random()
        if len(t) > 60 and r < 0.6:
            # long scores: a time one to five ticks after a late boundary (large absolute times, tiny offsets)
            late = sorted(b for b in g.boundaries(t) if d // 2 <= b < d)
            if late:
                x = rng.choice(late) + rng.choice([1, 1, 2, 5])
                r = 1.0
        if r < 0.05:
            x = rng.choice([-1, -G.unit])
        elif r < 0.12:
            x = d + rng.choice([0, 0, 1, G.unit])
        return ["op", t, ["split_child_at", x]]
    if kind == 1:
        if rng.random() < 0.03:
            t = ["P", rng.choice([0, 1, 2]), 0]
        else:
            G.tags = True
            t = G.tree(kind="P", depth=rng.choice([1, 2, 2, 3]))
            if len(t) < 5 and rng.random() < 0.7:
                t = t + [G.tree(depth=rng.choice([1, 2]), kind="S") for _ in range(2)]
        return ["op", t, ["sequentialize"]]
    t = G.tree(kind=rng.choice(["S", "S", "P", "P", "P"]))
    d = g.dur(t)
    r = rng.random()
    if r < 0.3:
        tgt = rng.choice([0, d, max(0, d - 1), d // 2, max(0, d - G.unit)])
    elif r < 0.45 and t[0] == "P" and len(t) > 3:
        tgt = rng.choice([g.dur(c) for c in t[3:]]) + rng.choice([0, 1, -1, G.unit])
        tgt = max(0, tgt)
    else:
        tgt = d + rng.choice([1, G.unit, 2 * G.unit, 3 * G.unit])
    if rng.random() < 0.12:
        return ["op", t, ["extend_until", 1, "none"]]      # no target: a simultaneity equalises its voices, a sequence rejects
    if rng.random() < 0.08:
        return ["op", t, ["extend_until", 0, tgt]]         # prolong_chronon=False: leaf voices are not prolonged
    return ["op", t, ["extend_until", 1, tgt]]


def min_voice(t):
    """shortest voice reached through (nested) simultaneities"""
    if t[0] != "P":
        return g.dur(t)
    return min([min_voice(c) for c in t[3:]], default=10 ** 15)


def compare(case, mo, io):
    return compare_result(mo, io)


# ------------------------------------------------------------------------------------------------ helpers
def nz_pieces(t, off=0):
    return sorted((l, a, b) for (a, b, l, _) in sp.flat(t, off) if a < b)


def cut_pieces(t, x):
    out = []
    for (a, b, l, _) in sp.flat(t):
        if a < b:
            out += [(l, a, x), (l, x, b)] if a < x < b else [(l, a, b)]
    return sorted(out)


def zero_leaves(t, off=0, parent="S"):
    """[(time, label)] of the zero-length leaves that are not a direct voice of a simultaneity (those are dropped when the
    simultaneity is divided: Chronon(0).split_at returns no part; not required here)"""
    if t[0] == "L":
        return [(off, t[2])] if t[1] == 0 and parent != "P" else []
    out = []
    for c in sp.kids(t):
        out += zero_leaves(c, off, t[0])
        if t[0] == "S":
            off += sp.dur(c)
    return out


def bounds(s):
    """child boundaries of a sequence (starts and the end)"""
    out, o = {0}, 0
    for c in sp.kids(s):
        o += sp.dur(c)
        out.add(o)
    return out


def has_boundary(v, x):
    if v[0] == "S":
        return x in bounds(v)
    if v[0] == "P":
        return all(has_boundary(c, x) for c in sp.kids(v))
    return False


def all_longer(t, x):
    """every voice reached through simultaneities is longer than x"""
    if t[0] == "P":
        return all(all_longer(c, x) for c in sp.kids(t))
    return sp.dur(t) > x


def has_voice(t):
    """is there any sequence / leaf voice below the (nested) simultaneity"""
    if t[0] == "P":
        return any(has_voice(c) for c in sp.kids(t))
    return True


def leaves_at(fl, x):
    return sorted(l for (a, b, l, _) in fl if a <= x < b)


# ------------------------------------------------------------------------------------------------ oracles
def oracle_split_child(t, x, io):
    if x < 0:
        if not has_voice(t):
            return None  # a simultaneity without any voice has nothing to divide: the time is never looked at
        return None if io[:2] == ["err", "InvalidAbsoluteTime"] else f"negative time not rejected with InvalidAbsoluteTime: {sx.show(io[:2])[:100]}"
    if t[0] == "S":
        if x >= sp.dur(t):
            return None if io[:2] == ["err", "SplitUnavailableChildError"] else f"time at/after the end not rejected with SplitUnavailableChildError: {sx.show(io[:2])[:100]}"
    elif not all_longer(t, x):
        if is_err(io):
            return None  # a voice that does not reach the time: any rejection is accepted
    if is_err(io):
        return f"time inside every voice rejected with {io[1]}"
    r = sp.norm(io[1])
    if sp.shape(r) != sp.shape(t):
        return "kind / tag / tempo of the event changed"
    if sp.dur(r) != sp.dur(t):
        return f"duration changed from {sp.dur(t)} to {sp.dur(r)}"
    for p in sp.probes(sp.breakpoints(t) | sp.breakpoints(r) | {x}):
        if sp.at(r, p) != sp.at(t, p):
            return f"at time {p}: active {sp.at(r, p)}, before the call {sp.at(t, p)}"
    if nz_pieces(r) != cut_pieces(t, x):
        return "the non-zero leaves are not the originals divided at the requested time (lost / duplicated / reordered)"
    if sorted(zero_leaves(r)) != sorted(zero_leaves(t)):
        return "zero-length leaves inside sequences are not kept exactly once at their time"
    if t[0] == "S":
        if x not in bounds(r):
            return "no child boundary at the requested time afterwards"
    else:
        if len(sp.kids(r)) != len(sp.kids(t)):
            return "number of voices changed"
        for i, (v, v0) in enumerate(zip(sp.kids(r), sp.kids(t))):
            if v[0] == "L":
                return f"voice {i} is still a leaf"
            if all_longer(v0, x) and not has_boundary(v, x):
                return f"voice {i} has no child boundary at the requested time afterwards"
    return None


def oracle_sequentialize(t, io):
    if t[0] != "P":
        return None
    if is_err(io):
        return f"sequentialize rejected with {io[1]}"
    if alias_failure(io):
        return alias_failure(io)
    r = sp.norm(io[1])
    recv = [e for e in io[2:] if e and e[0] == "recv"]
    if not recv or sp.norm(recv[0][1]) != t:
        return "the receiver was modified by sequentialize"
    if r[0] != "S" or r[1] != t[1]:
        return f"result is not a sequence carrying the receiver's tag: {sp.shape(r)}"
    if sp.dur(r) != sp.dur(t):
        return f"duration changed from {sp.dur(t)} to {sp.dur(r)}"
    ft, fr = sp.flat(t), sp.flat(r)
    for p in sp.probes(sp.breakpoints(t) | sp.breakpoints(r)):
        if leaves_at(fr, p) != leaves_at(ft, p):
            return f"at time {p}: active leaves {leaves_at(fr, p)}, in the receiver {leaves_at(ft, p)}"
    # order within each voice: the pieces of every original leaf tile exactly its old interval
    by = {}
    for (l, a, b) in nz_pieces(r):
        by.setdefault(l, []).append((a, b))
    for (a, b, l, _) in ft:
        if a < b:
            ps = by.pop(l, [])
            if not ps or ps[0][0] != a or ps[-1][1] != b or any(p[1] != q[0] for p, q in zip(ps, ps[1:])):
                return f"the pieces {ps} of leaf {l} do not tile its interval [{a}, {b})"
    if by:
        return f"leaves {sorted(by)} appear from nowhere"
    voice_of = {l: p[0] for (_, _, l, p) in ft}
    f3 = None
    for i, s in enumerate(sp.kids(r)):
        if s[0] != "P":
            return f"slice {i} is not a simultaneity"
        # every voice of a slice stems from one voice of the receiver, in the receiver's voice order
        last = -1
        for v in sp.kids(s):
            src = {voice_of.get(l) for (_, _, l, _) in sp.flat(v)}
            if len(src) > 1:
                return f"slice {i}: a voice mixes content of the receiver's voices {sorted(src)}"
            if src:
                if min(src) <= last:
                    return f"slice {i}: voices are not in the receiver's voice order"
                last = min(src)
        ds = [sp.dur(v) for v in sp.kids(s)]
        off = [d for d in ds if d != max(ds)]
        if any(d != 0 for d in off):
            return f"slice {i} is not rectangular: voice durations {ds}"
        if off:
            # every off-length voice has length 0: known finding F3 (matched by `known`)
            f3 = f"[F3] slice {i} is not rectangular: zero-length voice next to voices of length {max(ds)}"
    return f3


def known(f, case, msg, io):
    return f.get("id") == "F3" and (msg or "").startswith("[F3]")


def ext_check(t, r, d, path="event"):
    if t[0] == "L":
        exp = ("L", max(t[1], d), t[2])
        return None if r == exp else f"{path}: leaf voice became {r}, expected {exp}"
    if sp.shape(r) != sp.shape(t):
        return f"{path}: kind / tag / tempo changed"
    if t[0] == "S":
        old = sp.dur(t)
        if d <= old:
            return None if r == t else f"{path}: target <= duration but the sequence changed (not idempotent)"
        if sp.kids(r)[:len(sp.kids(t))] != sp.kids(t):
            return f"{path}: earlier content was touched"
        if sp.kids(r)[len(sp.kids(t)):] != (("L", d - old, -1),):
            return f"{path}: not extended by one rest of length {d - old}"
        return None
    if len(sp.kids(r)) != len(sp.kids(t)):
        return f"{path}: number of voices changed"
    for i, (c, c2) in enumerate(zip(sp.kids(t), sp.kids(r))):
        m = ext_check(c, c2, d, f"{path}.voice{i}")
        if m:
            return m
        if sp.dur(c2) != max(sp.dur(c), d):
            return f"{path}.voice{i}: duration {sp.dur(c2)} != max(old, target) = {max(sp.dur(c), d)}"
    return None


def has_empty_sim(t):
    if t[0] != "P":
        return False
    return len(sp.kids(t)) == 0 or any(has_empty_sim(c) for c in sp.kids(t))


def oracle_extend(t, d, io):
    if t[0] == "L":
        return None
    if has_empty_sim(t):
        return None if io[:2] == ["err", "IneffectiveExtendUntilError"] else f"empty simultaneity not rejected with IneffectiveExtendUntilError: {sx.show(io[:2])[:100]}"
    if is_err(io):
        return f"extend_until rejected with {io[1]}"
    r = sp.norm(io[1])
    nd = max(sp.dur(t), d)
    if sp.dur(r) != nd:
        return f"duration {sp.dur(r)} != max(old duration, target) = {nd}"
    m = ext_check(t, r, d)
    if m:
        return m
    if t[0] == "S":
        for p in sp.probes(sp.breakpoints(t) | sp.breakpoints(r) | {d}):
            exp = sp.at(t, p) if p < sp.dur(t) else (-1 if p < d else None)
            if sp.at(r, p) != exp:
                return f"at time {p}: active {sp.at(r, p)}, expected {exp}"
    return None


def oracle(case, io, mo):
    from props.m1common import alias_failure as _af
    if case[0] != "hist" and _af(io):
        return _af(io)
    t = sp.norm(case[1])
    op = case[2]
    if op[0] == "split_child_at":
        return oracle_split_child(t, int(op[1]), io)
    if op[0] == "sequentialize":
        return oracle_sequentialize(t, io)
    if op[0] == "extend_until" and not is_err(io) and any(isinstance(x, list) and x and x[0] == "second-call-differs" for x in io[2:]):
        return "extending a second time to the same duration changed the event again (doing it twice has to equal doing it once)"
    if op[0] == "extend_until" and op[1] in (0, "0"):
        return None     # prolong_chronon=False: decided by the correspondence (a leaf voice that would need prolonging is an error)
    if op[0] == "extend_until" and op[2] != "none":
        return oracle_extend(t, int(op[2]), io)
    if op[0] == "extend_until" and t[0] == "P":
        return oracle_extend(t, sp.dur(t), io)      # no target: the voices are made as long as the longest one
    return None


# ------------------------------------------------------------------------------------------------ evidence
def nontrivial(case, io):
    if io is None or is_err(io):
        return False
    t, op = case[1], case[2]
    if op[0] == "split_child_at":
        x = int(op[1])
        return g.depth(t) >= 3 and any(a < x < b for (a, b) in g.leaf_intervals(t))
    if op[0] == "sequentialize":
        return len(t) >= 5 and len(io[1]) >= 5
    d = int(op[2])
    if g.depth(t) < 3:
        return False
    if t[0] == "S":
        return d > g.dur(t)
    return any(d > g.dur(c) for c in t[3:])


def stats(results):
    from collections import Counter
    c = Counter()
    for r in results:
        io = r.get("io")
        case = r["case"]
        k = case[2][0]
        c["op:" + k] += 1
        c[k + ":" + ("ok" if io and io[0] == "ok" else "err:" + (io[1] if io and len(io) > 1 else "?"))] += 1
        c[k + ":root:" + case[1][0]] += 1
        if k == "extend_until" and case[2][2] != "none":
            c["extend_until:" + ("no-op target" if int(case[2][2]) <= g.dur(case[1]) else "extending target")] += 1
    return dict(sorted(c.items()))


def shrink(case):
    return [["op", t2, case[2]] for t2 in shrink_tree(case[1]) if not (case[2][0] == "sequentialize" and t2[0] != "P")]


def neighbours(case):
    op = case[2]
    out = []
    if op[0] == "split_child_at":
        out = [["op", case[1], [op[0], int(op[1]) + dx]] for dx in (-1, 1)]
    elif op[0] == "extend_until" and op[2] != "none":
        out = [["op", case[1], [op[0], op[1], int(op[2]) + dx]] for dx in (-1, 1) if int(op[2]) + dx >= 0]
    return out + shrink(case)
