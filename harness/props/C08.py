"""C08 — envelope interpolation: through its points, clamped outside, bounded and monotone between."""
import math
from props.m2common import *  # noqa: F401,F403
from props.m2common import g, sx, rng_for, fl, close, same, is_err, env_points, ref_value_at

PID = "C08"
KERNELS = ['K_scale', 'K_value_at', 'K_of_points']   # translated from /repo on every run, tied to the model by coq/Gen/<name>_eq.v
RUNNER = "impl_m2.py"
N = {"quick": 2500, "thorough": 80000}
LEVEL_RULE = ("envelopes (plain and FlexTempo) with 1-7 control points, repeated times up to 35 %, values up to +-1e3, curve shapes "
              "in {0, +-0.5 .. +-8}, last event with positive duration 10 %; 1-8 queries value_at / parameter_at at control points, "
              "+-1 tick around them, strictly inside segments (pairs in the same segment for monotonicity), negative and beyond the "
              "end; plus construction from point lists (round trip). non-trivial = a query strictly inside a curved segment or on a repeated time")
ASSUMPTIONS = ASSUMPTIONS_M2
TRUSTED = TRUSTED_M2


def gen(seed, index):
    rng = rng_for(PID, seed, index)
    if rng.random() < 0.12:
        # construction from absolute points; 20 % with a first time != 0 (known finding F2)
        n = rng.randint(1, 6)
        unit = rng.choice(g.UNITS)
        t = 0 if rng.random() < 0.8 else rng.randint(1, 3) * unit
        pts = []
        for _ in range(n):
            pts.append([t, g.hexf(rng.choice([0, 1, -2, 3.5, rng.uniform(-10, 10)])), g.hexf(rng.choice(g.SHAPES))])
            t += rng.choice([0, 1, 2, 3]) * unit
        return ["of_points", pts]
    G = g.GE(rng)
    e = G.env()
    if rng.random() < 0.04:
        # finding F12: a curve shape that is not 0 but tiny
        rng.choice(e[1:])[2] = g.hexf(rng.choice([1e-13, 1e-15, -1e-15, 1e-17, 3e-16]))
    steep_at = None
    if rng.random() < 0.06 and len(e) > 2:
        # very steep easing (negative shapes of any size are computable, positive ones up to about 700)
        k = rng.randrange(1, len(e) - 1)
        e[k][2] = g.hexf(rng.choice([-800, -1000, -5000, 600, -600, 700, 705, -705]))
        steep_at = k
    if e[0] == "T" and rng.random() < 0.12:
        # a trajectory may touch 0 bpm (a fermata written as a tempo): the value 0 is a number like any other here
        rng.choice(e[1:])[1] = g.hexf(0)
    qs = []
    for _ in range(rng.randint(1, 8)):
        k = rng.choice(["value_at", "value_at", "value_at", "parameter_at"])
        t = g.pick_time(rng, e)
        while g.near_jump(e, t):
            t = g.pick_time(rng, e)
        qs.append([k, t])
        if rng.random() < 0.3:
            # a second query in the same segment (monotonicity)
            pts, durs, total = env_points(e)
            for (a, _, _), d in zip(pts, durs):
                if a < t < a + d and d > 4:
                    t2 = rng.randint(a + 1, a + d - 1)
                    if not g.near_jump(e, t2):
                        qs.append(["value_at", t2])
                    break
    if steep_at is not None:
        pts, durs, total = env_points(e)
        (a, _, c), d = pts[steep_at - 1], durs[steep_at - 1]
        for frac in (1000, 700, 300, 50):
            t = a + max(1, d // frac) if c < 0 else a + d - max(1, d // frac)
            if a < t < a + d and not g.near_jump(e, t):
                qs.append(["value_at", t])
    qs.append(["points"])
    if rng.random() < 0.12:
        # decoy stream: before the questions a COPY of the envelope is edited in place and the envelope is split
        # (both leave the receiver alone): the answers must still be those of the points it was built from
        pts_, durs_, total_ = env_points(e)
        qs.append(["decoy", rng.randint(1, max(1, total_ - 1)) if total_ > 1 else 1])
    return ["envq", e] + qs


def strip(case):
    return case[:-1] if case[0] == "envq" and case[-1] and case[-1][0] == "decoy" else case


def model_case(case):
    return strip(case)


def compare(case, mo, io):
    m = compare1(case, mo, io)
    return ("[F12] " + m) if m and case[0] == "envq" and tiny_shape(case[1]) else m


def compare1(case, mo, io):
    case = strip(case)
    if case[0] == "of_points":
        return None if same(mo, io) else "constructed envelope differs"
    if len(io) > len(mo):
        extra = io[len(mo):]
        io = io[:len(mo)]
    for k, (q, a, b) in enumerate(zip(case[2:], mo[1:], io[1:])):
        if not same(a, b):
            return f"query {k} {sx.show(q)}: model {sx.show(a)} impl {sx.show(b)}"
    return None


def oracle(case, io, mo):
    m = oracle1(case, io, mo)
    return ("[F12] " + m) if m and case[0] == "envq" and tiny_shape(case[1]) else m


def oracle1(case, io, mo):
    case = strip(case)
    if case[0] == "of_points":
        pts = case[1]
        t0 = int(pts[0][0])
        exp_t = [int(p[0]) for p in pts]
        got_t, t = [], 0
        for p in io[1:]:
            got_t.append(t)
            t += int(p[0])
        vals_ok = all(close(p[1], q[1]) and close(p[2], q[2]) for p, q in zip(pts, io[1:])) and len(pts) == len(io) - 1
        if not vals_ok:
            return "an envelope built from points does not report their values / shapes back"
        if got_t != exp_t:
            return f"an envelope built from points at times {exp_t} reports times {got_t}"
        return None
    e = case[1]
    pts, durs, total = env_points(e)
    answers = {}
    for q, a in zip(case[2:], io[1:]):
        if q[0] == "points":
            if is_err(a):
                return "points query failed"
            got = [(int(p[0]), fl(p[1]), fl(p[2])) for p in a[1]]
            if got != pts:
                return "reported control points differ from the control points the envelope was built from"
            continue
        if is_err(a):
            return f"{q[0]} raised {a[1]}"
        t = int(q[1])
        v = fl(a[1])
        exp = ref_value_at(e, t)
        if abs(v - exp) > 1e-9 * max(1, abs(v), abs(exp)):
            return f"{q[0]}({t}) = {v!r}, the documented curve gives {exp!r}"
        if t <= 0 and v != pts[0][1]:
            return "before the first point the value is not the first value"
        if t >= pts[-1][0] and t > 0 and v != pts[-1][1]:
            return "from the last point onwards the value is not the last value"
        # bounded between the neighbours
        if 0 < t < pts[-1][0]:
            i = max(k for k, p in enumerate(pts) if p[0] <= t)
            lo, hi = sorted((pts[i][1], pts[i + 1][1]))
            eps = 1e-9 * max(1, abs(lo), abs(hi))
            if not (lo - eps <= v <= hi + eps):
                return f"value {v!r} at {t} leaves the range [{lo}, {hi}] of its neighbouring control values"
            answers.setdefault(i, []).append((t, v))
    # monotone inside one segment
    for i, l in answers.items():
        l.sort()
        up = pts[i + 1][1] >= pts[i][1]
        for (t1, v1), (t2, v2) in zip(l, l[1:]):
            eps = 1e-9 * max(1, abs(v1), abs(v2))
            if (up and v2 < v1 - eps) or (not up and v2 > v1 + eps):
                return f"not monotone between two control points: value_at({t1})={v1!r}, value_at({t2})={v2!r}"
    if len(io) > len(case) - 1:
        return "a query changed the envelope or answered differently from a fresh copy: " + sx.show(io[len(case) - 1:])[:200]
    return None




def tiny_shape(e):
    """a control point with a curve shape 0 < |c| < 1e-4 (finding F12: cancellation in exp(c) - 1)"""
    return any(0 < abs(fl(p[2])) < 1e-4 for p in e[1:])


def known(f, case, msg, io):
    if f.get("id") == "F12":
        return (msg or "").startswith("[F12]")
    if f.get("id") == "F2":
        return case[0] == "of_points" and int(case[1][0][0]) != 0 and "reports times" in (msg or "")
    return False


def known_dis(f, case, msg, io, mo):
    return f.get("id") == "F12" and (msg or "").startswith("[F12]")


def nontrivial(case, io):
    case = strip(case)
    if case[0] != "envq":
        return False
    e = case[1]
    return any(q[0] != "points" and (g.in_curved_segment(e, int(q[1])) or g.on_repeated_time(e, int(q[1]))) for q in case[2:])


def stats(results):
    from collections import Counter
    c = Counter()
    for r in results:
        case = r["case"]
        if case != strip(case):
            c["decoy-first"] += 1
        case = strip(case)
        c[case[0]] += 1
        if case[0] == "envq":
            c["kind:" + case[1][0]] += 1
            c["points=%d" % (len(case[1]) - 1)] += 1
            for q in case[2:]:
                if q[0] == "points":
                    continue
                t = int(q[1])
                c["q:curved" if g.in_curved_segment(case[1], t) else "q:jump" if g.on_repeated_time(case[1], t) else "q:outside" if t <= 0 or t >= g.starts(case[1])[1] else "q:other"] += 1
    return dict(sorted(c.items()))


def shrink(case):
    if case != strip(case):
        return [strip(case)]
    out = []
    if case[0] == "envq":
        for i in range(2, len(case)):
            out.append(case[:i] + case[i + 1:])
        e = case[1]
        for i in range(1, len(e)):
            if len(e) > 2:
                out.append(["envq", e[:i] + e[i + 1:]] + case[2:])
    return out


def neighbours(case):
    return shrink(case)
