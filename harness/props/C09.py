"""C09 — envelope integrals agree with the interpolated curve and are additive."""
import math
from props.m2common import *  # noqa: F401,F403
from props.m2common import g, sx, rng_for, fl, close, same, is_err, env_points, ref_value_at

PID = "C09"
KERNELS = ['K_segment_step', 'K_scale', 'K_value_at', 'K_env_reads', 'K_average', 'K_env_chain']   # translated from /repo on every run, tied to the model by coq/Gen/<name>_eq.v
RUNNER = "impl_m2.py"
N = {"quick": 1200, "thorough": 40000}
LEVEL_RULE = ("envelopes as C08; per case an interval a <= m <= b with ends on control points, strictly inside the same or different "
              "(curved) segments, before the first and after the last point; queries integrate(a,b), integrate(a,m), integrate(m,b), "
              "integrate(a,a), average(a,b) plus a composite Simpson integration (32 panels per piece) of the implementation's own "
              "value_at on a fresh copy; history stream (15 %): the same questions are asked first, then control points are edited in place (values, curve shapes, durations) and the answers must be those of the edited envelope. non-trivial = an interval end strictly inside a curved segment")
ASSUMPTIONS = ASSUMPTIONS_M2
TRUSTED = TRUSTED_M2


def gen(seed, index):
    rng = rng_for(PID, seed, index)
    G = g.GE(rng, shapes=[0, 0, 0.5, -0.5, 1, -1, 2, -2, 3, -3, 5, -5])
    e = G.env(rng.randint(1, 6))
    ts = []
    while len(ts) < 3:
        t = g.pick_time(rng, e, allow_bad=rng.random() < 0.2, inside_bias=0.65)
        if not g.near_jump(e, t):
            ts.append(t)
    a, m, b = sorted(ts)
    qs = [["integrate", a, b], ["integrate", a, m], ["integrate", m, b], ["integrate", a, a], ["average", a, b],
          ["simpson", a, b], ["value_at", a]]
    if rng.random() < 0.25:
        # the default-argument forms of the averages: no end = the envelope's duration, no start = 0
        total = g.starts(e)[1]
        qs += [["average_all"], ["average_from", max(0, a)], ["average_to", max(0, b)],
               ["integrate", 0, total], ["integrate", max(0, a), total], ["integrate", 0, max(0, b)]]
    if rng.random() < 0.1:
        qs.append(["integrate", b, a])     # malformed: end before start
    case = ["envq", e] + qs
    if rng.random() < 0.04:
        # finding F10: a curve shape that is not 0 but tiny
        rng.choice(e[1:])[2] = g.hexf(rng.choice([1e-6, 1e-8, 1e-9, -1e-9, 1e-12]))
        return case
    if rng.random() < 0.15:
        # history stream: the same questions were already asked before the control points were edited in place
        e0 = [e[0]] + [list(p) for p in e[1:]]
        for p in rng.sample(e0[1:], rng.randint(1, len(e0) - 1)):
            r = rng.random()
            if r < 0.6:
                p[1] = g.hexf(G.value())
            elif r < 0.85:
                p[2] = g.hexf(rng.choice(G.shapes))
            elif int(p[0]) > 0:
                p[0] = int(p[0]) + G.unit
        case.append(["prelude", e0])
    return case


def strip(case):
    return case[:-1] if case[-1] and case[-1][0] == "prelude" else case


def model_case(case):
    case = strip(case)
    return case[:2] + [q for q in case[2:] if q[0] != "simpson"]


def compare(case, mo, io):
    m = compare1(case, mo, io)
    return ("[F10] " + m) if m and tiny_shape(strip(case)[1]) else m


def compare1(case, mo, io):
    case = strip(case)
    qs = [q for q in case[2:]]
    mi = iter(mo[1:])
    for k, (q, b) in enumerate(zip(qs, io[1:])):
        if q[0] == "simpson":
            continue
        a = next(mi)
        if not same(a, b, rel=1e-9, abs_=1e-12):
            return f"query {k} {sx.show(q)}: model {sx.show(a)} impl {sx.show(b)}"
    return None


def oracle(case, io, mo):
    m = oracle1(case, io, mo)
    return ("[F10] " + m) if m and tiny_shape(strip(case)[1]) else m


def oracle1(case, io, mo):
    case = strip(case)
    e = case[1]
    pts, durs, total = env_points(e)
    ans = {}
    for q, a in zip(case[2:], io[1:]):
        ans.setdefault((q[0],) + tuple(int(x) for x in q[1:]), a)
    if len(io) > len(case) - 1:
        return "a query changed the envelope or answered differently from a fresh copy: " + sx.show(io[len(case) - 1:])[:200]
    a, b = int(case[2][1]), int(case[2][2])
    m = int(case[3][2])

    def val(key):
        r = ans[key]
        if is_err(r):
            raise ValueError(f"{key} raised {r[1]}")
        return fl(r[1])

    try:
        iab, iam, imb, iaa = val(("integrate", a, b)), val(("integrate", a, m)), val(("integrate", m, b)), val(("integrate", a, a))
        avg, simp = val(("average", a, b)), val(("simpson", a, b))
    except ValueError as ex:
        return str(ex)
    vs = [p[1] for p in pts]
    span = (b - a) / TICK
    scale = max(1.0, abs(iab), span * max(abs(x) for x in vs))
    if iaa != 0:
        return f"integral over [a, a] is {iaa!r}, not 0"
    if abs(iab - (iam + imb)) > 1e-9 * scale:
        return f"not additive: [a,b]={iab!r} but [a,m]+[m,b]={iam + imb!r}"
    lo, hi = span * min(vs), span * max(vs)
    if not (lo - 1e-9 * scale <= iab <= hi + 1e-9 * scale):
        return f"integral {iab!r} outside (b-a)*[min, max] control value = [{lo!r}, {hi!r}]"
    # agreement with the area under the envelope's own curve (numeric; steep curves need a looser tolerance)
    steep = max([abs(p[2]) for p in pts] + [1])
    if abs(iab - simp) > 2e-5 * steep ** 4 * scale:
        return f"reported integral {iab!r} differs from the area under value_at (Simpson) {simp!r}"
    if a < b and abs(avg - iab / span) > 1e-9 * max(1, abs(avg)):
        return f"average {avg!r} is not integral / (b - a) = {iab / span!r}"
    if a == b and abs(avg - fl(ans[("value_at", a)][1])) > 0:
        return "average over an empty interval is not value_at(start)"
    if ("average_all",) in ans:
        # the six queries were appended together: three averages, then the three integrals they have to agree with
        i = [q[0] for q in case[2:]].index("average_all") + 2
        avs, ints = case[i:i + 3], case[i + 3:i + 6]
        try:
            for qa, qi in zip(avs, ints):
                key = (qa[0],) + tuple(int(x) for x in qa[1:])
                lo, hi = int(qi[1]), int(qi[2])
                if qi[0] != "integrate":
                    break
                if hi > lo:
                    want = val(("integrate", lo, hi)) / ((hi - lo) / TICK)
                    got = val(key)
                    if abs(got - want) > 1e-9 * max(1, abs(want)):
                        return f"{key[0]} (default arguments) is {got!r}, the integral over [{lo}, {hi}] divided by its length is {want!r}"
        except ValueError as ex:
            return str(ex)
        except KeyError as ex:
            return f"no answer recorded for {ex} (queries and answers out of step: {len(case) - 2} queries, {len(io) - 1} answers)"
    return None




def tiny_shape(e):
    """a control point with a curve shape 0 < |c| < 1e-4 (finding F10: cancellation in exp(c) - 1 and in the antiderivative)"""
    return any(0 < abs(fl(p[2])) < 1e-4 for p in e[1:])


def known(f, case, msg, io):
    return f.get("id") == "F10" and (msg or "").startswith("[F10]")


def known_dis(f, case, msg, io, mo):
    return f.get("id") == "F10" and (msg or "").startswith("[F10]")


def nontrivial(case, io):
    e = case[1]
    return g.in_curved_segment(e, int(case[2][1])) or g.in_curved_segment(e, int(case[2][2]))


def stats(results):
    from collections import Counter
    c = Counter()
    for r in results:
        case = r["case"]
        e = case[1]
        a, b = int(case[2][1]), int(case[2][2])
        c["kind:" + e[0]] += 1
        c["ends-in-curved=%d" % (int(g.in_curved_segment(e, a)) + int(g.in_curved_segment(e, b)))] += 1
        c["a<0" if a < 0 else "a>=0"] += 1
        c["b>end" if b > g.starts(e)[1] else "b<=end"] += 1
        c["edited-in-place-after-first-answers" if case[-1][0] == "prelude" else "fresh"] += 1
    return dict(sorted(c.items()))


def shrink(case):
    out = []
    e = case[1]
    pre = case[-1] if case[-1] and case[-1][0] == "prelude" else None
    case = strip(case)
    for i in range(1, len(e)):
        if len(e) > 2:
            out.append(["envq", e[:i] + e[i + 1:]] + case[2:] + ([["prelude", [pre[1][0]] + pre[1][1:i] + pre[1][i + 1:]]] if pre else []))
    if pre:
        out.append(case)
    return out


def neighbours(case):
    return shrink(case)
