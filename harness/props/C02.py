"""C02 — split_at tiles the event: the parts partition the timeline and keep its content."""
from props.m1common import *  # noqa: F401,F403
from props.m1common import alias_failure, g, sp, sx, rng_for, is_err, compare_result, shrink_tree

PID = "C02"
KERNELS = ['K_chronon_cut_out', 'K_abstf', 'K_split_child_at', 'K_split_at', 'K_event_split_at', 'K_sim_split_at']   # translated from /repo on every run, tied to the model by coq/Gen/<name>_eq.v
RUNNER = "impl_m1.py"
VM_CROSSCHECK = True
N = {"quick": 2000, "thorough": 80000}
LEVEL_RULE = ("random event trees (leaf, sequence, simultaneity roots; depth <= 4, zero-length leaves, empty containers, unequal "
              "voices); 1-4 distinct split times in [0, duration] drawn from child boundaries +-1 tick, leaf interiors, 0 and the "
              "duration, passed in random order, with and without ignore_invalid_split_point; plus a malformed stream (about 16 %: "
              "no time, negative time, time beyond the duration with and without the ignore flag, duplicate times - the latter are outside "
              "the property: only the timeline condition is required, and only for trees without a simultaneity). "
              "non-trivial = the call succeeds on distinct in-range times and a cut lies strictly inside a leaf of a nested "
              "(depth >= 2) child. 20 % of the cases place one leaf object at several positions (shared-reference stream); the returned parts are walked for events / Duration objects shared with the receiver")
ASSUMPTIONS = ASSUMPTIONS_M1
TRUSTED = TRUSTED_M1


def gen(seed, index):
    if index % 1000 == 777:
        return ["falsyleaf"]          # finding F15 (a fixed probe: a falsy leaf voice)
    rng = rng_for(PID, seed, index)
    G = g.G(rng, tags=True, tempi=True)      # containers carry tags and tempi (opaque ids in the model)
    t = G.tree(kind=rng.choice(["S", "S", "S", "P", "P", "L", None]))
    if rng.random() < 0.2:
        t = share_leaves(rng, t)
    elif rng.random() < 0.08:
        t = share_container(rng, t)
    d = g.dur(t)
    pool = [x for x in g.interesting_times(rng, t) if 0 <= x <= d] or [0]
    k = min(len(pool), rng.choice([1, 1, 2, 2, 3, 4]))
    times = rng.sample(pool, k)          # distinct, unsorted
    ign = rng.choice([0, 0, 1])
    r = rng.random()
    if r < 0.02:
        times = []
    elif r < 0.06:
        times.append(rng.choice([-1, -G.unit, -d - 1]))
    elif r < 0.10:
        times.append(d + rng.choice([1, G.unit, 2 * G.unit]))
        ign = 0
    elif r < 0.135:
        times.append(d + rng.choice([1, G.unit, 2 * G.unit]))
        if rng.random() < 0.3:
            times.append(d + 3 * G.unit)
        ign = 1
    elif r < 0.16:
        times.append(rng.choice(times))
    if r < 0.16:
        rng.shuffle(times)
    if rng.random() < 0.15:
        g.anonymise(t)          # leaves without a name: equal durations make distinct siblings ==
    return ["split_at", t, ign] + times


def share_leaves(rng, t):
    """shared reference stream: some leaves become one object referenced at several positions
    (label >= 1000 marks it for the runner; split_at is a pure operation, so the tree-as-value model applies)"""
    leaves = []

    def collect(n):
        if n[0] == "L":
            leaves.append(n)
        else:
            for c in n[3:]:
                collect(c)
    collect(t)
    if len(leaves) < 2:
        return t
    src = rng.choice(leaves)
    src[2] = 1000 + int(src[2])
    for other in rng.sample(leaves, min(len(leaves), rng.randint(1, 3))):
        other[1], other[2] = src[1], src[2]
    return t


def share_container(rng, t):
    """shared reference stream for sub-containers: one nested container object sits at two or three positions of a
    sequence (a motif used several times: Consecution([motif, motif]), [bar] * 3); the tag >= 1000 marks it for the runner"""
    import copy as _copy
    G2 = g.G(rng, tags=False, tempi=False)
    motif = ["S", 1000 + rng.randint(1, 9), 0] + [G2.leaf() for _ in range(rng.randint(1, 3))]
    for k_, c in enumerate(motif[3:]):
        c[2] = 500 + k_
    root = t if t[0] == "S" else ["S", 0, 0, t]
    for _ in range(rng.randint(2, 3)):
        root.insert(rng.randint(3, len(root)), _copy.deepcopy(motif))
    return root


def compare(case, mo, io):
    return compare_result(mo, io)


def pieces_cut(t, cuts):
    """non-zero leaves of t, divided at the cut times: sorted [(label, start, end)]"""
    out = []
    for (a, b, l, _) in sp.flat(t):
        if b <= a:
            continue
        xs = [a] + [c for c in cuts if a < c < b] + [b]
        out += [(l, x, y) for x, y in zip(xs, xs[1:])]
    return sorted(out)


def oracle(case, io, mo):
    if alias_failure(io):
        return alias_failure(io)
    t = sp.norm(case[1])
    ign = case[2] in ("1", "true", 1, True)
    times = [int(x) for x in case[3:]]
    d = sp.dur(t)
    if not times:
        return None if io[:2] == ["err", "NoSplitTimeError"] else f"no split time not rejected with NoSplitTimeError: {sx.show(io[:2])}"
    if min(times) < 0:
        return None if io[:2] == ["err", "InvalidAbsoluteTime"] else f"negative time not rejected with InvalidAbsoluteTime: {sx.show(io[:2])}"
    beyond = max(times) > d
    if beyond and not ign:
        return None if io[:2] == ["err", "SplitError"] else f"time beyond the duration not rejected with SplitError: {sx.show(io[:2])}"
    dup = len(set(times)) != len(times)
    if is_err(io):
        if dup:
            return None  # outside the property
        return f"valid split times rejected with {io[1]}"
    if io[1][0] != "parts":
        return "observation is not a tuple of parts"
    parts = [sp.norm(p) for p in io[1][1:]]
    if len(io) > 2:
        return "the event that was split was modified by the call"
    if dup and sp.has_sim(t):
        # outside the property (distinct times). Observed on /repo: a repeated time makes a sequence voice return an
        # empty extra slice and a leaf voice none, so Concurrence.split_at zips misaligned slices, e.g.
        # (split_at (P 0 0 (S 0 0 (L 6 1)) (L 3 2)) 1 2 2); the model reproduces this, nothing is required here.
        return None
    # content: the parts laid one after the other are the original timeline
    starts, o = [], 0
    for p in parts:
        starts.append(o)
        o += sp.dur(p)
    bps = set(sp.breakpoints(t)) | set(times) | {o}
    for p, s in zip(parts, starts):
        bps |= sp.breakpoints(p, s)
    for x in sp.probes(bps):
        if sp.at_seq(parts, x) != sp.at(t, x):
            return f"at time {x}: the parts have {sp.at_seq(parts, x)} active, the original {sp.at(t, x)}"
    if dup or beyond:
        return None
    for k, p in enumerate(parts):
        if sp.shape(p) != sp.shape(t):
            return f"part {k} has kind/tag/tempo {sp.shape(p)}, the original {sp.shape(t)}"
    cuts = sorted(set([0] + times + [d]))
    if d > 0:
        gaps = [b - a for a, b in zip(cuts, cuts[1:])]
        ds = [sp.dur(p) for p in parts]
        if ds != gaps and not (ds[:-1] == gaps and ds[-1] == 0):
            return f"part durations {ds} are not the gaps {gaps} between consecutive cut times"
        for p, s, n in zip(parts, cuts, gaps):
            for x in sp.probes({b - s for b in bps}):
                exp = sp.at(t, s + x) if 0 <= x < n else None
                if sp.at(p, x) != exp:
                    return f"part starting at {s}, offset {x}: active {sp.at(p, x)}, original at start+offset {exp}"
    got = sorted((l, s + a, s + b) for p, s in zip(parts, starts) for (a, b, l, _) in sp.flat(p) if a < b)
    if got != pieces_cut(t, cuts):
        return "the non-zero leaves of the parts are not the original leaves divided at the cut times (lost / duplicated / moved)"
    # zero-length leaves inside sequences are kept exactly once at their time (zero-length leaves that are a direct voice of
    # a simultaneity are dropped by Concurrence.split_at - Chronon(0).split_at returns no part - and are not required here)
    gotz = sorted(z for p, s in zip(parts, starts) for z in zero_leaves(p, s))
    if t[0] != "L" and gotz != sorted(zero_leaves(t)):
        return "zero-length leaves inside sequences are not kept exactly once at their time"
    return None


def zero_leaves(t, off=0, parent="S"):
    """[(time, label)] of the zero-length leaves that are not a direct voice of a simultaneity"""
    if t[0] == "L":
        return [(off, t[2])] if t[1] == 0 and parent != "P" else []
    out = []
    for c in sp.kids(t):
        out += zero_leaves(c, off, t[0])
        if t[0] == "S":
            off += sp.dur(c)
    return out


def nontrivial(case, io):
    if io is None or is_err(io) or len(case) < 4:
        return False
    t = case[1]
    times = [int(x) for x in case[3:]]
    if g.depth(t) < 3 or min(times) < 0 or max(times) > g.dur(t) or len(set(times)) != len(times):
        return False
    return any(a < x < b for (a, b) in g.leaf_intervals(t) for x in times)


def stats(results):
    from collections import Counter
    c = Counter()
    for r in results:
        io = r.get("io")
        case = r["case"]
        c["ok" if io and io[0] == "ok" else "err:" + (io[1] if io and len(io) > 1 else "?")] += 1
        c["root:" + case[1][0]] += 1
        c["times=%d" % (len(case) - 3)] += 1
        c["ignore=%s" % case[2]] += 1
        ts = [int(x) for x in case[3:]]
        if ts != sorted(ts):
            c["unsorted"] += 1
    return dict(sorted(c.items()))


def shrink(case):
    out = [case[:3] + case[3:i] + case[i + 1:] for i in range(3, len(case)) if len(case) > 4]
    out += [[case[0], t2] + case[2:] for t2 in shrink_tree(case[1])]
    return out


def neighbours(case):
    out = []
    for i in range(3, len(case)):
        for dx in (-1, 1):
            out.append(case[:i] + [int(case[i]) + dx] + case[i + 1:])
    out.append(case[:3] + sorted(int(x) for x in case[3:]))
    out.append(case[:2] + [1 - int(case[2])] + case[3:])
    return out + shrink(case)


EXHAUSTIVE_SPACE = ("every tree with <= 4 nodes over leaf lengths {0, 1, 2}, every single split time in -1 .. duration+1 and every "
                    "pair of distinct times in 0 .. duration, with and without ignore_invalid_split_point")


def exhaustive_cases():
    out = []
    for t in g.enumerate_trees(4, (0, 1, 2)):
        d = g.dur(t)
        for ign in (0, 1):
            for a in range(-1, d + 2):
                out.append(["split_at", t, ign, a])
            for a in range(0, d + 1):
                for b in range(a + 1, d + 1):
                    out.append(["split_at", t, ign, b, a])
    return out


# ---- the fixed probe of finding F15 (a leaf voice of a falsy user class is dropped by Concurrence.split_at)
def _probe(f, default):
    def wrapped(case, *a):
        if case[0] == "falsyleaf":
            return default(case, *a) if callable(default) else default
        return f(case, *a)
    return wrapped


def _probe_oracle(case, io, mo=None):
    if is_err(io):
        return f"[F15] split_at of a simultaneity with a falsy leaf voice raised {io[1]}"
    if [int(x) for x in io[1]] != [2, 2]:
        return f"[F15] Concurrence([Rest(2), Consecution([Chronon(1), Chronon(1)])]).split_at(1) with a leaf class whose instances are falsy (__len__ == 0): the parts have {sx.show(io[1])} voices, the leaf voice was lost"
    return None


compare = _probe(compare, None)
oracle = _probe(oracle, _probe_oracle)
nontrivial = _probe(nontrivial, False)
shrink = _probe(shrink, lambda case: [])
neighbours = _probe(neighbours, lambda case: [])
_stats0 = stats
stats = lambda results: _stats0([r for r in results if r["case"][0] != "falsyleaf"])      # noqa: E731
model_case = lambda case: ["split_at", ["L", 1, 1], 0, 0] if case[0] == "falsyleaf" else case      # noqa: E731


def known(f, case, msg, io):
    return f.get("id") == "F15" and (msg or "").startswith("[F15]")


from props import envrecv  # noqa: E402
envrecv.install(globals(), "split_at", 0.05)      # 5 % of the cases: an envelope is the receiver (judged as in C11)
