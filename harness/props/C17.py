"""C17 — equality is an equivalence that sees every observable difference."""
import copy
from props.m1common import rng_for, is_err
import sx

PID = "C17"
KERNELS = ['K_compared', 'K_event_copy']   # translated from /repo on every run, tied to the model by coq/Gen/<name>_eq.v
RUNNER = "impl_m4.py"
N = {"quick": 2500, "thorough": 80000}
VM_CROSSCHECK = True
LEVEL_RULE = ("pairs (event, event with exactly one change) over all change kinds of the property (container kind, number or order "
              "of children, a leaf's duration by >= 1 tick, a tag, an additional parameter on a leaf (changed / added / removed), "
              "the tempo of any node: bpm, or only later points of a trajectory = finding F1), identical pairs, copies, and non-events "
              "(None, numbers, plain lists, strings, objects); trees depth <= 4 with tags, tempi (direct and trajectories) and extra "
              "leaf attributes (integers, and None / string / tuple / float values), a leaf against a container holding exactly that leaf, the plain list of an event's own children as non-event; after the comparisons a copy gets a NEW parameter / an edited first tempo point and must compare unequal. Observed: a==b, b==a, a!=b, b!=a, reflexivity, copy()==source, destructive_copy()==source. "
              "non-trivial = the change is located at depth >= 2")
ASSUMPTIONS = ["attribute values are modelled as integers (each non-numeric value used by the generator stands for one distinct negative integer), attribute names as identifiers; tempo equality as the code defines it (bpm at time 0)",
               "the model is tied to /repo by this run's differential correspondence (sampled)"]
TRUSTED = ["harness/impl_m4.py (builds the objects, evaluates ==/!= both ways, copies)"]
U = 2500000000


def tempo(rng):
    r = rng.random()
    if r < 0.6:
        return [60]
    if r < 0.8:
        return [rng.choice([30, 90, 120])]
    return [rng.choice([60, 90])] + [[(i + 1) * U * 4, rng.choice([30, 60, 120]), rng.choice([0, 1])] for i in range(rng.randint(1, 2))]


def tree(rng, depth):
    if depth == 0 or rng.random() < 0.3:
        extra = sorted(set(rng.randint(1, 4) for _ in range(rng.choice([0, 0, 1, 2]))))
        return ["L", rng.randint(0, 5) * U, rng.choice([0, 0, 1, 2]), tempo(rng), [[n, rng.choice([0, 1, 2, 3, 3, -1, -1, -2, -3, -4, -5, -6, -7] + ([-8] if rng.random() < 0.03 else []))] for n in extra]]
    return [rng.choice("SSP"), rng.choice([0, 0, 1, 2]), tempo(rng)] + [tree(rng, depth - 1) for _ in range(rng.choice([0, 1, 2, 3]))]


def nodes(t, path=()):
    out = [(path, t)]
    if t[0] in "SP":
        for i, c in enumerate(t[3:]):
            out += nodes(c, path + (i,))
    return out


def replace(t, path, new):
    if not path:
        return new
    t = list(t)
    t[3 + path[0]] = replace(t[3 + path[0]], path[1:], new)
    return t


def mutate(rng, t):
    """returns (mutant, kind, depth) or None"""
    ns = nodes(t)
    rng.shuffle(ns)
    if rng.random() < 0.65:
        ns.sort(key=lambda x: -len(x[0]))   # prefer deep locations
    kinds = ["kind", "count+", "count-", "order", "duration", "tag", "extra-value", "extra-add", "extra-del", "tempo-bpm", "tempo-rest"]
    rng.shuffle(kinds)
    for k in kinds:
        for path, n in ns:
            n2 = copy.deepcopy(n)
            if k == "kind" and n[0] in "SP":
                n2[0] = "P" if n[0] == "S" else "S"
            elif k == "count+" and n[0] in "SP":
                n2.insert(3 + rng.randint(0, len(n) - 3), ["L", U, 0, [60], []])
            elif k == "count-" and n[0] in "SP" and len(n) > 3:
                del n2[3 + rng.randrange(len(n) - 3)]
            elif k == "order" and n[0] in "SP" and len(n) > 4:
                i = rng.randrange(len(n) - 4)
                if sx.show(n[3 + i]) == sx.show(n[4 + i]):
                    continue
                n2[3 + i], n2[4 + i] = n2[4 + i], n2[3 + i]
            elif k == "duration" and n[0] == "L":
                n2[1] = n[1] + rng.choice([1, U, 3])
            elif k == "tag":
                idx = 2 if n[0] == "L" else 1
                n2[idx] = (n[idx] + 1) % 3 if (n[idx] + 1) % 3 != n[idx] else n[idx] + 1
            elif k == "extra-value" and n[0] == "L" and n[4]:
                n2[4][0] = [n[4][0][0], n[4][0][1] + 1]
            elif k == "extra-add" and n[0] == "L":
                used = [a for a, _ in n[4]]
                n2[4] = sorted(n[4] + [[max(used + [0]) + 1, 1]])
            elif k == "extra-del" and n[0] == "L" and n[4]:
                n2[4] = n[4][1:]
            elif k == "tempo-bpm":
                idx = 3 if n[0] == "L" else 2
                if n[idx][0] < 1000 and rng.random() < 0.4:
                    # a small difference: a few hundredths of a bpm (codes from 1000 on are thousandths of a bpm)
                    n2[idx] = [n[idx][0] * 1000 + rng.choice([10, 40, 500])] + n[idx][1:]
                else:
                    n2[idx] = [n[idx][0] + 7] + n[idx][1:]
            elif k == "tempo-rest":
                idx = 3 if n[0] == "L" else 2
                if len(n[idx]) < 2:
                    continue
                p = n[idx][1]
                n2[idx] = [n[idx][0], [p[0], p[1] + 13, p[2]]] + n[idx][2:]
            else:
                continue
            return replace(t, path, n2), k, len(path)
    return None


def gen(seed, index):
    rng = rng_for(PID, seed, index)
    a = tree(rng, rng.choice([1, 2, 3, 3, 4]))
    r = rng.random()
    if r < 0.12:
        return ["eq", a, copy.deepcopy(a), "same", 0]
    if r < 0.22:
        # a non-event; code 100 = the plain list of the event's own children (list.__eq__ would say True to it)
        return ["eq", a, ["N", rng.choice([0, 1, 2, 3, 4, 5, 6, 100, 100])], "non-event", 0]
    if r < 0.30:
        # a leaf against a container that holds exactly that leaf (same tag and tempo, same total duration), both ways
        leaf = ["L", rng.randint(0, 5) * U, rng.choice([0, 1]), [rng.choice([60, 90])], []]
        cont = [rng.choice("SP"), leaf[2], list(leaf[3]), copy.deepcopy(leaf)] if rng.random() < 0.7 else [rng.choice("SP"), leaf[2], list(leaf[3])]
        pair = [leaf, cont]
        rng.shuffle(pair)
        return ["eq", pair[0], pair[1], "leaf-vs-container", 1]
    m = mutate(rng, a)
    if m is None:
        return ["eq", a, copy.deepcopy(a), "same", 0]
    b, k, d = m
    if rng.random() < 0.5:
        a, b = b, a
    return ["eq", a, b, k, d]


def model_case(case):
    return case[:3]


def has_nan(case):
    """a parameter value that is not equal to itself (code -8 = float('nan')): finding F14"""
    return "-8" in sx.show(case[1]).replace("(", " ").replace(")", " ").split() or "-8" in sx.show(case[2]).replace("(", " ").replace(")", " ").split()


def compare(case, mo, io):
    m = compare1(case, mo, io)
    return ("[F14] " + m) if m and has_nan(case) else m


def compare1(case, mo, io):
    if is_err(io):
        return f"comparison raised {io[1]}"
    return None if mo[:5] == io[:5] else f"model {sx.show(mo[:5])} impl {sx.show(io[:5])}"


def oracle(case, io, mo):
    m = oracle1(case, io, mo)
    return ("[F14] " + m) if m and has_nan(case) and not m.startswith("[F1]") else m


def oracle1(case, io, mo):
    if is_err(io):
        return f"comparison raised {io[1]} instead of returning a bool"
    kind = case[3]
    e1, e2, n1, n2 = io[1:5]
    if any(x not in ("0", "1") for x in (e1, e2, n1, n2)):
        return "== / != did not return a bool"
    if e1 != e2:
        return f"not symmetric: a==b is {e1}, b==a is {e2}"
    if n1 == e1 or n2 == e2:
        return "!= is not the negation of =="
    flags = io[5][1:] if len(io) > 5 else []
    if flags:
        return "equality: " + " ".join(flags)
    if kind == "same" and e1 != "1":
        return "two identical events compare unequal"
    if kind == "non-event" and e1 != "0":
        return "an event equals a non-event"
    if kind not in ("same", "non-event") and e1 != "0":
        if kind == "tempo-rest" or first_bpm_only(case[1]) == first_bpm_only(case[2]):
            # the single change (here possibly a swap of two children) is only visible in tempo points after time 0
            return "[F1] events differing only in tempo points after time 0 compare equal"
        return f"events differing in {kind} compare equal"
    return None


def first_bpm_only(t):
    """the tree with every tempo reduced to its bpm at time 0"""
    if t[0] == "L":
        return [t[0], t[1], t[2], t[3][:1], t[4]]
    if t[0] in ("S", "P"):
        return [t[0], t[1], t[2][:1]] + [first_bpm_only(c) for c in t[3:]]
    return t


def known(f, case, msg, io):
    return (f.get("id") == "F1" and (msg or "").startswith("[F1]")) or (f.get("id") == "F14" and (msg or "").startswith("[F14]"))


def known_dis(f, case, msg, io, mo=None):
    return f.get("id") == "F14" and (msg or "").startswith("[F14]")


def nontrivial(case, io):
    return case[3] not in ("same", "non-event") and int(case[4]) >= 2


def stats(results):
    from collections import Counter
    c = Counter()
    for r in results:
        c["change:" + str(r["case"][3])] += 1
        c["depth-of-change=%s" % r["case"][4]] += 1
    return dict(sorted(c.items()))


def shrink(case):
    return []


def neighbours(case):
    return []
