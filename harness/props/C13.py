"""C13 — metrize bakes tempi into durations, once, and leaves neutral tempo behind."""
import math
from props.m2common import *  # noqa: F401,F403
from props.m2common import g, g1, sx, rng_for, fl, close, same, is_err, env_points, TICK
from props.C07 import sec_env, simpson

PID = "C13"
KERNELS = ['K_tempo_seconds']   # translated from /repo on every run, tied to the model by coq/Gen/<name>_eq.v
RUNNER = "impl_m2.py"
N = {"quick": 700, "thorough": 25000}
LEVEL_RULE = ("event trees (depth <= 3, sequences and simultaneities) whose nodes (leaves included) carry a tempo: constant tempi on a "
              "random subset of nodes, at most one trajectory (2-5 points, curved; a quarter of those with >= 3 points leave 60 bpm and return to it) per root-to-leaf path; plus a mixed stream with a "
              "trajectory below a trajectory: half of it step curves on every level (modelled by the step model of Model/MetrizeSteps.v: pieces between tempo changes, products of the levels), the other half curved (outside the model: only the implementation-side clauses are checked there). "
              "EventToMetrizedEvent.convert, the in-place metrize() on a copy, and a second metrize are run. "
              "non-trivial = at least two tempo-carrying nodes on one path, or a trajectory node")
ASSUMPTIONS = ASSUMPTIONS_M2 + ["metrize model: constant tempi multiply, one trajectory per path integrates; a trajectory below a trajectory is modelled when all trajectories on the path are step curves (metrize2), otherwise the model returns an error and the case is checked by the oracle only",
                                "every pass rounds durations to 1e-10, so results are compared within 1e-9 relative + (depth+1)*2e-10 s"]
TRUSTED = TRUSTED_M2


def gen(seed, index):
    rng = rng_for(PID, seed, index)
    unit = rng.choice([2500000000, 5000000000, 10000000000])
    mixed = rng.random() < 0.16
    steps = mixed and rng.random() < 0.5     # every trajectory of the tree is a step curve (piecewise constant, jumps in between)
    p_const = rng.choice([0.0, 0.3, 0.5, 0.8])
    p_traj = rng.choice([0.0, 0.15, 0.3])

    def primo(e):
        # "a tempo": a trajectory that leaves the neutral tempo and returns to it (first and last point 60 bpm)
        if len(e) >= 4 and rng.random() < 0.25:
            e[1][1] = g.hexf(60)
            e[-1][1] = g.hexf(60)
            if all(fl(p[1]) == 60 for p in e[2:-1]):
                e[2][1] = g.hexf(rng.choice([30, 90, 120]))
        return e

    def step_curve(span):
        n = rng.randint(2, 4)
        u = max(1, span // n // 2)
        pts = []
        for i in range(n):
            b = g.hexf(rng.choice([30, 40, 60, 90, 120, 240]))
            pts += [[rng.randint(1, 3) * u, b, g.hexf(0)], [0, b, g.hexf(0)]]
        return ["J"] + pts

    def tempo(has_traj, span):
        r = rng.random()
        if steps and r < max(p_traj, 0.3) and span > 0:
            return step_curve(span), True
        if r < p_traj and (mixed or not has_traj) and span > 0:
            n = rng.randint(2, 4)
            GE = g.GE(rng, kind="T", unit=max(1, span // n // 2), shapes=[0, 0.5, -0.5, 1, -1, 2, -2], last_positive=False, jumps=rng.choice([0, 0.2]))
            e = primo(GE.env(n))
            return ["J"] + e[1:], True
        if r < p_traj + p_const:
            b = rng.choice([30, 40, 90, 120, 47.5, 60, 60])
            if rng.random() < 0.2 and (mixed or not has_traj) and span > 0:
                # the same constant tempo written as a static trajectory (two points, equal bpm)
                return ["J", [max(1, span // 2), g.hexf(b), g.hexf(0)], [0, g.hexf(b), g.hexf(0)]], True
            return ["C", g.hexf(b)], has_traj
        return ["C", g.hexf(60)], has_traj

    def tree(depth, has_traj):
        r = rng.random()
        if depth == 0 or r < 0.3:
            d = 0 if rng.random() < 0.08 else rng.randint(1, 5) * unit       # (a grace note / marker of length 0 carries a tempo too)
            tp, _ = tempo(has_traj, d)
            return ["L", d, tp], d
        kind = "P" if r > 0.75 else "S"
        kids, durs = [], []
        # decide this node's tempo after knowing its span: generate children with a provisional flag
        n = rng.choice([1, 2, 2, 3, 0]) if depth >= 1 and rng.random() < 0.3 else rng.choice([1, 2, 2, 3])
        # first decide whether this node carries a trajectory
        provisional = has_traj
        node_traj = (rng.random() < p_traj) and (mixed or not has_traj)
        for _ in range(n):
            k, d = tree(depth - 1, has_traj or node_traj)
            kids.append(k)
            durs.append(d)
        span = sum(durs) if kind == "S" else max(durs, default=0)
        if steps and rng.random() < 0.5 and span > 0:
            tp = step_curve(span)
        elif node_traj:
            nn = rng.randint(2, 4)
            GE = g.GE(rng, kind="T", unit=max(1, span // nn // 2), shapes=[0, 0.5, -0.5, 1, -1, 2, -2], last_positive=False, jumps=rng.choice([0, 0.2]))
            tp = ["J"] + primo(GE.env(nn))[1:]
        else:
            tp, _ = tempo(True, span)  # constant only
        return [kind, tp] + kids, span

    t, _ = tree(rng.choice([1, 2, 2, 3]), False)
    return ["metrize", t]


def compare(case, mo, io):
    if is_err(mo) and mo[1] == "ValueError":
        return None   # trajectory below a trajectory: outside the model
    if is_err(mo) or is_err(io):
        return None if mo[:2] == io[:2] else f"outcome differs: model {sx.show(mo[:2])} impl {sx.show(io[:2])}"
    d = depth(case[1])
    if not same(mo[1], io[1], rel=1e-9, abs_=2e-10 * (d + 1) * 40):
        return f"metrized durations differ: model {sx.show(mo[1])[:200]} impl {sx.show(io[1])[:200]}"
    return None


def depth(t):
    return 1 if t[0] == "L" else 1 + max([depth(c) for c in t[2:]], default=0)


def paths(t, acc=()):
    """for every leaf: (duration, tempi on its path root..leaf inclusive)"""
    if t[0] == "L":
        return [(int(t[1]), acc + (t[2],))]
    out = []
    for c in t[2:]:
        out += paths(c, acc + (t[1],))
    return out


def oracle(case, io, mo):
    if is_err(io):
        return f"metrize raised {io[1]}"
    flags = io[2][1:]
    if flags:
        return "metrize: " + " ".join(flags)
    leaves = paths(case[1])
    res = [fl(x) for x in io[1]]
    if len(res) != len(leaves):
        return "structure changed (leaf count)"
    if all(all(tp[0] == "C" for tp in tps) for _, tps in leaves):
        for (d, tps), got in zip(leaves, res):
            exp = d / TICK
            for tp in tps:
                exp *= 60.0 / fl(tp[1])
            if abs(got - exp) > 1e-9 * max(1, exp) + 2e-10 * (len(tps) + 1) * 40:
                return f"constant tempi {[fl(tp[1]) for tp in tps]}: leaf of {d / TICK} beats lasts {got!r}, the product formula gives {exp!r}"
    # trajectories as the only non-neutral tempi (at most one per path, every constant tempo 60): every leaf below a
    # trajectory node lasts what tempo conversion with that node's tempo gives it (its span counted from the node's
    # start), every other leaf keeps its length - wherever in the tree the node sits
    # ... and for constants and ONE trajectory on the path in any arrangement: the product of the curves on the path
    for k, (ws, got) in enumerate(zip(expected_any_nesting(case[1]), res)):
        if ws is None:
            continue
        want, steep = ws
        if abs(got - want) > 2e-5 * steep ** 4 * max(1.0, abs(want)) + 1e-9:
            return (f"leaf {k} lasts {got!r}; the integral over its beats of the product of 60/bpm of all tempo-carrying nodes on its "
                    f"path (each curve counted from its node's start) is {want!r}")
    t = case[1]
    consts_neutral = all(all(fl(tp[1]) == 60 for tp in tps if tp[0] == "C") for _, tps in leaves)
    one_per_path = all(sum(1 for tp in tps if tp[0] == "J") <= 1 for _, tps in leaves)
    if consts_neutral and one_per_path and any(tp[0] == "J" for _, tps in leaves for tp in tps):
        exp = []

        def walk(n, off, senv, steep):
            tp = n[2] if n[0] == "L" else n[1]
            if tp[0] == "J":
                senv, off = sec_env(["T"] + tp[1:]), 0
                steep = max([abs(fl(p[2])) for p in tp[1:]] + [1])
            if n[0] == "L":
                d = int(n[1])
                exp.append((off, off + d, senv, steep))
                return
            o = off
            for c in n[2:]:
                walk(c, o, senv, steep)
                if n[0] == "S":
                    o += tdur(c)

        walk(t, 0, None, 1)
        for (a, b, senv, steep), got in zip(exp, res):
            want = (b - a) / TICK if senv is None else simpson(senv, a, b)
            if abs(got - want) > 2e-5 * steep ** 4 * max(1.0, abs(want)) + 1e-9:
                where = "outside every trajectory" if senv is None else "below a trajectory node"
                return f"single tempo node: leaf over [{a}, {b}) ({where}) lasts {got!r}, tempo conversion with that node's tempo gives {want!r}"
    return None


def expected_any_nesting(t):
    """the full reading of the property for ANY assignment of tempi: a leaf over the beats [a, b) lasts the integral of the
    product of 60 / bpm over all tempo-carrying nodes on its path, each node's curve running from that node's start.
    Composite Simpson, split at every control point of every trajectory on the path.  Returns [(seconds, steepness)]."""
    from props.m2common import ref_value_at
    out = []

    def walk(n, off, const, envs):
        tp = n[2] if n[0] == "L" else n[1]
        if tp[0] == "J":
            envs = envs + [(sec_env(["T"] + tp[1:]), off, max([abs(fl(p[2])) for p in tp[1:]] + [1]))]
        else:
            const = const * 60.0 / fl(tp[1])
        if n[0] == "L":
            a, b = off, off + int(n[1])
            cuts = {a, b}
            for (env, start, _) in envs:
                tt = 0
                for p in env[1:]:
                    if a < start + tt < b:
                        cuts.add(start + tt)
                    tt += int(p[0])
            cuts = sorted(cuts)
            tot = 0.0
            for u, v in zip(cuts, cuts[1:]):
                m = 16
                h = (v - u) / m
                ys = []
                for i in range(m + 1):
                    x = u + i * h
                    if i == 0:
                        x = u + min(1, (v - u) / 4)
                    if i == m:
                        x = v - min(1, (v - u) / 4)
                    y = 1.0
                    for (env, start, _) in envs:
                        y *= ref_value_at(env, x - start)
                    ys.append(y)
                tot += (ys[0] + ys[-1] + 4 * sum(ys[1:-1:2]) + 2 * sum(ys[2:-1:2])) * (h / TICK) / 3
            # two trajectories on one path: the implementation re-times the inner trajectory's control points through the
            # outer conversion (the interpolation between them is not the exact composition); the property does not decide it
            # ... unless all of them are step curves: every piece of the leaf then lies under constant tempi, which multiply
            decided = len(envs) <= 1 or all(is_step(env) for (env, _, _) in envs)
            out.append((const * tot, max([s_ for (_, _, s_) in envs] + [1])) if decided else None)
            return
        o = off
        for c in n[2:]:
            walk(c, o, const, envs)
            if n[0] == "S":
                o += tdur(c)

    walk(t, 0, 1.0, [])
    return out


def is_step(env):
    """piecewise constant: every segment of positive length joins two equal values"""
    pts = env[1:]
    return all(int(p[0]) == 0 or fl(p[1]) == fl(q[1]) for p, q in zip(pts, pts[1:]))


def spans_t(t, off=0):
    if t[0] == "L":
        return [(off, off + int(t[1]))]
    out = []
    if t[0] == "S":
        for c in t[2:]:
            out += spans_t(c, off)
            off += tdur(c)
    else:
        for c in t[2:]:
            out += spans_t(c, off)
    return out


def tdur(t):
    if t[0] == "L":
        return int(t[1])
    ds = [tdur(c) for c in t[2:]]
    return sum(ds) if t[0] == "S" else max(ds, default=0)


def nontrivial(case, io):
    for _, tps in paths(case[1]):
        nonneutral = [tp for tp in tps if not (tp[0] == "C" and fl(tp[1]) == 60)]
        if len(nonneutral) >= 2 or any(tp[0] == "J" for tp in tps):
            return True
    return False


def stats(results):
    from collections import Counter
    c = Counter()
    for r in results:
        case = r["case"]
        ps = paths(case[1])
        kinds = set()
        for _, tps in ps:
            nj = sum(1 for tp in tps if tp[0] == "J")
            kinds.add("traj-under-traj" if nj >= 2 else "one-traj" if nj == 1 else "const")
        for k in kinds:
            c[k] += 1
        mo = r.get("mo")
        if mo and is_err(mo):
            c["model:" + mo[1]] += 1
    return dict(sorted(c.items()))


def shrink(case):
    def rec(t):
        out = []
        if t[0] == "L":
            return out
        ks = t[2:]
        for i in range(len(ks)):
            if len(ks) > 1:
                out.append(t[:2] + ks[:i] + ks[i + 1:])
            for c2 in rec(ks[i]):
                out.append(t[:2] + ks[:i] + [c2] + ks[i + 1:])
        return out
    return [["metrize", t2] for t2 in rec(case[1])]


def neighbours(case):
    return shrink(case)
