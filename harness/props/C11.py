"""C11 — re-sampling, cutting, splitting or extending an envelope keeps its curve."""
from props.m2common import *  # noqa: F401,F403
from props.m2common import g, sx, rng_for, fl, close, same, is_err, env_points

PID = "C11"
KERNELS = ['K_scale', 'K_env_extend_until', 'K_squash_in', 'K_value_at', 'K_env_reads', 'K_sample_at', 'K_env_cut', 'K_env_split_at', 'K_env_chain2']   # translated from /repo on every run, tied to the model by coq/Gen/<name>_eq.v
RUNNER = "impl_m2.py"
N = {"quick": 1500, "thorough": 50000}
LEVEL_RULE = ("envelopes (plain and FlexTempo) as C08; one edit per case: sample_at(t, append), extend_until(d), cut_out(a, b), "
              "cut_off(a, b), split_at(times), and (15 %) histories of 2-4 in-place edits on one envelope object, every step judged like a single edit against a rebuild of the state before it; positions strictly inside curved segments or inside the last segment in >= 50 % of "
              "the cases, on control points, before 0 / beyond the end, plus a malformed stream. The runner compares value_at of the "
              "result with value_at of an untouched copy on a grid of 41 offsets + every control point (kept parts only). "
              "non-trivial = the edit succeeds and a position lies strictly inside a curved segment or the last segment")
ASSUMPTIONS = ASSUMPTIONS_M2
TRUSTED = TRUSTED_M2
TOL = 2e-8


def gen(seed, index):
    rng = rng_for(PID, seed, index)
    G = g.GE(rng)
    e = G.env(rng.randint(1, 6))
    if rng.random() < 0.15:
        return gen_history(rng, G, e)
    k = rng.choice(["sample_at", "sample_at", "extend_until", "cut_out", "cut_out", "cut_off", "cut_off", "split_at", "split_at"])

    def t(bad=0.08):
        x = g.pick_time(rng, e, allow_bad=rng.random() < bad, inside_bias=0.65)
        while g.near_jump(e, x):
            x = g.pick_time(rng, e, allow_bad=False, inside_bias=0.65)
        return x

    if k == "sample_at":
        op = [k, t(), rng.choice([0, 0, 0, G.unit])]
    elif k == "extend_until":
        op = [k, t()]
    elif k in ("cut_out", "cut_off"):
        a, b = t(), t()
        if a > b and rng.random() < 0.93:
            a, b = b, a
        st, total = g.starts(e)
        jumps = sorted(set(x for x in st if st.count(x) >= 2 and x > 0))
        if jumps and rng.random() < 0.3:
            # a range that starts or ends exactly on a jump (two control points sharing a time)
            if rng.random() < 0.7:
                a = rng.choice(jumps)
                b = max(b, a + rng.choice([1, G.unit]))
            else:
                b = rng.choice(jumps)
                a = min(a, max(0, b - rng.choice([1, G.unit])))
        op = [k, a, b]
    else:
        n = rng.choice([0, 1, 1, 2, 3]) if rng.random() < 0.15 else rng.choice([1, 1, 2, 3])
        ts = sorted(set(t() for _ in range(n)))
        rng.shuffle(ts)
        op = [k, rng.choice([0, 0, 0, 1])] + ts
    return ["envop", e, op]


def gen_history(rng, G, e):
    """history stream: 2-4 in-place edits on ONE envelope object (the result of an edit is an envelope like any other)"""
    st, total = g.starts(e)
    dur = total
    ops = []
    half = max(1, G.unit // 2)
    for _ in range(rng.randint(2, 4)):
        k = rng.choice(["sample_at", "extend_until", "cut_out", "cut_out", "cut_off"])

        def t(lo, hi):
            return rng.randint(lo // half, max(lo // half, hi // half)) * half + rng.choice([0, 0, 0, 1])

        if k == "sample_at":
            x = t(0, dur + 2 * G.unit)
            ops.append([k, x, 0])
            dur = max(dur, x)
        elif k == "extend_until":
            x = t(0, dur + 2 * G.unit)
            ops.append([k, x])
            dur = max(dur, x)
        elif k == "cut_out":
            a = t(0, dur)
            b = a + rng.choice([1, 2, 3]) * half if rng.random() < 0.6 else max(a + 1, rng.choice([dur, dur, dur + G.unit]))
            ops.append([k, a, b])
            dur = b - a
        else:
            a = t(0, dur)
            b = a + rng.choice([1, 2, 3]) * half
            ops.append([k, a, b])
            if a < dur:
                dur = dur - (min(b, dur) - a)
    return ["envhist", e] + ops


def compare(case, mo, io):
    if case[0] == "envhist":
        if len(mo) != len(io):
            return f"history: model answers {len(mo) - 1} steps, implementation {len(io) - 1}"
        for k, (a, b) in enumerate(zip(mo[1:], io[1:])):
            d = compare(["envop", case[1], case[2 + k]], a, b)
            if d:
                return f"step {k} {sx.show(case[2 + k])}: {d}"
        return None
    if is_err(mo) or is_err(io):
        a, b = mo[:2], io[:2]
        if a != b and not (a[1] == "EmptyEnvelopeError" and b[1] == "RecursionError"):
            return f"outcome differs: model {sx.show(a)} impl {sx.show(b)}"
        return None
    if not same(mo[1], io[1], rel=TOL, abs_=1e-12):
        return f"control points of the result differ: model {sx.show(mo[1])[:300]} impl {sx.show(io[1])[:300]}"
    return None


def times_of(env):
    out, t = [], 0
    for p in env[1:]:
        out.append(t)
        t += int(p[0])
    return out


def oracle(case, io, mo):
    if case[0] == "envhist":
        prev = case[1]
        for k, (op, step) in enumerate(zip(case[2:], io[1:])):
            m = oracle(["envop", prev, op], step, None)
            if m:
                return f"step {k} on the envelope left by the earlier edits {sx.show(prev)[:200]}: {m}"
            if is_err(step):
                break
            prev = [case[1][0]] + step[1][1:]
        return None
    e, op = case[1], case[2]
    k = op[0]
    pts, durs, total = env_points(e)
    if is_err(io):
        # documented rejections only
        if k in ("sample_at", "extend_until"):
            ok = int(op[1]) < 0
        elif k == "cut_out":
            ok = int(op[1]) < 0 or int(op[2]) < int(op[1])
        elif k == "cut_off":
            ok = int(op[1]) < 0 or int(op[2]) <= int(op[1])
        else:
            ts = [int(x) for x in op[2:]]
            ok = (not ts) or min(ts) < 0 or (max(ts) > total and op[1] in ("0", 0)) or len(set(ts)) != len(ts)
        return None if ok else f"{k} with valid arguments raised {io[1]}"
    grid = None
    for x in io[2:]:
        if x and x[0] == "grid":
            grid = x[1:]
        if x and x[0] == "recv-changed":
            return "splitting changed the original envelope"
    if grid is None:
        return "no grid"
    for x in io[2:]:
        if x and x[0] == "followup" and x[1] != "ok":
            if x[1] == "misplaced":
                return (f"{k}: the returned envelope holds one event object twice: a control point added one beat after its end "
                        f"(at {x[2]}) lands elsewhere, point times afterwards {x[3]}")
            return f"{k}: follow-up sample_at on the returned envelope: {x[1:]}"
    scale = max([1.0] + [abs(p[1]) for p in pts])
    f6 = None
    for row in grid:
        x, vr, vo = int(row[0]), fl(row[1]), fl(row[2])
        if abs(vr - vo) > TOL * scale:
            if len(row) > 3:
                # exactly on a time shared by two control points the curve is two-valued: known finding F6
                f6 = f"[F6] {k}: at the jump instant {x} the piece reports {vr!r}, value_at of the original reports {vo!r}"
                continue
            return f"{k}: value {vr!r} at offset {x} of the result, the original curve has {vo!r} there"
    if k in ("sample_at", "extend_until") and int(op[1]) >= 0:
        if int(op[1]) not in times_of(io[1]):
            return f"{k}: no control point exactly at {op[1]} afterwards"
    if k == "cut_out":
        s_, e_ = int(op[1]), int(op[2])
        r = io[1]
        if sum(int(p[0]) for p in r[1:]) != e_ - s_ and e_ > s_:
            return f"cut_out: duration {sum(int(p[0]) for p in r[1:])} of the piece is not end - start = {e_ - s_}"
    if k == "split_at":
        ts = sorted(set([0] + [int(x) for x in op[2:]]))
        parts = io[1][1:]
        if all(0 <= x <= total for x in ts) and len(set(int(x) for x in op[2:])) == len(op) - 2:
            ds = [sum(int(p[0]) for p in part[1:]) for part in parts]
            cuts = sorted(set(ts + [total]))
            gaps = [b - a for a, b in zip(cuts, cuts[1:])]
            if ds != gaps and ds != gaps + [0] and not (total == 0):
                return f"split_at: part durations {ds} are not the gaps {gaps} between the cut times"
    return f6


def known(f, case, msg, io):
    return f.get("id") == "F6" and ((msg or "").startswith("[F6]") or ((msg or "").startswith("step ") and ": [F6] " in (msg or "")))


def nontrivial(case, io):
    if case[0] == "envhist":
        return io is not None and len(io) >= 3 and not any(is_err(x) for x in io[1:])
    if io is None or is_err(io):
        return False
    e, op = case[1], case[2]
    pts, durs, total = env_points(e)
    ts = [int(x) for x in (op[1:3] if op[0] in ("cut_out", "cut_off") else op[1:2] if op[0] in ("sample_at", "extend_until") else op[2:])]
    last_start = pts[-1][0]
    prev = pts[-2][0] if len(pts) > 1 else 0
    return any(g.in_curved_segment(e, t) or (prev < t < last_start) for t in ts)


def stats(results):
    from collections import Counter
    c = Counter()
    for r in results:
        case = r["case"]
        io = r.get("io")
        if case[0] == "envhist":
            c["history:steps=%d" % (len(case) - 2)] += 1
            c["kind:" + case[1][0]] += 1
            continue
        c[case[2][0] + (":err:" + io[1] if io and is_err(io) else ":ok")] += 1
        c["kind:" + case[1][0]] += 1
    return dict(sorted(c.items()))


def shrink(case):
    out = []
    e = case[1]
    if case[0] == "envhist":
        return [case[:2] + case[2:2 + i] + case[3 + i:] for i in range(len(case) - 2) if len(case) > 3]
    for i in range(1, len(e)):
        if len(e) > 2:
            out.append(["envop", e[:i] + e[i + 1:], case[2]])
    return out


def neighbours(case):
    if case[0] == "envhist":
        return shrink(case)
    out = shrink(case)
    op = case[2]
    if op[0] in ("cut_out", "cut_off"):
        for da in (-1, 0, 1):
            for db in (-1, 0, 1):
                out.append(["envop", case[1], [op[0], int(op[1]) + da, int(op[2]) + db]])
    return out
