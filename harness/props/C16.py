"""C16 — bulk edits touch every distinct child exactly once and rescale proportionally."""
from fractions import Fraction
from props.m1common import rng_for, is_err
import sx

PID = "C16"
KERNELS = ['K_leaf_set', 'K_apply_once_step', 'K_set_duration', 'K_get_parameter']   # translated from /repo on every run, tied to the model by coq/Gen/<name>_eq.v
RUNNER = "impl_m3.py"
N = {"quick": 2500, "thorough": 80000}
VM_CROSSCHECK = True
LEVEL_RULE = ("DAG-shaped event trees: the same leaf object and the same sub-container object referenced several times, at "
              "different depths (ids mark identity), depth <= 4; a parameter defined on all / some / no leaves. Case kinds: "
              "set_parameter with a function (call counter) or a plain value, with and without set_unassigned_parameter; "
              "mutate_parameter on mutable values; get_parameter flat / nested, with and without filter_undefined; assigning a "
              "duration to the container (ints, fractions of a beat; zero total; empty container). "
              "non-trivial = an object is referenced at >= 2 positions")
ASSUMPTIONS = ["object identity is modelled by ids; a heap maps a leaf id to the parameter value / duration",
               "duration rescaling is modelled as exact rational scaling rounded half-even to a tick; results within 1e-4 tick of a tie are excluded by the generator",
               "the model is tied to /repo by this run's differential correspondence (sampled)"]
TRUSTED = ["harness/impl_m3.py (builds the shared object graph, counts calls per object)"]
U = 2500000000
TICK = 10**10


def gen_tree(rng):
    """returns tree with shared objects; ids unique per object"""
    counter = [0]
    pool_leaves, pool_nodes = [], []

    def new_id():
        counter[0] += 1
        return counter[0]

    def node(depth):
        r = rng.random()
        if pool_leaves and r < 0.22:
            return rng.choice(pool_leaves)
        if pool_nodes and r < 0.3 and depth < 3:
            return rng.choice(pool_nodes)
        if depth == 0 or r < 0.55:
            l = ["l", new_id()]
            pool_leaves.append(l)
            return l
        kids = [node(depth - 1) for _ in range(rng.choice([0, 1, 2, 3]))]
        n = [rng.choice("ssp"), new_id()] + kids
        pool_nodes.append(n)
        return n

    kids = [node(rng.choice([1, 2, 3])) for _ in range(rng.choice([0, 1, 2, 3, 4]))]
    return [rng.choice("ssp"), 0] + kids


def positions(t):
    if t[0] == "l":
        return [int(t[1])]
    out = []
    for c in t[2:]:
        out += positions(c)
    return out


def dur_of(t, d):
    if t[0] == "l":
        return d[int(t[1])]
    ds = [dur_of(c, d) for c in t[2:]]
    return sum(ds) if t[0] == "s" else max(ds, default=0)


def rhe(q):
    f = q.numerator // q.denominator
    r = q - f
    if r < Fraction(1, 2):
        return f
    if r > Fraction(1, 2):
        return f + 1
    return f if f % 2 == 0 else f + 1


def gen(seed, index):
    rng = rng_for(PID, seed, index)
    t = gen_tree(rng)
    ids = sorted(set(positions(t)))
    k = rng.choice(["setp", "setp", "mutp", "getp", "getp", "setdur", "setdur"])
    p_def = rng.choice([0.0, 0.5, 1.0, 1.0])
    heap = [[i, rng.randint(0, 9) if rng.random() < p_def else "none"] for i in ids]
    if k == "setp":
        return ["setp", t, rng.choice([0, 1]), rng.choice([["const", rng.randint(1, 8)], ["addc", rng.randint(1, 5)], ["mul", rng.randint(2, 3)]]), heap]
    if k == "mutp":
        return ["mutp", t, 0, ["addc", rng.randint(1, 5)], heap]
    if k == "getp":
        return ["getp", t, rng.choice([0, 1]), rng.choice([0, 1]), heap]
    for _ in range(30):
        dh = [[i, rng.choice([0, 1, 1, 2, 3, 5]) * U] for i in ids]
        if rng.random() < 0.1:
            dh = [[i, 0] for i in ids]
        new = rng.choice([1, 2, 3, 4, 7, 10, Fraction(1, 3), Fraction(7, 3), Fraction(5, 2)])
        new_t = rhe(Fraction(new) * TICK)
        d = {i: v for i, v in dh}
        old = dur_of(t, d)
        if old == 0 and len(t) > 2 and abs((Fraction(new_t, len(t) - 2) % 1) - Fraction(1, 2)) < Fraction(1, 10000):
            continue
        if old != 0 and any(abs((Fraction(v * new_t, old) % 1) - Fraction(1, 2)) < Fraction(1, 10000) for v in d.values()):
            continue
        return ["setdur", t, new_t, dh]
    return ["setdur", t, new_t, dh]


def model_case(case):
    if case[0] == "mutp":
        # same traversal as set_parameter without set_unassigned, function old -> old + c
        return ["setp", case[1], 0, case[3], case[4]]
    return case


def compare(case, mo, io):
    io = [x for x in io if not (isinstance(x, list) and x and x[0] in ("calls", "shared-parameter-object-served"))]
    if is_err(mo) or is_err(io):
        return None if mo[:2] == io[:2] else f"outcome differs: model {sx.show(mo[:2])} impl {sx.show(io[:2])}"
    return None if mo == io else f"model {sx.show(mo)[:300]} impl {sx.show(io)[:300]}"


def oracle(case, io, mo):
    k = case[0]
    t = case[1]
    pos = positions(t)
    ids = sorted(set(pos))
    if k in ("setp", "mutp"):
        if is_err(io):
            return f"{k} raised {io[1]}"
        heap = {int(i): (None if v == "none" else int(v)) for i, v in case[4]}
        su = case[2] in (1, "1") and k == "setp"
        g = case[3]
        calls = [x for x in io[1:] if x and x[0] == "calls"]
        for x in io[1:]:
            if x and x[0] == "shared-parameter-object-served":
                return (f"one parameter object held by all {x[3]} distinct leaves: mutate_parameter served it {x[1]} times "
                        "(the function is applied once per distinct leaf, whatever the leaves hold)")
        got = {int(i): (None if v == "none" else int(v)) for i, v in io[1:] if i != "calls"}
        if calls and k == "setp":
            want = sum(1 for i in ids if heap.get(i) is not None or su)
            if int(calls[0][1]) != want:
                return f"the function was called {calls[0][1]} times, there are {want} distinct leaves to edit (exactly once each)"
        for i in ids:
            old = heap.get(i)
            if old is None and not su:
                exp = None
            elif g[0] == "const":
                exp = int(g[1])
            elif g[0] == "addc":
                exp = int(g[1]) if old is None else old + int(g[1])
            else:
                exp = 0 if old is None else old * int(g[1])
            if got.get(i) != exp:
                n = pos.count(i)
                return f"leaf object {i} (referenced {n}x): parameter {old} became {got.get(i)}, applying the edit exactly once gives {exp}"
        return None
    if k == "getp":
        if is_err(io):
            return f"get_parameter raised {io[1]}"
        heap = {int(i): (None if v == "none" else int(v)) for i, v in case[4]}
        flat = case[2] in (1, "1")
        filt = case[3] in (1, "1")
        if flat:
            exp = [heap.get(i) for i in pos]
            if filt:
                exp = [v for v in exp if v is not None]
            got = [None if v == "none" else int(v) for v in io[1:]]
            return None if got == exp else f"flat read {got}, one entry per leaf position in order is {exp}"

        def nested(n):
            if n[0] == "l":
                return heap.get(int(n[1]))
            return ["t"] + [nested(c) for c in n[2:]]

        def conv(x):
            if isinstance(x, list):
                return ["t"] + [conv(y) for y in x[1:]]
            return None if x == "none" else int(x)
        exp = nested(t)[1:]
        got = [conv(x) for x in io[1:]]
        if not filt:
            return None if got == exp else "nested read does not mirror the tree"
        # with the filter: undefined entries are dropped (one level deep, as documented for leaves)
        def drop(l):
            return [x for x in l if x is not None]
        exp2 = [(["t"] + drop(x[1:])) if isinstance(x, list) else x for x in drop(exp)]
        return None if got == exp2 else "filtered nested read differs"
    if k == "setdur":
        new = int(case[2])
        d = {int(i): int(v) for i, v in case[3]}
        if len(t) == 2:
            return None if is_err(io) and io[1] == "CannotSetDurationOfEmptyCompound" else "assigning a duration to an empty container is not rejected"
        old = dur_of(t, d)
        if is_err(io):
            return f"duration assignment raised {io[1]}"
        got = {int(i): int(v) for i, v in io[2:]}
        total = int(io[1])
        if old == 0:
            return None     # outside the property (non-zero duration presupposed)
        npos = len(pos)
        if abs(total - new) > (npos + 1) // 2 + 1:
            return f"duration became {total} ticks, assigned {new} (tolerance {npos}/2 ticks of rounding)"
        for i in ids:
            exp = Fraction(d[i] * new, old)
            if abs(got[i] - exp) > Fraction(1, 2) + Fraction(1, 1000):
                return f"leaf {i}: {d[i]} became {got[i]}, keeping the ratios gives {float(exp)}"
        return None
    return None


def nontrivial(case, io):
    pos = positions(case[1])
    return len(pos) != len(set(pos))


def stats(results):
    from collections import Counter
    c = Counter()
    for r in results:
        case = r["case"]
        c[case[0]] += 1
        pos = positions(case[1])
        c["shared-objects" if len(pos) != len(set(pos)) else "no-sharing"] += 1
    return dict(sorted(c.items()))


def shrink(case):
    return []


def neighbours(case):
    return []
