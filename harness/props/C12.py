"""C12 — joining on the time axis appends content and tempo; operands survive."""
from props.m1common import g, sp, rng_for, is_err, compare_result
from props import m2common as m2
import gen_m2
import sx

PID = "C12"
KERNELS = ['K_concat_tempo', 'K_concat']   # translated from /repo on every run, tied to the model by coq/Gen/<name>_eq.v
RUNNER = "impl_m1.py"
VM_CROSSCHECK = True
N = {"quick": 1800, "thorough": 60000}
LEVEL_RULE = ("content cases: sequence + sequence (or simultaneity as right operand), and concatenation of two simultaneities of "
              "sequences by index / by tag (0-3 voices each, tags unique / repeated / missing, nested simultaneities as voices, "
              "leaf voices as malformed stream), all tempi default; history stream (15 % of the content cases): 2-4 joins on ONE simultaneity with tagged voices replaced / removed in between, compared step by step; tempo cases: two one-voice operands whose tempi are constant "
              "or 2-4 point trajectories shorter / equal / longer than the event (8 % with an empty first operand), joined by +, by index and by tag; the result's "
              "tempo is compared with the model and, on a 26-point grid, with the operands' tempi. "
              "non-trivial = voice counts differ or a trajectory length differs from the event length")
ASSUMPTIONS = ["content: NoSharing, tick-exact durations (as C01-C06); tempo: as C08-C11 (real-number theorems, float correspondence)",
               "the tempo of a simultaneity itself is not concatenated by concatenate_by_index / _by_tag (known finding F7); tempo cases therefore use one-voice operands and observe the voice's tempo",
               "the model is tied to /repo by this run's differential correspondence (sampled)"]
TRUSTED = ["harness/impl_m1.py, harness/impl_m2.py"]
U = 2500000000


def runner_for(case):
    return "impl_m2.py" if case[0] == "jointempo" else "impl_m1.py"


def gen_voices(rng, G, n, tags):
    out = []
    for j in range(n):
        r = rng.random()
        if r < 0.07:
            v = G.leaf()                      # malformed: a leaf as voice
        elif r < 0.17:
            v = ["P", 0, 0] + [["S", 0, 0] + [G.leaf() for _ in range(rng.randint(0, 2))] for _ in range(rng.randint(1, 2))]
        else:
            v = ["S", 0, 0] + [G.leaf() for _ in range(rng.randint(0, 3))]
        if v[0] != "L":
            v[1] = rng.choice(tags)
        out.append(v)
    return out


def gen(seed, index):
    rng = rng_for(PID, seed, index)
    if rng.random() < 0.4:
        kind = rng.choice(["add", "add", "index", "index", "tag", "tag", "topindex", "unmatched_index", "unmatched_tag",
                           "chain_index", "chain_tag", "self_index", "padded_index", "padded_tag"])
        unit = rng.choice([2500000000, 10000000000, 5000000000])
        da, db = rng.randint(1, 6) * unit, rng.randint(1, 6) * unit
        if rng.random() < 0.08 and not kind.startswith(("unmatched", "chain", "self", "padded")):
            da = 0          # an empty first operand (or one holding only zero-length events) that still carries a tempo

        def tempo(d):
            if rng.random() < 0.4:
                return ["D", [0, gen_m2.hexf(rng.choice([30, 60, 60, 90, 120])), gen_m2.hexf(0)]]
            n = rng.randint(2, 4)
            span = int(d * rng.choice([0.5, 1, 1, 2]))
            GE = gen_m2.GE(rng, kind="T", unit=max(1, span // n), shapes=[0, 0, 1, -1, 2],
                            last_positive=rng.random() < 0.25,   # a trajectory may end with a tail (its last point has a length of its own)
                            jumps=rng.choice([0, 0.2]))
            return GE.env(n)

        return ["jointempo", kind, tempo(da), da, tempo(db), db]
    G = g.G(rng, zero_p=rng.choice([0, 0.15]))
    if rng.random() < 0.3:
        a = ["S", rng.choice([0, 1]), 0] + [G.tree(depth=rng.choice([0, 0, 1, 2])) for _ in range(rng.randint(0, 3))]
        b = [rng.choice("SSP"), rng.choice([0, 2]), 0] + [G.tree(depth=rng.choice([0, 0, 1])) for _ in range(rng.randint(0, 3))]
        return ["op", a, ["add", b]]
    if rng.random() < 0.15:
        return gen_history(rng, G)
    by_tag = rng.random() < 0.5
    tags = [1, 2, 3] if by_tag else [0, 0, 1, 2]
    if by_tag and rng.random() < 0.12:
        tags = [0, 1, 2]      # a missing tag -> NoTagError
    a = ["P", 0, 0] + gen_voices(rng, G, rng.randint(0, 3), tags)
    b = ["P", 0, 0] + gen_voices(rng, G, rng.randint(0, 3), tags)
    return ["op", a, ["concat", 1 if by_tag else 0, b]]


def gen_history(rng, G):
    """history stream: join, replace / remove / re-add tagged voices on the same simultaneity, join again (2-4 joins)"""
    def voices(tags):
        return [["S", tg, 0] + [G.leaf() for _ in range(rng.randint(0, 3))] for tg in tags]

    alltags = [1, 2, 3]
    have = rng.sample(alltags, rng.randint(1, 3))
    a = ["P", 0, 0] + voices(have)
    ops = []
    for _ in range(rng.randint(2, 4)):
        by_tag = rng.random() < 0.75
        tb = rng.sample(alltags, rng.randint(1, 3))
        ops.append(["concat", 1 if by_tag else 0, ["P", 0, 0] + voices(tb)])
        have = have + [tg for tg in tb if tg not in have] if by_tag else have + tb[len(have):]
        r = rng.random()
        tg = rng.choice(have)
        if r < 0.6:
            ops.append(["set_tag", tg, voices([tg])[0]])
        elif r < 0.75 and len(set(have)) == len(have):
            ops.append(["del_tag", tg])
            have = [x for x in have if x != tg]
    return ["hist", a] + ops


def compare_history(case, mo, io):
    if len(mo) != len(io):
        return f"history length differs: model {len(mo) - 1} impl {len(io) - 1} steps"
    for k, (a, b) in enumerate(zip(mo[1:], io[1:])):
        d = compare_result(a, b)
        if d:
            return f"after step {k} {sx.show(case[2 + k])[:80]}: {d}"
    return None


def oracle_history(case, io):
    prev = case[1]
    for k, (op, r) in enumerate(zip(case[2:], io[1:])):
        if is_err(r):
            return f"step {k} {op[0]} raised {r[1]} on valid operands"
        if op[0] == "concat":
            m = oracle(["op", prev, op], ["ok", r[1], ["other", op[-1]]], None)
            if m:
                return f"step {k} (state left by the earlier calls: {sx.show(prev)[:160]}): {m}"
        prev = r[1]
    return None


def model_case(case):
    if case[0] == "jointempo" and case[1].startswith(("unmatched", "chain", "self")):
        return ["jointempo", "index"] + case[2:]      # outside the single-join model: decided by the oracle alone
    return case


def compare(case, mo, io):
    if case[0] == "hist":
        return compare_history(case, mo, io)
    if case[0] == "jointempo" and case[1].startswith(("unmatched", "chain", "self")):
        return None
    if case[0] == "jointempo":
        if is_err(mo) or is_err(io):
            return None if mo[:2] == io[:2] else f"outcome differs: model {sx.show(mo[:2])} impl {sx.show(io[:2])}"
        if m2.same(mo[1], io[1], rel=2e-8, abs_=1e-12):
            return None
        if case[1] == "topindex":
            return "[F7] the tempo of the simultaneity itself is not joined"
        return f"tempo of the result differs: model {sx.show(mo[1])[:250]} impl {sx.show(io[1])[:250]}"
    return compare_result(mo, io)


def voice_key(v, by_tag, j):
    return ("tag", int(v[1])) if by_tag else ("idx", j)


def oracle(case, io, mo):
    if case[0] == "hist":
        return oracle_history(case, io)
    if case[0] == "jointempo":
        if is_err(io):
            return f"joining raised {io[1]}"
        extra = io[2:]
        grid = [x for x in extra if x and x[0] == "grid"][0][1:]
        flags = [x for x in extra if x and x[0] == "flags"]
        if flags:
            return "joining: " + " ".join(flags[0][1:])
        da = int(case[3])
        for row in grid:
            x, vr, vo = int(row[0]), m2.fl(row[1]), m2.fl(row[2])
            if abs(vr - vo) > 2e-8 * max(1, abs(vo)) and case[1].startswith("unmatched") and case[4][0] != "D":
                # finding F9 is about a TRAJECTORY that is not shifted; a constant tempo of the new voice needs no shifting
                # and has to be that constant
                return (f"[F9] a voice that only the second operand has: its tempo at {x} is {vr!r}, the second operand's tempo "
                        f"shifted by the first operand's duration has {vo!r} (the tempo of the new voice is not shifted)")
            if abs(vr - vo) > 2e-8 * max(1, abs(vo)):
                side = "first" if x < da else "second"
                if case[1] == "topindex":
                    return f"[F7] the tempo of the concatenated simultaneity at {x} is {vr!r}, the {side} operand's tempo has {vo!r}"
                return f"tempo of the result at {x} is {vr!r}, the {side} operand's tempo (shifted) has {vo!r}"
        return None
    op = case[2]
    a = sp.norm(case[1])
    b = sp.norm(op[-1])
    if op[0] == "add":
        if is_err(io):
            return None if b[0] == "L" else f"+ raised {io[1]}"
        r = sp.norm(io[1])
        exp = a[:3] + a[3:] + b[3:]
        if r != exp:
            return "the sum is not the first operand's children followed by the second's (same kind, tag, tempo)"
        for x in io[2:]:
            if x[0] == "recv" and sp.norm(x[1]) != a:
                return "+ changed its first operand"
            if x[0] == "other" and sp.norm(x[1]) != b:
                return "+ changed its second operand"
        return None
    by_tag = op[1] in (1, "1")
    # documented rejections
    bad = any(v[0] == "L" for v in a[3:]) or any(v[0] == "L" for v in b[3:]) or (by_tag and any(v[0] != "L" and v[1] == 0 for v in b[3:]))
    if is_err(io):
        return None if bad or has_leaf_voice_deep(a) or has_leaf_voice_deep(b) or nested_sim(a) or nested_sim(b) else f"concatenation raised {io[1]}"
    r = sp.norm(io[1])
    D = sp.dur(a)
    for x in io[2:]:
        if x[0] == "other" and sp.norm(x[1]) != b and D > 0:
            if nested_sim(b):
                return "[F8] concatenation changed the second operand: a new voice that is itself a simultaneity got the padding rest inserted into its (shared) children"
            return "concatenation changed the second operand"
    if bad or has_leaf_voice_deep(a) or has_leaf_voice_deep(b) or nested_sim(a) or nested_sim(b):
        return None          # outside the simple voice-by-voice reading (nested simultaneities recurse)
    # every voice of the result: first operand's voice, rest up to D, then the matching voice of the second operand
    av, bv, rv = list(a[3:]), list(b[3:]), list(r[3:])
    matched = {}
    exp = []
    for j, v in enumerate(av):
        exp.append([voice_key(v, by_tag, j), list(sp.flat(v)), sp.dur(v)])
    for j, w in enumerate(bv):
        key = voice_key(w, by_tag, j)
        tgt = None
        for e in exp:
            if e[0] == key:
                tgt = e
                break
        if tgt is None:
            exp.append([key, [], 0])
            tgt = exp[-1]
        # pad with rest up to D, then the second operand's content starting exactly at D
        if D > 0 and tgt[2] < D:
            tgt[1] = tgt[1] + [(tgt[2], D, -1, ())]
            tgt[2] = D
        tgt[1] = tgt[1] + [(s + tgt[2], e2 + tgt[2], l, p) for (s, e2, l, p) in sp.flat(w)]
        tgt[2] += sp.dur(w)
    if D > 0:
        for e in exp:
            if e[2] < D:
                e[1] = e[1] + [(e[2], D, -1, ())]
                e[2] = D
    if len(rv) != len(exp):
        return f"the result has {len(rv)} voices, expected {len(exp)}"
    for j, (v, e) in enumerate(zip(rv, exp)):
        got = [x[:3] for x in sp.flat(v) if x[1] > x[0]]
        want = merge_rests([x[:3] for x in e[1] if x[1] > x[0]])
        if merge_rests(got) != want:
            return f"voice {j}: content {got[:6]} is not first operand, rest up to {D}, then the second operand's content {want[:6]}"
    if rv and sp.dur(r) != max(e[2] for e in exp):
        return "durations do not add"
    return None


def merge_rests(l):
    out = []
    for (s, e, lab) in l:
        if out and lab == -1 and out[-1][2] == -1 and out[-1][1] == s:
            out[-1] = (out[-1][0], e, -1)
        else:
            out.append((s, e, lab))
    return out


def has_leaf_voice_deep(t):
    if t[0] == "P":
        return any(c[0] == "L" or has_leaf_voice_deep(c) for c in t[3:])
    return False


def nested_sim(t):
    return any(c[0] == "P" for c in t[3:])


def known(f, case, msg, io):
    return any(f.get("id") == k and (msg or "").startswith(f"[{k}]") for k in ("F7", "F8", "F9"))


def known_dis(f, case, msg, io, mo):
    return f.get("id") == "F7" and (msg or "").startswith("[F7]")


def nontrivial(case, io):
    if case[0] == "jointempo":
        da = int(case[3])
        ta = case[2]
        return ta[0] == "T" and sum(int(p[0]) for p in ta[1:]) != da
    if case[0] == "hist":
        return sum(1 for o in case[2:] if o[0] == "concat") >= 2 and io is not None and not any(is_err(x) for x in io[1:])
    op = case[2]
    if op[0] == "add":
        return len(case[1]) > 3 and len(op[1]) > 3
    return len(case[1]) != len(op[2]) and not is_err(io or ["err"])


def stats(results):
    from collections import Counter
    c = Counter()
    for r in results:
        case = r["case"]
        io = r.get("io")
        if case[0] == "hist":
            c["history:joins=%d" % sum(1 for o in case[2:] if o[0] == "concat")] += 1
            continue
        k = case[0] + (":" + case[1] if case[0] == "jointempo" else ":" + case[2][0])
        c[k + (":err:" + io[1] if io and is_err(io) else ":ok")] += 1
    return dict(sorted(c.items()))


def shrink(case):
    return []


def neighbours(case):
    return []
