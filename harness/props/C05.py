"""C05 — squash_in overwrites: the new event occupies [start, start + d), the rest stays."""
from props.m1common import *  # noqa: F401,F403
from props.m1common import hist_compare, hist_oracle, hist_times, g, sp, sx, rng_for, is_err, compare_result, shrink_tree

PID = "C05"
KERNELS = ['K_chronon_cut_off', 'K_abstf', 'K_env_extend_until', 'K_squash_in', 'K_sim_handlers']   # translated from /repo on every run, tied to the model by coq/Gen/<name>_eq.v
RUNNER = "impl_m1.py"
VM_CROSSCHECK = True
N = {"quick": 2000, "thorough": 80000}
LEVEL_RULE = ("(10 % of the sequence cases are histories of 2-3 further insertions into the same object, every step judged like a single call on the state left behind) receivers: random sequences (depth <= 4, zero-length leaves, empty containers, nested simultaneities) and "
              "simultaneities whose voices are sequences or again simultaneities of sequences (unequal lengths); inserted event: leaf, "
              "sequence or simultaneity of length 0 .. 6 units (also running past the end); start drawn from child boundaries +-1 tick, "
              "leaf interiors, 0 and the duration; plus a malformed stream (about 14 %: negative start, start beyond the duration, "
              "simultaneities with a leaf voice). non-trivial = the call succeeds, the inserted event has positive length and an "
              "edge of [start, start + d) lies strictly inside a leaf of a nested (depth >= 2) child, or the range covers one leaf "
              "completely and another one partly")
ASSUMPTIONS = ASSUMPTIONS_M1
TRUSTED = TRUSTED_M1
OP = "squash_in"
ERR_LEAF = "ImpossibleToSquashInError"


def gen_receiver(rng, G, leaf_voice=False):
    """sequence (most), or simultaneity of containers; leaf_voice plants a leaf among the voices"""
    r = rng.random()
    if r < 0.68 and not leaf_voice:
        return G.tree(kind="S")
    n = rng.choice([1, 2, 2, 3])
    voices = []
    for _ in range(n):
        if rng.random() < 0.15:
            voices.append(["P", 0, 0] + [G.tree(rng.choice([1, 2]), kind="S") for _ in range(rng.choice([1, 2]))])
        else:
            voices.append(G.tree(rng.choice([1, 2, 2, 3]), kind="S"))
    if leaf_voice:
        voices.insert(rng.randrange(len(voices) + 1), G.leaf())
    return ["P", 0, 0] + voices


def gen_case(pid, op, seed, index):
    rng = rng_for(pid, seed, index)
    G = g.G(rng, tags=True, tempi=True)      # containers carry tags and tempi (opaque ids in the model)
    r = rng.random()
    t = gen_receiver(rng, G, leaf_voice=(r < 0.04))
    new = G.tree(depth=rng.choice([0, 0, 0, 1, 1, 2]))
    d = g.dur(t)
    pool = [x for x in g.interesting_times(rng, t) if 0 <= x <= d] or [0]
    if t[0] == "P" and r >= 0.04 and rng.random() < 0.8:
        # keep most simultaneity cases inside every voice
        m = min([g.dur(c) for c in t[3:]], default=0)
        pool = [x for x in pool if x <= m] or [0]
    start = rng.choice(pool)
    # zero-length children sitting exactly at the insertion point (interior boundaries) are a classic blind spot
    zs = [a for (a, b) in g.leaf_intervals(t) if a == b and 0 < a < d]
    if zs and rng.random() < 0.3:
        start = rng.choice(zs)
    if 0.04 <= r < 0.09:
        start = rng.choice([-1, -G.unit])
    elif 0.09 <= r < 0.14:
        start = d + rng.choice([1, G.unit])
    if rng.random() < 0.15:
        g.anonymise(t)          # leaves without a name: equal durations make distinct siblings ==
    return ["op", t, [op, start, new]]


def gen1(seed, index):
    return gen_case(PID, OP, seed, index)


def gen(seed, index):
    case = gen1(seed, index)
    rng = rng_for(PID + "-hist", seed, index)
    if rng.random() < 0.1 and case[1][0] == "S" and case[0] == "op":
        # history stream: 2-3 further events put into the same sequence object (each with fresh labels)
        unit = max(1, g.dur(case[1]) // 8)
        d = g.dur(case[1])
        ops = []
        for k in range(rng.randint(2, 3)):
            n = rng.choice([0, 1, 1, 2, 3]) * unit
            new = ["L", n, 5000 + k] if rng.random() < 0.7 else ["S", 0, 0, ["L", n, 5000 + k], ["L", unit, 5100 + k]]
            start = hist_times(rng, d, max(1, unit // 2))[0]
            ops.append([OP, min(start, d), new])
            d = max(d, min(start, d) + g.dur(new))
        return ["hist", case[1]] + ops
    return case


def compare(case, mo, io):
    if case[0] == "hist":
        return hist_compare(case, mo, io)
    return compare_result(mo, io)


def acceptable_errors(t, start, err_leaf):
    """error kinds the property allows for this receiver and start (empty set: the call must succeed)"""
    if start < 0:
        return {"InvalidAbsoluteTime"}
    if start > sp.dur(t):
        return {"InvalidStartValueError"}
    acc = set()

    def walk(e):
        if e[0] != "P":
            return
        for c in sp.kids(e):
            if c[0] == "L":
                acc.add(err_leaf)
            else:
                if sp.dur(c) < start:
                    acc.add("InvalidStartValueError")
                walk(c)

    walk(t)
    return acc


def child_at(r, new, start):
    """is `new` a direct child of the sequence r beginning exactly at `start`"""
    o = 0
    for c in sp.kids(r):
        if o == start and c == new:
            return True
        o += sp.dur(c)
    return False


def zero_leaves(t, off=0, seq_only=False, parent="S"):
    """[(time, label)] of the zero-length leaves; seq_only leaves out those that are a direct voice of a simultaneity
    (dividing a simultaneity drops its zero-length leaf voices: Chronon(0).split_at returns no part - not required here)"""
    if t[0] == "L":
        return [(off, t[2])] if t[1] == 0 and not (seq_only and parent == "P") else []
    out = []
    for c in sp.kids(t):
        out += zero_leaves(c, off, seq_only, t[0])
        if t[0] == "S":
            off += sp.dur(c)
    return out


def check_seq(t, r, start, new):
    d = sp.dur(new)
    if sp.shape(r) != sp.shape(t):
        return "kind / tag / tempo of the event changed"
    nd = max(sp.dur(t), start + d)
    if sp.dur(r) != nd:
        return f"duration {sp.dur(r)} != max(old duration, start + d) = {nd}"
    if not child_at(r, new, start):
        return "the new event is not a child beginning exactly at start"
    bps = sp.breakpoints(t) | sp.breakpoints(r) | sp.breakpoints(new, start) | {start, start + d}
    for x in sp.probes(bps):
        exp = sp.at(new, x - start) if start <= x < start + d else sp.at(t, x)
        if sp.at(r, x) != exp:
            return f"at time {x}: active {sp.at(r, x)}, expected {exp} (new event inside [start, start+d), old content elsewhere)"
    # nothing outside the covered range is lost, duplicated or moved
    newl = {l for (_, _, l, _) in sp.flat(new)}
    got = [(a, b, l) for (a, b, l, _) in sp.flat(r) if a < b and l not in newl]
    exp = []
    for (a, b, l, _) in sp.flat(t):
        if a < b and d > 0:
            if a < start:
                exp.append((a, min(b, start), l))
            if b > start + d:
                exp.append((max(a, start + d), b, l))
        elif a < b:
            exp += [(a, start, l), (start, b, l)] if a < start < b else [(a, b, l)]
    if sorted(got) != sorted(exp) and sorted(merge(got)) != sorted(merge(exp)):
        return "the surviving non-zero leaves are not the originals clipped outside [start, start + d)"
    # zero-length leaves strictly before start / strictly after start + d stay at their time. Exactly at start + d only a
    # direct child of the sequence is required to survive (it is not part of [start, start + d)); a zero-length leaf that ends
    # a nested child there is deleted with that child if it is covered completely, or is moved to `start` if the child is
    # shortened - the model agrees, the property does not constrain that edge.
    zr = zero_leaves(r)
    for (a, l) in zero_leaves(t, seq_only=True):
        if (d == 0 or a < start or a > start + d) and (a, l) not in zr:
            return f"zero-length leaf {l} at time {a} lies outside [start, start + d] but did not survive at its time"
    # ... and no zero-length leaf of the original is MOVED: where it reappears it sits at its old time (the only
    # re-timing the model has is the nested edge above: from start + d to start; zero-length voices of a
    # simultaneity travel with it when it is shortened from the front and are left out)
    zt = {}
    for (a, l) in zero_leaves(t, seq_only=True):
        zt.setdefault(l, set()).add(a)
    for (a, l) in zero_leaves(r, seq_only=True):
        if l in zt and l not in newl and a not in zt[l] and not (a == start and (start + d) in zt[l]):
            return f"zero-length leaf {l} was moved from time {sorted(zt[l])} to {a} (the rest has to stay at its old time)"
    o = 0
    for c in sp.kids(t):
        if d > 0 and c[0] == "L" and c[1] == 0 and o == start + d and (o, c[2]) not in zr:
            return f"zero-length child {c[2]} sitting exactly at start + d was deleted"
        o += sp.dur(c)
    return None


def merge(pieces):
    """join adjacent pieces of one label (an implementation may or may not divide a leaf it does not cover)"""
    out = []
    for (a, b, l) in sorted(pieces, key=lambda p: (p[2], p[0])):
        if out and out[-1][2] == l and out[-1][1] == a:
            out[-1] = (out[-1][0], b, l)
        else:
            out.append((a, b, l))
    return out


def check(t, r, start, new, check_seq_fn):
    if t[0] == "S":
        return check_seq_fn(t, r, start, new)
    if sp.shape(r) != sp.shape(t) or len(sp.kids(r)) != len(sp.kids(t)):
        return "simultaneity: kind / tag / tempo / number of voices changed"
    for i, (c, c2) in enumerate(zip(sp.kids(t), sp.kids(r))):
        if c2[0] == "L":
            return "a voice became a leaf"
        m = check(c, c2, start, new, check_seq_fn)
        if m:
            return f"voice {i}: {m}"
    return None


def oracle_for(case, io, err_leaf, check_seq_fn):
    from props.m1common import alias_failure
    if alias_failure(io):
        return alias_failure(io)
    t = sp.norm(case[1])
    start = int(case[2][1])
    new = sp.norm(case[2][2])
    if t[0] == "L":
        return None
    acc = acceptable_errors(t, start, err_leaf)
    if acc:
        if is_err(io) and io[1] in acc:
            return None
        return f"expected rejection with {sorted(acc)}, got {sx.show(io[:2])[:120]}"
    if is_err(io):
        return f"valid call rejected with {io[1]}"
    r = sp.norm(io[1])
    return check(t, r, start, new, check_seq_fn)


def oracle(case, io, mo):
    if case[0] == "hist":
        return hist_oracle(oracle, case, io)
    return oracle_for(case, io, ERR_LEAF, check_seq)


def nontrivial(case, io):
    if case[0] == "hist":
        return io is not None and len(io) >= 3 and not any(is_err(x) for x in io[1:])
    if io is None or is_err(io):
        return False
    t = case[1]
    start = int(case[2][1])
    d = g.dur(case[2][2])
    if d <= 0:
        return False
    iv = [(a, b) for (a, b) in g.leaf_intervals(t) if a < b]
    inside = g.depth(t) >= 3 and any(a < x < b for (a, b) in iv for x in (start, start + d))
    full = any(start <= a and b <= start + d for (a, b) in iv)
    part = any((a < start < b) or (a < start + d < b) for (a, b) in iv)
    return inside or (full and part)


def stats(results):
    from collections import Counter
    c = Counter()
    for r in results:
        io = r.get("io")
        case = r["case"]
        if case[0] == "hist":
            c["history:steps=%d" % (len(case) - 2)] += 1
            continue
        c["ok" if io and io[0] == "ok" else "err:" + (io[1] if io and len(io) > 1 else "?")] += 1
        c["root:" + case[1][0]] += 1
        c["new:" + case[2][2][0]] += 1
        dn, dt, s = g.dur(case[2][2]), g.dur(case[1]), int(case[2][1])
        c["d=0" if dn == 0 else ("past-end" if s + dn > dt else "inside")] += 1
    return dict(sorted(c.items()))


def shrink(case):
    if case[0] == "hist":
        return [case[:2] + case[2:2 + i] + case[3 + i:] for i in range(len(case) - 2) if len(case) > 3]
    op = case[2]
    out = [["op", t2, op] for t2 in shrink_tree(case[1])]
    out += [["op", case[1], [op[0], op[1], n2]] for n2 in shrink_tree(op[2])]
    return out


def neighbours(case):
    if case[0] == "hist":
        return shrink(case)
    op = case[2]
    out = [["op", case[1], [op[0], int(op[1]) + dx, op[2]]] for dx in (-1, 1)]
    return out + shrink(case)


from props import envrecv  # noqa: E402
envrecv.install(globals(), "squash_in", 0.05)      # 5 % of the cases: an envelope is the receiver of squash_in
