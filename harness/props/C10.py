"""C10 — asking an envelope a question never changes it."""
from props.m2common import *  # noqa: F401,F403
from props.m2common import g, sx, rng_for, fl, close, same, is_err, env_points

PID = "C10"
KERNELS = ['K_value_at', 'K_env_reads', 'K_average', 'K_env_chain']   # translated from /repo on every run (a read with no statement that writes to self), tied to the model by coq/Gen/<name>_eq.v
RUNNER = "impl_m2.py"
N = {"quick": 1500, "thorough": 40000}
LEVEL_RULE = ("envelopes (plain and FlexTempo) as C08, 10 % with a curve shape below the 10-digit resolution (4e-11 ...); histories of 1-12 reads over all public reads (value_at, parameter_at, "
              "curve_shape_at, point_at, time_range_to_point_tuple, integrate_interval, get_average_value/parameter, is_static, "
              "value/parameter/curve_shape tuples) with arbitrary arguments on ONE live object; after every read the control points "
              "are snapshotted and the same read is asked of an untouched copy. non-trivial = the history contains a curve_shape_at / "
              "point_at / range / integrate / average read strictly inside a curved segment followed by at least one more read")
ASSUMPTIONS = ASSUMPTIONS_M2
TRUSTED = TRUSTED_M2

SHAPE_READS = ("curve_shape_at", "point_at", "range", "integrate", "average", "average_from", "average_to")


def gen(seed, index):
    rng = rng_for(PID, seed, index)
    G = g.GE(rng)
    e = G.env()
    if rng.random() < 0.12:
        # tiny envelopes whose only / last event has a positive duration (defaults such as end = duration alias internal objects)
        G2 = g.GE(rng, last_positive=True)
        e = G2.env(rng.choice([1, 1, 2]))
    if rng.random() < 0.1:
        # numeric edge: a curve shape that is not 0 but below the 10-digit resolution (a read must not "normalise" it)
        rng.choice(e[1:])[2] = g.hexf(rng.choice([4e-11, -3e-11, 9e-11, 1e-12]))
    if rng.random() < 0.02:
        e = [e[0]]                   # no control point at all: every read is rejected (and leaves it empty)
    qs = []
    for _ in range(rng.randint(1, 12)):
        k = rng.choice(["value_at", "parameter_at", "curve_shape_at", "curve_shape_at", "point_at", "point_at", "range", "range",
                        "integrate", "integrate", "average", "average_all", "average_from", "average_from", "average_to",
                        "is_static", "points"])
        if k in ("average_from", "average_to"):
            qs.append([k, g.pick_time(rng, e, allow_bad=False, inside_bias=0.6)])
        elif k in ("value_at", "parameter_at", "curve_shape_at", "point_at"):
            t = g.pick_time(rng, e, inside_bias=0.7)
            qs.append([k, t])
        elif k in ("range", "integrate", "average"):
            a = g.pick_time(rng, e, allow_bad=(k != "range"), inside_bias=0.7)
            b = g.pick_time(rng, e, allow_bad=(k != "range"), inside_bias=0.7)
            if a > b and rng.random() < 0.95:
                a, b = b, a
            qs.append([k, a, b])
        else:
            qs.append([k])
    if rng.random() < 0.15:
        # second life: the envelope was edited before (prolonged past its end, cut); the reads are then asked of the edited object
        pts, durs, total = env_points(e)
        far = total + rng.choice([1, 2500000000, 10000000000])
        a = rng.randint(0, max(0, total - 1))
        qs.append(["after", rng.choice([["sample_at", far], ["extend_until", far], ["cut_out", a, far], ["cut_off", a, far],
                                        ["sample_at", max(1, total // 2)], ["cut_out", a, max(a + 1, total - 1)]])])
    return ["envq", e] + qs


def second_life(case):
    return bool(case[-1]) and case[-1][0] == "after"


def model_case(case):
    return case[:-1] if second_life(case) else case


def compare(case, mo, io):
    if second_life(case):
        return None        # the edited envelope is the implementation's own; the reads are judged by the oracle (live object vs untouched copy)
    for k, (q, a, b) in enumerate(zip(case[2:], mo[1:], io[1:])):
        if g.near_jump(case[1], int(q[1])) if len(q) > 1 else False:
            continue
        if is_err(b) and b[1] == "ZeroDivisionError" and not is_err(a) and ("nan" in sx.show(a) or "inf" in sx.show(a)):
            continue    # exp(c) - 1 underflows to 0 for a sub-resolution shape: Python raises where IEEE arithmetic gives nan / inf
        if is_err(a) and is_err(b) and a[1] == "EmptyEnvelopeError" and b[1] in ("EmptyEnvelopeError", "RecursionError"):
            continue    # an envelope without control points: the read is rejected (a FlexTempo fails while formatting the error: as in C11)
        if not same(a, b, rel=1e-9, abs_=1e-12):
            return f"read {k} {sx.show(q)}: model {sx.show(a)} impl {sx.show(b)}"
    return None


def oracle(case, io, mo):
    n = len(case) - 2 - (1 if second_life(case) else 0)
    extra = io[1 + n:]
    for x in extra:
        if x[0] == "changed-after":
            i = int(x[1])
            return f"read {i} {sx.show(case[2 + i])} changed the control points to {sx.show(x[2])[:160]}"
    for x in extra:
        if x[0] == "differs-from-fresh-copy":
            i = int(x[1])
            return f"read {i} {sx.show(case[2 + i])} answered {sx.show(io[1 + i])[:80]}, an untouched copy answers {sx.show(x[2])[:80]}"
    return None


def nontrivial(case, io):
    e = case[1]
    qs = case[2:-1] if second_life(case) else case[2:]
    for i, q in enumerate(qs[:-1]):
        if q[0] in SHAPE_READS and any(g.in_curved_segment(e, int(t)) for t in q[1:]):
            return True
    return False


def stats(results):
    from collections import Counter
    c = Counter()
    for r in results:
        case = r["case"]
        c["len=%d" % (len(case) - 2)] += 1
        for q in case[2:]:
            c["read:" + q[0]] += 1
        io = r.get("io") or []
        for a in io[1:]:
            if is_err(a):
                c["err:" + a[1]] += 1
    return dict(sorted(c.items()))


def shrink(case):
    out = []
    for i in range(2, len(case)):
        out.append(case[:i] + case[i + 1:])
    e = case[1]
    for i in range(1, len(e)):
        if len(e) > 2:
            out.append(["envq", e[:i] + e[i + 1:]] + case[2:])
    return out


def neighbours(case):
    return shrink(case)
