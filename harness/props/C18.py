"""C18 — durations and tempi behave like the numbers they stand for."""
from fractions import Fraction
from props.m1common import rng_for, is_err
import sx

PID = "C18"
KERNELS = ['K_duration_ops', 'K_parse_any', 'K_ratio_duration']   # translated from /repo on every run, tied to the model by coq/Gen/<name>_eq.v
RUNNER = "impl_m5.py"
N = {"quick": 3000, "thorough": 100000}
VM_CROSSCHECK = True
LEVEL_RULE = ("four case kinds: (cmp) a duration of either kind against another duration of either kind or a raw int / float / "
              "fraction (equal, one tick apart, far apart, negative), all six operators and their reflections; (arith) + - * / with "
              "a duration or raw number, operands checked unchanged (cmp also against ratio durations whose exact ratio differs by less than the 10-digit resolution); (durhist) histories of 1-10 updates (assignment, in-place "
              "add/subtract/multiply/divide, reads) on ONE duration object of either kind, beat count reported after every step; "
              "(parse) Duration.from_any / Tempo.from_any over existing objects, ints, floats, fractions, numeric strings, point "
              "lists and a malformed stream; (seconds) seconds*bpm. Results of * and / within 1e-4 tick of a rounding tie are "
              "excluded by the generator. non-trivial = mixed kinds / raw number involved, or a history with a read before and after a write")
ASSUMPTIONS = ["a duration's value is its beat count rounded to 1e-10 = an integer number of ticks; raw floats are either tick-exact or >= 1e-6 tick away from a tick; raw fractions are binary-exact or thirds/sevenths",
               "the float product/quotient is assumed to round like the exact rational unless within 1e-4 tick of a tie (excluded, counted)",
               "strings are restricted to the grammar [+-]?digits, digits.digits, digits/digits plus a list of malformed strings",
               "the model is tied to /repo by this run's differential correspondence (sampled)"]
TRUSTED = ["harness/impl_m5.py (builds the objects, evaluates the operators, histories and parsers)"]
TICK = 10**10
U = 2500000000


def rhe(q):
    f = q.numerator // q.denominator
    r = q - f
    if r < Fraction(1, 2):
        return f
    if r > Fraction(1, 2):
        return f + 1
    return f if f % 2 == 0 else f + 1


def near_tie(q):
    r = q - (q.numerator // q.denominator)
    return abs(r - Fraction(1, 2)) < Fraction(1, 10000)


def gen_dur(rng):
    t = rng.choice([0, U, 2 * U, 3 * U, 4 * U, 10 * U, 3333333333, 6666666667, 1, 12345678901, 40 * U])
    if rng.random() < 0.1:
        t = -t
    return [rng.choice("DR"), t]


def gen_raw(rng, d, sub=False):
    """returns ([q n d], [raw ...]) near the duration d"""
    t = d[1]
    r = rng.random()
    if sub and rng.random() < 0.1:
        # a ratio duration that differs from d by less than the 10-digit resolution (exact ratios differ, beat counts do not)
        n = t * 1000 + rng.choice([1, -1, 7, -33, 250, -400, 0, 500, -500, 1500])
        # what takes part in the comparison is the beat count it REPORTS: the ratio rounded to 10 digits (= t ticks)
        if n % 1000 == 500:
            # exactly half a tick: a duration of either kind stands for the NUMBER it was given (a double), so the ratio
            # duration must report what the direct duration and the plain float of the same value report
            return ["q", round(round(float(Fraction(n, TICK * 1000)), 10) * TICK), TICK], ["raw", "rdur", n, TICK * 1000]
        return ["q", rhe(Fraction(n, 1000)), TICK], ["raw", "rdur", n, TICK * 1000]
    if r < 0.3:
        o = gen_dur(rng)
        if rng.random() < 0.5:
            o[1] = t + rng.choice([0, 0, 1, -1, U])
        return ["q", o[1], TICK], ["raw", "dur", o[0], o[1]]
    if r < 0.5:
        n = rng.choice([t // TICK, t // TICK + 1, 0, 1, 2, 3, -1])
        return ["q", n, 1], ["raw", "int", n]
    if r < 0.75:
        # float: tick exact (t + k ticks) or half a tick off
        if rng.random() < 0.7:
            n = t + rng.choice([0, 0, 1, -1, U, -U])
            return ["q", n, TICK], ["raw", "float", n, TICK]
        n = 2 * (t + rng.choice([0, 1, -1])) + 1
        return ["q", n, 2 * TICK], ["raw", "float", n, 2 * TICK]
    den = rng.choice([1, 2, 4, 8, 3, 7])
    num = rng.choice([1, 2, 3, 5, 7, t * den // TICK, t * den // TICK + 1])
    if den in (3, 7) and (num * TICK) % den == 0:
        num += 1
    return ["q", num, den], ["raw", "frac", num, den]


def gen(seed, index):
    rng = rng_for(PID, seed, index)
    k = rng.choice(["cmp", "cmp", "arith", "arith", "durhist", "parse", "parse", "seconds"])
    if rng.random() < 0.04:
        # the configuration dimension: another resolution than the default, values that need more digits than it has
        return ["cfg", rng.choice([12, 12, 8, 3, 11]), rng.choice([1, 2, 5, 7, 10, 22]), rng.choice([3, 7, 9, 11, 13])]
    if k == "cmp":
        d = gen_dur(rng)
        q, r = gen_raw(rng, d, sub=True)
        return ["cmp", d, q, r]
    if k == "arith":
        for _ in range(50):
            d = gen_dur(rng)
            q, r = gen_raw(rng, d)
            op = rng.choice(["add", "sub", "mul", "div"])
            a, b = Fraction(d[1], TICK), Fraction(int(q[1]), int(q[2]))
            if op == "div" and b == 0:
                if rng.random() < 0.5:
                    continue
                return ["arith", op, d, q, r]
            res = {"add": a + b, "sub": a - b, "mul": a * b, "div": (a / b) if b else 0}[op] * TICK
            if near_tie(res) or abs(res) > 10**15:
                continue
            if r[1] in ("int", "float", "frac") and rng.random() < 0.35:
                # the plain number on the LEFT of the operator: b op a
                if op == "div" and a == 0:
                    return ["rarith", op, d, q, r]
                res2 = {"add": b + a, "sub": b - a, "mul": b * a, "div": (b / a) if a else 0}[op] * TICK
                if not (near_tie(res2) or abs(res2) > 10**15):
                    return ["rarith", op, d, q, r]
            return ["arith", op, d, q, r]
        return ["arith", "add", d, q, r]
    if k == "durhist":
        kind = rng.choice("DR")
        us = []
        val = None
        for _ in range(rng.randint(1, 10)):
            u = rng.choice(["set", "set", "add", "sub", "mul", "div", "read", "read"])
            if not us:
                u = "set"
            if u == "set":
                den = rng.choice([1, 2, 4, 3, 7]) if kind == "R" else rng.choice([1, 2, 4])
                q = Fraction(rng.randint(0, 12), den)
                val = Fraction(rhe(q * TICK), TICK)
                us.append(["set", ["q", q.numerator, q.denominator]])
            elif u == "read":
                us.append(["read"])
            else:
                q = Fraction(rng.choice([1, 2, 3, 5]), rng.choice([1, 2, 4]))
                res = {"add": val + q, "sub": val - q, "mul": val * q, "div": val / q}[u] * TICK
                if near_tie(res):
                    continue
                val = Fraction(rhe(res), TICK)
                us.append([u, ["q", q.numerator, q.denominator]])
        return ["durhist", kind, ["q", 0, 1]] + us
    if k == "parse":
        which = rng.choice(["parse_d", "parse_t"])
        t = rng.choice(["same", "int", "float", "frac", "str-int", "str-float", "str-frac", "str-frac", "str-list", "str-junk", "points", "other"])
        n = rng.randint(0, 99)
        q = Fraction(rng.randint(1, 400), rng.choice([1, 2, 4, 8]))
        if t == "same":
            p = ["same"]
        elif t in ("int", "str-int"):
            p = [t, rng.randint(1, 240) if which == "parse_t" else rng.randint(0, 20)]
            if t == "str-int" and which == "parse_d" and rng.random() < 0.15:
                p[1] = -p[1]              # "-3": a negative duration string
        elif t in ("float", "frac", "str-float"):
            p = [t, ["q", q.numerator, q.denominator]]
        elif t == "str-frac":
            p = [t, rng.randint(1, 300), rng.choice([0, 1, 2, 3, 4])]
        elif t in ("str-junk", "other"):
            p = [t, n]
        else:
            p = [t]
        if rng.random() < 0.3 and t not in ("same",):
            which = "parsemut" + which[-2:]
        return [which, p, n]
    return ["seconds", rng.randint(20, 480), rng.choice([1, 2, 3]), rng.choice([1, 2, 3]), rng.choice([1, 2])]


def model_case(case):
    k = case[0]
    if k == "cmp":
        return case[:3]
    if k in ("arith", "rarith"):
        return case[:4]
    if k in ("parse_d", "parse_t"):
        return case[:2]
    if k in ("parsemut_d", "parsemut_t"):
        return ["parse" + k[-2:], case[1]]
    if k in ("seconds", "cfg"):
        return ["cmp", ["D", 0], ["q", 0, 1]]
    return case


def is_f5(case):
    """a malformed point list (also as a string literal) handed to the tempo parser"""
    return case[0] in ("parse_t", "parsemut_t") and case[1][0] == "str-junk" and int(case[1][1]) % 10 == 7


def compare(case, mo, io):
    k = case[0]
    if k in ("seconds", "cfg"):
        return None
    if is_f5(case) and is_err(io) and io[1] == "TypeError":
        return "[F5] malformed point list raises TypeError"
    if is_err(mo) or is_err(io):
        return None if mo[:2] == io[:2] else f"outcome differs: model {sx.show(mo[:2])} impl {sx.show(io[:2])}"
    n = {"cmp": 7, "arith": 3, "rarith": 3}.get(k, None)
    a, b = (mo[:n], io[:n]) if n else (mo, [x for x in io if not (isinstance(x, list) and x and x[0] == "flags")])
    return None if a == b else f"model {sx.show(a)} impl {sx.show(b)}"


def oracle(case, io, mo):
    k = case[0]
    if k == "cmp":
        if is_err(io):
            return f"comparison raised {io[1]}"
        a, b = Fraction(case[1][1], TICK), Fraction(int(case[2][1]), int(case[2][2]))
        exp = [a < b, a <= b, a == b, a != b, a >= b, a > b]
        got = [x == "1" for x in io[1:7]]
        if got != exp:
            return f"operators < <= == != >= > give {got} for beat counts {float(a)} and {float(b)}, expected {exp}"
        if len(io) > 7:
            return "reflected comparison (number on the left) disagrees: " + sx.show(io[7])
        return None
    if k == "rarith":
        op = case[1]
        a, b = Fraction(case[2][1], TICK), Fraction(int(case[3][1]), int(case[3][2]))
        if op == "div" and a == 0:
            return None if is_err(io) and io[1] == "ZeroDivisionError" else "division by a duration of 0 did not raise ZeroDivisionError"
        if is_err(io):
            return f"a plain number on the left of the operator: arithmetic raised {io[1]}"
        if str(io[1]).startswith("not-a-duration"):
            return f"a plain number on the left of the operator: the result is a {str(io[1])[15:]}, not a duration"
        res = {"add": b + a, "sub": b - a, "mul": b * a, "div": (b / a) if a else 0}[op] * TICK
        if near_tie(res):
            return None
        if int(io[2]) != rhe(res):
            return f"{float(b)} {op} duration {float(a)} gives {int(io[2])} ticks, the arithmetic result rounded to 10 digits is {rhe(res)}"
        if io[1] != case[2][0]:
            return "the result is not a duration of the duration operand's kind"
        if len(io) > 3:
            return "arithmetic side effects: " + sx.show(io[3])
        return None
    if k == "arith":
        op = case[1]
        a, b = Fraction(case[2][1], TICK), Fraction(int(case[3][1]), int(case[3][2]))
        if op == "div" and b == 0:
            return None if is_err(io) and io[1] == "ZeroDivisionError" else "division by zero did not raise ZeroDivisionError"
        if is_err(io):
            return f"arithmetic raised {io[1]}"
        res = {"add": a + b, "sub": a - b, "mul": a * b, "div": (a / b) if b else 0}[op] * TICK
        if near_tie(res):
            return None
        if int(io[2]) != rhe(res):
            return f"{float(a)} {op} {float(b)} gives {int(io[2])} ticks, the arithmetic result rounded to 10 digits is {rhe(res)}"
        if io[1] != case[2][0]:
            return "the result is not a duration of the receiver's kind"
        if len(io) > 3:
            return "arithmetic side effects: " + sx.show(io[3])
        return None
    if k == "durhist":
        if is_err(io):
            return f"history raised {io[1]}"
        vals = [x for x in io[1:] if not isinstance(x, list)]
        flags = [x for x in io[1:] if isinstance(x, list) and x and x[0] == "flags"]
        errs = [x for x in io[1:] if isinstance(x, list) and x and x[0] == "err"]
        if errs:
            return f"history raised {errs[0][1]}"
        if flags:
            return "in-place forms: " + sx.show(flags[0])
        val = Fraction(0)
        exp = []
        for u in case[3:]:
            if u[0] == "set":
                val = Fraction(rhe(Fraction(int(u[1][1]), int(u[1][2])) * TICK), TICK)
            elif u[0] != "read":
                q = Fraction(int(u[1][1]), int(u[1][2]))
                val = Fraction(rhe({"add": val + q, "sub": val - q, "mul": val * q, "div": val / q}[u[0]] * TICK), TICK)
            exp.append(int(val * TICK))
        exp.append(exp[-1] if exp else 0)
        if [int(v) for v in vals] != exp:
            return f"reported beat counts {vals} after the updates, the latest values are {exp}"
        return None
    if k in ("parse_d", "parse_t", "parsemut_d", "parsemut_t"):
        p = case[1]
        t = p[0]
        tempo = k.endswith("_t")
        if not is_err(io) and io[1] == "second-parse-returns-the-first-result-object":
            return "parsing the same input twice returns one shared object: an in-place update of the first result changes what the second parse reports"
        bad = t in ("str-junk", "other") or (t == "str-frac" and int(p[2]) == 0) or (not tempo and t in ("points", "str-list"))
        if bad:
            if is_f5(case) and is_err(io) and io[1] == "TypeError":
                return "[F5] malformed point list raises TypeError instead of CannotParseError"
            return None if is_err(io) and io[1] == "CannotParseError" else f"{sx.show(p)} is not rejected with CannotParseError but gives {sx.show(io)}"
        if is_err(io):
            return f"parsing {sx.show(p)} raised {io[1]}"
        if t == "same":
            return None if io[1] == "same" else "an existing object is not returned as it is"
        if t in ("points", "str-list"):
            return None if io[1] == "flex" else "a point list does not parse to a tempo trajectory"
        if t in ("int", "str-int"):
            v = Fraction(int(p[1]))
        elif t == "str-frac":
            v = Fraction(int(p[1]), int(p[2]))
        else:
            v = Fraction(int(p[1][1]), int(p[1][2]))
        if int(io[2]) != rhe(v * TICK):
            return f"parsed value {int(io[2])} ticks, expected {rhe(v * TICK)}"
        if not tempo:
            exp_kind = "ratio" if t in ("frac", "str-frac") else "direct"
            if io[1] != exp_kind:
                return f"parsed to a {io[1]} duration, expected {exp_kind}"
        return None
    if k == "cfg":
        if is_err(io):
            return f"with ROUND_DURATION_TO_N_DIGITS = {case[1]}: raised {io[1]}"
        names = ["the direct duration reports the number rounded to the configured digits", "the ratio duration reports the number rounded to the configured digits",
                 "the two kinds compare equal", "neither is smaller than the other", "the direct duration equals the plain number",
                 "the ratio duration equals the plain number", "their sum is the sum at the configured resolution"]
        want = ["1", "1", "1", "0", None, None, "1"]      # (a plain number is compared exactly, at any resolution: not judged)
        for n, g_, w in zip(names, io[1:8], want):
            if w is None:
                continue
            if g_ != w:
                return f"with ROUND_DURATION_TO_N_DIGITS = {case[1]} and the value {case[2]}/{case[3]}: not ({n})"
        return None
    if k == "seconds":
        if is_err(io):
            return f"raised {io[1]}"
        v = float.fromhex(io[1])
        w = float.fromhex(io[3])
        bpm = int(case[1]) / int(case[2])
        if abs(v - 60) > 1e-9 or abs(w - 60) > 1e-9:
            return f"seconds * bpm = {v!r} / {w!r}, not 60"
        if abs(float.fromhex(io[2]) - bpm * int(case[3]) / int(case[4])) > 1e-9:
            return "WesternTempo.bpm is not range start * reference"
        return None
    return None


def nontrivial(case, io):
    k = case[0]
    if k == "rarith":
        return True
    if k in ("cmp", "arith"):
        r = case[-1]
        return r[1] != "dur" or r[2] != case[1 if k == "cmp" else 2][0]
    if k == "durhist":
        us = [u[0] for u in case[3:]]
        return any(us[i] == "read" and any(x != "read" for x in us[i + 1:]) and "read" in us[i + 1:] for i in range(len(us)))
    return k in ("parse_d", "parse_t", "parsemut_d", "parsemut_t")


def stats(results):
    from collections import Counter
    c = Counter()
    for r in results:
        case = r["case"]
        k = case[0]
        c[k] += 1
        if k in ("parse_d", "parse_t", "parsemut_d", "parsemut_t"):
            c["parse:" + case[1][0]] += 1
        if k in ("arith", "rarith"):
            c[k + ":" + case[1]] += 1
        if k in ("cmp", "arith"):
            c["other:" + case[-1][1]] += 1
    return dict(sorted(c.items()))


def shrink(case):
    if case[0] == "durhist":
        return [case[:i] + case[i + 1:] for i in range(4, len(case))]
    return []


def neighbours(case):
    return shrink(case)


def known(f, case, msg, io):
    return f.get("id") == "F5" and (msg or "").startswith("[F5]")


def known_dis(f, case, msg, io, mo):
    return f.get("id") == "F5" and (msg or "").startswith("[F5]")
