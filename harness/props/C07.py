"""C07 — tempo conversion gives every leaf the integral of beat length over its span."""
import math
from props.m2common import *  # noqa: F401,F403
from props.m2common import g, g1, sx, rng_for, fl, close, same, is_err, env_points, ref_value_at, TICK

PID = "C07"
KERNELS = ['K_tempo_seconds', 'K_tempo_convert']   # translated from /repo on every run, tied to the model by coq/Gen/<name>_eq.v
RUNNER = "impl_m2.py"
N = {"quick": 700, "thorough": 25000}
LEVEL_RULE = ("tempo trajectories with 1-6 points, bpm 20..240, curve shapes in {0, +-0.5 .. +-5}, jumps, total length 0.25-2x the "
              "event (or a constant tempo, or tempo 60); histories of 1-5 conversions on ONE converter: random trees (depth <= 3, "
              "simultaneities, zero-length leaves), two different subdivisions of the same span, and repeats of earlier events. "
              "non-trivial = some leaf boundary lies strictly inside a curved segment of the trajectory")
ASSUMPTIONS = ASSUMPTIONS_M2 + ["converted durations are compared within 1e-9 relative + 3e-10 s (the implementation rounds every new duration to 1e-10)"]
TRUSTED = TRUSTED_M2


def partition(rng, total, unit, n):
    cuts = sorted(set([0, total] + [rng.randint(1, max(1, total // unit - 1)) * unit for _ in range(n)]))
    cuts = [c for c in cuts if 0 <= c <= total]
    return [b - a for a, b in zip(cuts, cuts[1:]) if b > a]


def gen(seed, index):
    rng = rng_for(PID, seed, index)
    unit = rng.choice([2500000000, 5000000000, 10000000000, 3333333333])
    G1 = g1.G(rng, unit=unit, max_depth=rng.choice([1, 2, 2, 3]), tempi=True)      # nodes may carry a tempo of their own
    trees = []
    first = G1.tree(kind=rng.choice(["S", "S", "P"]))
    D = max(g1.dur(first), unit)
    mode = rng.random()
    if mode < 0.12:
        # a constant tempo: as a one-point trajectory, or (kind D) as the tempo OBJECT a user would write - a DirectTempo,
        # or a WesternTempo (for 120)
        tempo = [rng.choice(["T", "D", "D"]), [0, g.hexf(rng.choice([30, 60, 90, 120, 47.5])), g.hexf(0)]]
    elif mode < 0.2:
        tempo = [rng.choice(["T", "D"]), [0, g.hexf(60), g.hexf(0)]]
    else:
        n = rng.randint(2, 6)
        span = int(D * rng.choice([0.25, 0.5, 1, 1, 1.5, 2]))
        GE = g.GE(rng, kind="T", unit=max(1, span // n // 4 or 1), shapes=[0, 0, 0.5, -0.5, 1, -1, 2, -2, 3, -3, 5, -5], last_positive=False)
        tempo = GE.env(n)
        tempo[0] = "T"
        if rng.random() < 0.05:
            # finding F13: a curve shape that is not 0 but tiny
            rng.choice(tempo[1:])[2] = g.hexf(rng.choice([1e-8, 1e-9, -1e-9, 1e-7]))
        elif rng.random() < 0.06:
            # very steep curves (the closed form is exact up to |shape| of about 700)
            rng.choice(tempo[1:])[2] = g.hexf(rng.choice([600, -600, 520, -650, 300, -300, 40]))
    if rng.random() < 0.12:
        from props import C02 as _c2
        _c2.share_leaves(rng, first)          # one leaf object at several positions (the conversion works on a destructive copy)
    trees.append(first)
    for _ in range(rng.choice([0, 1, 1, 2, 3, 4])):
        r = rng.random()
        if r < 0.35:
            # two subdivisions of the same span [0, D]
            lbl = [100]

            def leafs(parts):
                out = []
                for d in parts:
                    lbl[0] += 1
                    out.append(["L", d, lbl[0]])
                return out
            trees.append(["S", 0, 0] + leafs(partition(rng, D, unit, rng.randint(0, 5))))
            trees.append(["S", 0, 0] + [["S", 0, 0] + leafs(partition(rng, D, unit, rng.randint(1, 6)))])
        elif r < 0.6:
            trees.append(rng.choice(trees))
        else:
            trees.append(G1.tree(kind=rng.choice(["S", "P", "L"])))
    return ["convert", tempo] + trees[:6]


def model_case(case):
    if case[1][0] == "D":
        return [case[0], ["T"] + case[1][1:]] + case[2:]      # a constant tempo object is the one-point trajectory of the model
    return case


def compare(case, mo, io):
    m = compare1(case, mo, io)
    return ("[F13] " + m) if m and tiny_shape(case[1]) else m


def compare1(case, mo, io):
    if is_err(mo) or is_err(io):
        return None if mo[:2] == io[:2] else f"outcome differs: model {sx.show(mo[:2])} impl {sx.show(io[:2])}"
    for k, (a, b) in enumerate(zip(mo[1:], io[1:])):
        if b and b[0] == "flags":
            break
        if not same(a, b, rel=1e-9, abs_=3e-10):
            return f"conversion {k}: model {sx.show(a)[:200]} impl {sx.show(b)[:200]}"
    return None


def sec_env(tempo):
    return ["E"] + [[p[0], (60.0 / fl(p[1])).hex(), p[2]] for p in tempo[1:]]


def simpson(env, a, b, panels=16):
    if a == b:
        return 0.0
    pts, durs, total = env_points(env)
    cuts = sorted(set([a, b] + [t for (t, _, _) in pts if a < t < b]))
    tot = 0.0
    for u, v in zip(cuts, cuts[1:]):
        n = panels
        h = (v - u) / n
        ys = []
        for i in range(n + 1):
            x = u + i * h
            if i == 0:
                x = u + min(1, (v - u) / 4)
            if i == n:
                x = v - min(1, (v - u) / 4)
            ys.append(ref_value_at(env, x))
        tot += (ys[0] + ys[-1] + 4 * sum(ys[1:-1:2]) + 2 * sum(ys[2:-1:2])) * (h / TICK) / 3
    return tot


def leaf_spans(t, off=0):
    if t[0] == "L":
        return [(off, off + int(t[1]))]
    out = []
    if t[0] == "S":
        for c in t[3:]:
            out += leaf_spans(c, off)
            off += g1.dur(c)
    else:
        for c in t[3:]:
            out += leaf_spans(c, off)
    return out


def oracle(case, io, mo):
    m = oracle1(case, io, mo)
    return ("[F13] " + m) if m and tiny_shape(case[1]) else m


def oracle1(case, io, mo):
    if is_err(io):
        return f"conversion raised {io[1]}"
    tempo = case[1]
    trees = case[2:]
    flags = io[-1][1:]
    if flags:
        return "conversion side effects: " + " ".join(flags)
    senv = sec_env(tempo)
    steep = max([abs(fl(p[2])) for p in tempo[1:]] + [1])
    results = io[1:-1]
    if len(results) != len(trees):
        return "missing results"
    const = len(tempo) == 2
    seen = {}
    totals = {}
    for k, (t, r) in enumerate(zip(trees, results)):
        spans = leaf_spans(t)
        if len(spans) != len(r):
            return f"conversion {k}: structure changed (leaf count)"
        for (a, b), v in zip(spans, r):
            got = fl(v)
            exp = simpson(senv, a, b)
            if abs(got - exp) > 2e-5 * steep ** 4 * max(1.0, abs(exp)) + 3e-10:
                return f"conversion {k}: leaf over beats [{a}, {b}) ticks lasts {got!r} s, the integral of 60/bpm is {exp!r}"
            if const:
                e2 = (b - a) / TICK * 60.0 / fl(tempo[1][1])
                if abs(got - e2) > 1e-9 * max(1, e2) + 1e-10:
                    return f"constant tempo: leaf of {(b - a) / TICK} beats lasts {got!r}, not d*60/bpm = {e2!r}"
        key = sx.show(t)
        if key in seen and seen[key] != r:
            return f"the converter answers differently for the same event at conversion {k} than before"
        seen[key] = r
        # subdivision independence: same span, pure sequences of leaves
        if all(c[0] != "P" for c in walk(t)) and t[0] == "S":
            tot = sum(fl(v) for v in r)
            D = g1.dur(t)
            if D in totals and abs(totals[D] - tot) > 1e-9 * max(1, tot) + 3e-10 * (len(r) + 8):
                return f"two subdivisions of the same {D / TICK} beats convert to totals {totals[D]!r} and {tot!r}"
            totals.setdefault(D, tot)
    return None


def walk(t):
    yield t
    if t[0] != "L":
        for c in t[3:]:
            yield from walk(c)


def tiny_shape(e):
    """a tempo point with a curve shape 0 < |c| < 1e-4 (finding F13)"""
    return any(0 < abs(fl(p[2])) < 1e-4 for p in e[1:])


def known(f, case, msg, io):
    return f.get("id") == "F13" and (msg or "").startswith("[F13]")


def known_dis(f, case, msg, io, mo):
    return f.get("id") == "F13" and (msg or "").startswith("[F13]")


def nontrivial(case, io):
    tempo = case[1]
    e = ["E"] + tempo[1:]
    for t in case[2:]:
        for (a, b) in leaf_spans(t):
            if g.in_curved_segment(e, a) or g.in_curved_segment(e, b):
                return True
    return False


def stats(results):
    from collections import Counter
    c = Counter()
    for r in results:
        case = r["case"]
        c["history=%d" % (len(case) - 2)] += 1
        c["tempo-points=%d" % (len(case[1]) - 1)] += 1
    return dict(sorted(c.items()))


def shrink(case):
    out = []
    for i in range(2, len(case)):
        if len(case) > 3:
            out.append(case[:i] + case[i + 1:])
    t = case[1]
    for i in range(1, len(t)):
        if len(t) > 2:
            out.append(["convert", t[:i] + t[i + 1:]] + case[2:])
    return out


def neighbours(case):
    return shrink(case)
