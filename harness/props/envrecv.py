"""Envelope receivers for the event properties.

"Every event tree" includes the library's other sequence classes: an Envelope (or an Envelope subclass with its own
parameter / curve-shape hooks, a FlexTempo) is a Consecution whose children are control points, and it overrides the
operations of C02, C03, C05.  A share of the cases of those properties therefore hands the operation to an envelope; such
a case is generated, run (harness/impl_m2.py, model M2) and judged exactly like the corresponding case of C11, except
that the clause of C11's open finding F6 (a piece boundary on a jump) is not this property's business and is skipped.

usage, at the end of props/Cxx.py:   envrecv.install(globals(), "split_at", 0.05)
"""
from props import C11 as env
from props.m2common import rng_for as _rng_for


def is_env(case):
    return isinstance(case, list) and case and case[0] == "envop"


def gen_squash(seed, index):
    """an envelope, a start (on / between control points, at the end, behind the end, negative) and a new control point"""
    from props.m2common import g
    rng = _rng_for("envelope-squash_in", seed, index)
    G = g.GE(rng)
    e = G.env(rng.randint(1, 6))
    st, total = g.starts(e)
    r = rng.random()
    if r < 0.2:
        start = total + rng.choice([1, G.unit, 3 * G.unit])          # behind the end: rejected
    elif r < 0.25:
        start = -rng.choice([1, G.unit])
    elif r < 0.4:
        start = total
    else:
        start = g.pick_time(rng, e, allow_bad=False, inside_bias=0.6)
    d = rng.choice([0, 0, 1, G.unit, 2 * G.unit])
    return ["envop", e, ["squash_in", start, d, g.hexf(rng.choice([0, 1, -2, 3.5, 60, 90]))]]


def oracle_squash(case, io):
    from props.m2common import env_points, is_err, fl
    e, op = case[1], case[2]
    pts, durs, total = env_points(e)
    start, d, v = int(op[1]), int(op[2]), fl(op[3])
    if start < 0 or start > total:
        if is_err(io) and io[1] in ("InvalidStartValueError", "InvalidAbsoluteTime"):
            return None
        return f"squash_in at {start} on an envelope of duration {total} was not rejected: {str(io)[:120]}"
    if is_err(io):
        return f"squash_in with a valid start raised {io[1]}"
    new = [[int(p[0]), fl(p[1])] for p in io[1][1:]]
    t, at = 0, []
    for dd, vv in new:
        at.append((t, dd, vv))
        t += dd
    if t != max(total, start + d):
        return f"duration {t} after squash_in, expected {max(total, start + d)}"
    if not any(a == start and dd == d and vv == v for (a, dd, vv) in at):
        return f"no control point of length {d} and value {v} begins exactly at {start} afterwards"
    return None


def gen_env(seed, index, opname):
    if opname == "squash_in":
        return gen_squash(seed, index)
    for k in range(80):
        c = env.gen(seed, index * 83 + k)
        if c[0] == "envop" and c[2][0] == opname:
            return c
    return None


def install(ns, opname, share):
    """wraps gen / compare / oracle / nontrivial / stats / shrink / neighbours / model_case of a props module"""
    pid = ns["PID"]
    base = {k: ns.get(k) for k in ("gen", "compare", "oracle", "nontrivial", "stats", "shrink", "neighbours", "model_case", "case_note")}
    runner = ns["RUNNER"]

    def gen(seed, index):
        rng = _rng_for(pid + "-envelope-receiver", seed, index)
        if rng.random() < share:
            c = gen_env(seed, index, opname)
            if c is not None:
                return c
        return base["gen"](seed, index)

    def compare(case, mo, io):
        return env.compare(case, mo, io) if is_env(case) else base["compare"](case, mo, io)

    def oracle(case, io, mo):
        if not is_env(case):
            return base["oracle"](case, io, mo)
        m = oracle_squash(case, io) if case[2][0] == "squash_in" else env.oracle(case, io, mo)
        if m and m.startswith("[F6]"):
            return None
        return ("an envelope as the receiver: " + m) if m else None

    def nontrivial(case, io):
        if is_env(case) and case[2][0] == "squash_in":
            return io is not None and io[0] == "ok" and len(case[1]) > 2
        return env.nontrivial(case, io) if is_env(case) else base["nontrivial"](case, io)

    def stats(results):
        out = base["stats"]([r for r in results if not is_env(r["case"])]) if base["stats"] else {}
        n = sum(1 for r in results if is_env(r["case"]))
        if n:
            out["receiver:envelope"] = n
        return out

    def shrink(case):
        if is_env(case):
            return env.shrink(case) if hasattr(env, "shrink") else []
        return base["shrink"](case) if base["shrink"] else []

    def neighbours(case):
        if is_env(case):
            return env.neighbours(case) if hasattr(env, "neighbours") else []
        return base["neighbours"](case) if base["neighbours"] else []

    def model_case(case):
        if is_env(case):
            return env.model_case(case) if hasattr(env, "model_case") else case
        return base["model_case"](case) if base["model_case"] else case

    def runner_for(case):
        return "impl_m2.py" if is_env(case) else runner

    def case_note(case):
        if is_env(case):
            return "the receiver is an envelope (a sequence of control points); the case runs through harness/impl_m2.py, times in ticks of 1e-10 beats"
        return base["case_note"](case) if base["case_note"] else None

    ns.update(gen=gen, compare=compare, oracle=oracle, nontrivial=nontrivial, stats=stats, shrink=shrink,
              neighbours=neighbours, model_case=model_case, runner_for=runner_for, case_note=case_note)
