"""C14 — copies and converted events are independent of their source."""
from props.m1common import rng_for, is_err
import sx

PID = "C14"
KERNELS = ['K_event_copy', 'K_destructive_copy']   # translated from /repo on every run, tied to the model by coq/Gen/<name>_eq.v
RUNNER = "impl_m3.py"
N = {"quick": 1200, "thorough": 40000}
VM_CROSSCHECK = True
LEVEL_RULE = ("object graphs: event trees (depth <= 4) in which the same leaf / sub-container / duration object / tempo object is "
              "referenced several times (ids mark identity); tempo objects are direct tempi, trajectories or static trajectories "
              "on any node; operations copy(), destructive_copy(), TempoConverter.convert, EventToMetrizedEvent.convert. Observed: "
              "the aliasing pattern of the result (every slot event / duration object / tempo object numbered by first occurrence), "
              "the objects shared between source and result (events, durations, tempi, control points of trajectories, via id()), "
              "a structural snapshot of the source before/after the operation, and two mutation runs (every duration, parameter, "
              "tag, tempo value and child list of the result resp. of the source is changed and the other side re-snapshotted). "
              "non-trivial = the source has a shared object or a trajectory tempo")
ASSUMPTIONS = ["object identity is modelled by ids; copy = fresh isomorphic graph keeping the sharing, destructive copy / conversions = a fresh object per position",
               "what is inside parameter values other than durations and tempi is not followed",
               "the model is tied to /repo by this run's differential correspondence (sampled)"]
TRUSTED = ["harness/impl_m3.py (builds the shared object graph, walks it with id(), mutates and snapshots)"]


def gen(seed, index):
    rng = rng_for(PID, seed, index)
    counter = [100]
    leaves, nodes, durs, tempi = [], [], [7, 8, 9], [1, 2, 3, 4, 5, 6]

    def nid():
        counter[0] += 1
        return counter[0]

    p_share = rng.choice([0.0, 0.15, 0.3])

    def tempo():
        if rng.random() < p_share * 1.5 and tempi:
            return rng.choice(tempi)
        t = nid()
        tempi.append(t)
        return t

    def dur():
        if rng.random() < p_share and durs:
            return rng.choice(durs)
        d = nid()
        durs.append(d)
        return d

    def node(depth):
        r = rng.random()
        if leaves and r < p_share:
            return rng.choice(leaves)
        if nodes and r < p_share * 1.4 and depth < 3:
            return rng.choice(nodes)
        if depth == 0 or r < 0.5:
            l = ["l", nid(), dur(), tempo()]
            leaves.append(l)
            return l
        n = [rng.choice("ssp"), nid(), tempo()] + [node(depth - 1) for _ in range(rng.choice([1, 2, 3]))]
        nodes.append(n)
        return n

    root = [rng.choice("ssp"), 0, tempo()] + [node(rng.choice([1, 2, 3])) for _ in range(rng.choice([1, 2, 3]))]
    return ["copyop", rng.choice(["copy", "dcopy", "tconv", "metr"]), root]


def model_case(case):
    op = case[1]
    return ["copyop", "copy" if op == "copy" else "dcopy", case[2]]


def compare(case, mo, io):
    if is_err(mo) or is_err(io):
        return None if mo[:2] == io[:2] else f"outcome differs: model {sx.show(mo[:2])} impl {sx.show(io[:2])}"
    if mo[1] != io[1]:
        return f"aliasing pattern of the result differs: model {sx.show(mo[1])} impl {sx.show(io[1])}"
    if mo[2] != io[2]:
        return f"objects shared with the source: model {sx.show(mo[2])} impl {sx.show(io[2])}"
    return None


def oracle(case, io, mo):
    if is_err(io):
        return f"{case[1]} raised {io[1]}"
    shared = io[2][1:]
    if shared:
        return f"the result of {case[1]} shares mutable objects with its source: {' '.join(shared)}"
    flags = io[3][1:] if len(io) > 3 else []
    if flags:
        return f"{case[1]}: " + " ".join(flags)
    pat = [int(x) for x in io[1][1:]]
    if case[1] != "copy" and len(set(pat)) != len(pat):
        return f"the result of {case[1]} contains an object twice (aliasing pattern {pat})"
    return None


def ids_of(t):
    if t[0] == "l":
        return [int(t[1]), int(t[2]), int(t[3])]
    out = [int(t[1]), int(t[2])]
    for c in t[3:]:
        out += ids_of(c)
    return out


def nontrivial(case, io):
    ids = ids_of(case[2])
    return len(ids) != len(set(ids)) or any(i % 3 == 1 for i in ids)


def stats(results):
    from collections import Counter
    c = Counter()
    for r in results:
        case = r["case"]
        c["op:" + case[1]] += 1
        ids = ids_of(case[2])
        c["shared-objects" if len(ids) != len(set(ids)) else "tree"] += 1
    return dict(sorted(c.items()))


def shrink(case):
    return []


def neighbours(case):
    return []
