"""C04 — cut_off removes exactly [start, end) and closes the gap."""
from props.m1common import *  # noqa: F401,F403
from props.m1common import hist_compare, hist_oracle, hist_times, g, sp, sx, rng_for, is_err, compare_result, shrink_tree

PID = "C04"
KERNELS = ['K_chronon_cut_off', 'K_cut_off_step', 'K_sim_cut']   # translated from /repo on every run, tied to the model by coq/Gen/<name>_eq.v
RUNNER = "impl_m1.py"
VM_CROSSCHECK = True
N = {"quick": 2000, "thorough": 80000}
LEVEL_RULE = ("(10 % of the non-leaf cases are histories of 2-3 further ranges on the same event object, every step judged like a single call on the state left behind) random event trees as C03; ranges aligned to child boundaries +-1 tick, leaf interiors, past the end, "
              "starting at/after the end, zero-length children on the edges, negative starts. non-trivial = the call succeeds, "
              "the range is non-empty, intersects the event and crosses at least two leaves or an edge lies strictly inside a leaf "
              "of a nested (depth >= 2) child")
ASSUMPTIONS = ASSUMPTIONS_M1
TRUSTED = TRUSTED_M1


def gen1(seed, index):
    rng = rng_for(PID, seed, index)
    G = g.G(rng, tags=True, tempi=True)      # containers carry tags and tempi (opaque ids in the model)
    t = G.tree(kind=rng.choice(["S", "S", "P", "L", None]))
    bad = rng.random() < 0.06
    a = g.pick_time(rng, t, bad)
    b = g.pick_time(rng, t, bad)
    if rng.random() < 0.1:
        a = g.dur(t) + rng.choice([0, 1, G.unit])
        b = a + rng.choice([0, 1, G.unit])
    if a > b and not (bad and rng.random() < 0.5):
        a, b = b, a
    if rng.random() < 0.15:
        g.anonymise(t)          # leaves without a name: equal durations make distinct siblings ==
    if rng.random() < 0.03:
        # argument checks on containers that have nothing below them to delegate to: leafless simultaneities / sequences
        t = rng.choice([["P", 0, 0], ["P", 1, 0, ["P", 0, 0]], ["S", 0, 0], ["P", 0, 2, ["P", 0, 0], ["S", 2, 0]], ["S", 0, 0, ["P", 0, 0]]])
        a, b = rng.choice([(-1, 2), (-G.unit, G.unit), (-1, -1), (0, G.unit), (1, 1)])
    return ["op", t, ["cut_off", a, b]]


def gen(seed, index):
    case = gen1(seed, index)
    rng = rng_for(PID + "-hist", seed, index)
    if rng.random() < 0.1 and case[1][0] != "L":
        # history stream: 2-3 further ranges removed from the same event object
        half = max(1, g.dur(case[1]) // 12)
        d = g.dur(case[1])
        ops = []
        for _ in range(rng.randint(2, 3)):
            a, b = sorted(hist_times(rng, d, half, 2))
            if a == b:
                b = a + half
            ops.append(["cut_off", a, b])
            d = max(0, d - (min(b, d) - min(a, d)))
        return ["hist", case[1]] + ops
    return case


def compare(case, mo, io):
    if case[0] == "hist":
        return hist_compare(case, mo, io)
    return compare_result(mo, io)


def oracle(case, io, mo):
    from props.m1common import alias_failure as _af
    if case[0] != "hist" and _af(io):
        return _af(io)
    if case[0] == "hist":
        return hist_oracle(oracle, case, io)
    t = sp.norm(case[1])
    s, e = int(case[2][1]), int(case[2][2])
    if s < 0:
        return None if io[:2] == ["err", "InvalidAbsoluteTime"] else f"negative start not rejected: {sx.show(io[:2])}"
    if e < s:
        return None  # outside the property (start < end is presupposed)
    if is_err(io):
        return f"valid range rejected with {io[1]}"
    r = sp.norm(io[1])
    d = sp.dur(t)
    nd = d - (min(e, d) - min(s, d))
    if sp.dur(r) != nd:
        return f"duration {sp.dur(r)} != {nd} (old duration minus the part of the range inside the event)"
    if sp.shape(r) != sp.shape(t):
        return "kind / tag / tempo of the event changed"
    pts = sp.probes(sp.breakpoints(t) | {b - (e - s) for b in sp.breakpoints(t)} | sp.breakpoints(r) | {s, e})
    for x in pts:
        exp = sp.at(t, x if x < s else x + (e - s))
        if sp.at(r, x) != exp:
            return f"at time {x}: active {sp.at(r, x)}, expected {exp} (before start unchanged, from end on shifted by end - start)"
    # zero-length leaves (children of sequences): inside [start, end) gone, outside kept at their (shifted) time
    if e > s and t[0] != "L":
        from props.C05 import zero_leaves
        zt = zero_leaves(t, seq_only=True)
        zlabels = {l for (_, l) in zt}
        zr = sorted((a, l) for (a, l) in zero_leaves(r, seq_only=True) if l in zlabels)
        must = sorted([(a, l) for (a, l) in zt if a < s] + [(a - (e - s), l) for (a, l) in zt if a > e])
        may = [(a - (e - s), l) for (a, l) in zt if a == e]     # exactly on the end edge: kept unless its container is removed as a whole
        gone = [(a, l) for (a, l) in zt if s <= a < e]
        rest = [x for x in zr if x not in must]
        if any(x not in zr for x in must):
            return f"zero-length events outside the removed range were lost or moved: expected {must}, got {zr}"
        if any(x not in may for x in rest):
            return f"zero-length events {gone} lie inside the removed range [{s}, {e}) but {[x for x in rest if x not in may]} are still there"
    # leaves strictly outside the range survive in order
    if s >= d and sp.flat(r) != sp.flat(t) and [x for x in sp.flat(r) if x[0] < x[1]] != [x for x in sp.flat(t) if x[0] < x[1]]:
        return "a range starting at or after the end changed the content"
    return None


def nontrivial(case, io):
    if case[0] == "hist":
        return io is not None and len(io) >= 3 and not any(is_err(x) for x in io[1:])
    if io is None or is_err(io):
        return False
    t = case[1]
    s, e = int(case[2][1]), int(case[2][2])
    if not (0 <= s < e and s < g.dur(t)):
        return False
    iv = g.leaf_intervals(t)
    crossed = sum(1 for (a, b) in iv if a < e and b > s and b > a)
    inside = g.depth(t) >= 3 and any(a < x < b for (a, b) in iv for x in (s, e))
    return crossed >= 2 or inside


def stats(results):
    from collections import Counter
    c = Counter()
    for r in results:
        io = r.get("io")
        if r["case"][0] == "hist":
            c["history:steps=%d" % (len(r["case"]) - 2)] += 1
            continue
        c["ok" if io and io[0] == "ok" else "err:" + (io[1] if io else "?")] += 1
        c["root:" + r["case"][1][0]] += 1
    return dict(sorted(c.items()))


def shrink(case):
    if case[0] == "hist":
        return [case[:2] + case[2:2 + i] + case[3 + i:] for i in range(len(case) - 2) if len(case) > 3]
    return [["op", t2, case[2]] for t2 in shrink_tree(case[1])]


def neighbours(case):
    if case[0] == "hist":
        return shrink(case)
    out = []
    s, e = int(case[2][1]), int(case[2][2])
    for ds in (-1, 0, 1):
        for de in (-1, 0, 1):
            out.append(["op", case[1], ["cut_off", s + ds, e + de]])
    return out + shrink(case)


EXHAUSTIVE_SPACE = ("every tree with <= 4 nodes over leaf lengths {0, 1, 2} (sequences, simultaneities, empty containers), "
                    "every pair (start, end) in -1 .. duration+2")


def exhaustive_cases():
    out = []
    for t in g.enumerate_trees(4, (0, 1, 2)):
        d = g.dur(t)
        for a in range(-1, d + 3):
            for b in range(-1, d + 3):
                out.append(["op", t, ["cut_off", a, b]])
    return out
