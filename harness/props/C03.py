"""C03 — cut_out keeps exactly the window [start, end) of the timeline."""
from props.m1common import *  # noqa: F401,F403
from props.m1common import hist_compare, hist_oracle, hist_times, g, sp, sx, rng_for, is_err, compare_result, shrink_tree

PID = "C03"
KERNELS = ['K_chronon_cut_out', 'K_cut_out_step', 'K_sim_cut']   # translated from /repo on every run, tied to the model by coq/Gen/<name>_eq.v
RUNNER = "impl_m1.py"
VM_CROSSCHECK = True
N = {"quick": 2000, "thorough": 80000}
LEVEL_RULE = ("(10 % of the non-leaf cases are histories of 2-3 further windows on the same event object, every step judged like a single call on the state left behind) random event trees (depth <= 4, zero-length leaves, empty containers, simultaneities with unequal voices); "
              "windows aligned to child boundaries +-1 tick, leaf interiors, past the end, zero-length children on the edges, "
              "plus a malformed stream (negative start, end < start). non-trivial = the call succeeds and a window edge lies "
              "strictly inside a leaf of a nested (depth >= 2) child")
ASSUMPTIONS = ASSUMPTIONS_M1
TRUSTED = TRUSTED_M1


def gen1(seed, index):
    rng = rng_for(PID, seed, index)
    G = g.G(rng, tags=True, tempi=True)      # containers carry tags and tempi (opaque ids in the model)
    t = G.tree(kind=rng.choice(["S", "S", "P", "L", None]))
    bad = rng.random() < 0.08
    a = g.pick_time(rng, t, bad)
    b = g.pick_time(rng, t, bad)
    if a > b and not (bad and rng.random() < 0.5):
        a, b = b, a
    if rng.random() < 0.15:
        g.anonymise(t)          # leaves without a name: equal durations make distinct siblings ==
    if rng.random() < 0.03:
        # argument checks on containers that have nothing below them to delegate to: leafless simultaneities / sequences
        t = rng.choice([["P", 0, 0], ["P", 1, 0, ["P", 0, 0]], ["S", 0, 0], ["P", 0, 2, ["P", 0, 0], ["S", 2, 0]], ["S", 0, 0, ["P", 0, 0]]])
        a, b = rng.choice([(-1, 2), (-G.unit, G.unit), (-1, -1), (0, G.unit), (1, 1)])
    return ["op", t, ["cut_out", a, b]]


def gen(seed, index):
    case = gen1(seed, index)
    rng = rng_for(PID + "-hist", seed, index)
    if rng.random() < 0.1 and case[1][0] != "L":
        # history stream: 2-3 further windows on the same (shrinking) event object
        half = max(1, g.dur(case[1]) // 12)
        d = g.dur(case[1])
        ops = []
        for _ in range(rng.randint(2, 3)):
            a, b = sorted(hist_times(rng, d, half, 2))
            if a == b:
                b = a + half
            ops.append(["cut_out", a, b])
            d = b - a
        return ["hist", case[1]] + ops
    return case


def compare(case, mo, io):
    if case[0] == "hist":
        return hist_compare(case, mo, io)
    return compare_result(mo, io)


def rejects(t, s, e, top=True):
    """does the documented rule reject the window: a leaf that is the event itself or a direct voice of
    a simultaneity (at any depth, with the window handed down) is missed entirely"""
    if t[0] == "L":
        return not (s < e) or s >= t[1] if top else False
    return False


def oracle(case, io, mo):
    from props.m1common import alias_failure as _af
    if case[0] != "hist" and _af(io):
        return _af(io)
    if case[0] == "hist":
        return hist_oracle(oracle, case, io)
    t = sp.norm(case[1])
    s, e = int(case[2][1]), int(case[2][2])
    if s < 0:
        return None if io[:2] == ["err", "InvalidAbsoluteTime"] else f"negative start not rejected: {sx.show(io[:2])}"
    if e < s:
        return None if io[:2] == ["err", "InvalidStartAndEndValueError"] else f"end < start not rejected: {sx.show(io[:2])}"
    if is_err(io):
        # a rejection is legitimate only if some voice leaf is missed by the window handed down to it
        if not misses(t, s, e):
            return f"rejected with {io[1]} although no leaf voice is missed by the window"
        return None
    if misses(t, s, e):
        return "accepted although a leaf that is the event itself / a direct voice of a simultaneity is missed"
    r = sp.norm(io[1])
    nd = max(0, min(e, sp.dur(t)) - s)
    if sp.dur(r) != nd:
        return f"duration {sp.dur(r)} != min(end, duration) - start = {nd}"
    if sp.shape(r) != sp.shape(t):
        return "kind / tag / tempo of the event changed"
    pts = sp.probes({b - s for b in sp.breakpoints(t)} | sp.breakpoints(r) | {0, nd})
    for x in pts:
        exp = sp.at(t, s + x) if 0 <= x < nd else None
        if sp.at(r, x) != exp:
            return f"at offset {x}: active {sp.at(r, x)} but at start+x the original had {exp}"
    # nothing inside the window is altered / order kept: surviving leaves are the clipped originals in order
    exp_flat = [(max(a, s) - s, min(b, e) - s, l, p) for (a, b, l, p) in sp.flat(t) if max(a, s) < min(b, e)]
    got_flat = [x for x in sp.flat(r) if x[1] > x[0]]
    if [x[:3] for x in exp_flat] != [x[:3] for x in got_flat]:
        return "surviving non-zero leaves are not the clipped originals in the original order"
    # zero-length events (children of sequences): inside [start, end) kept at their offset, outside [start, end] gone;
    # exactly on the end edge the window [start, end) does not decide (the correspondence pins the code's choice)
    if t[0] != "L" and e > s:
        from props.C05 import zero_leaves
        zt = zero_leaves(t, seq_only=True)
        zl = {l for (_, l) in zt}
        zr = sorted((a, l) for (a, l) in zero_leaves(r, seq_only=True) if l in zl)
        must = sorted((a - s, l) for (a, l) in zt if s < a < e)
        may = [(a - s, l) for (a, l) in zt if a == e or a == s]   # on an edge: may go with a container that ends / starts there
        if any(x not in zr for x in must):
            # a zero-length event inside the window may vanish only together with a fully removed container: not possible inside the window
            return f"zero-length events inside the window were lost: expected {must}, got {zr}"
        if any(x not in must and x not in may for x in zr):
            return f"zero-length events outside the window survived: {[x for x in zr if x not in must and x not in may]}"
    return None


def misses(t, s, e, voice=True):
    """window (s, e) handed down to t misses a leaf that is t itself or a direct voice of a simultaneity"""
    if t[0] == "L":
        return voice and (not s < e or s >= t[1])
    if t[0] == "P":
        return any(misses(c, s, e, True) for c in sp.kids(t))
    o = 0
    for c in sp.kids(t):
        d = sp.dur(c)
        a = s - o if o < s else 0
        b = d - (o + d - e) if e < o + d else d
        if a < b and c[0] != "L" and misses(c, a, b, False):
            return True
        o += d
    return False


def nontrivial(case, io):
    if case[0] == "hist":
        return io is not None and len(io) >= 3 and not any(is_err(x) for x in io[1:])
    if io is None or is_err(io):
        return False
    t = case[1]
    s, e = int(case[2][1]), int(case[2][2])
    if g.depth(t) < 3:
        return False
    return any(a < x < b for (a, b) in g.leaf_intervals(t) for x in (s, e))


def stats(results):
    from collections import Counter
    c = Counter()
    for r in results:
        io = r.get("io")
        if r["case"][0] == "hist":
            c["history:steps=%d" % (len(r["case"]) - 2)] += 1
            continue
        c["ok" if io and io[0] == "ok" else "err:" + (io[1] if io else "?")] += 1
        c["root:" + r["case"][1][0]] += 1
    return dict(sorted(c.items()))


def shrink(case):
    if case[0] == "hist":
        return [case[:2] + case[2:2 + i] + case[3 + i:] for i in range(len(case) - 2) if len(case) > 3]
    return [["op", t2, case[2]] for t2 in shrink_tree(case[1])]


def neighbours(case):
    if case[0] == "hist":
        return shrink(case)
    out = []
    s, e = int(case[2][1]), int(case[2][2])
    for ds in (-1, 0, 1):
        for de in (-1, 0, 1):
            out.append(["op", case[1], ["cut_out", s + ds, e + de]])
    return out + shrink(case)


EXHAUSTIVE_SPACE = ("every tree with <= 4 nodes over leaf lengths {0, 1, 2} (sequences, simultaneities, empty containers), "
                    "every pair (start, end) in -1 .. duration+2")


def exhaustive_cases():
    out = []
    for t in g.enumerate_trees(4, (0, 1, 2)):
        d = g.dur(t)
        for a in range(-1, d + 3):
            for b in range(-1, d + 3):
                out.append(["op", t, ["cut_out", a, b]])
    return out


from props import envrecv  # noqa: E402
envrecv.install(globals(), "cut_out", 0.05)      # 5 % of the cases: an envelope is the receiver (judged as in C11)
