"""Seeded generators for event trees and M1 operation cases.

Every random choice is derived from one `random.Random(f"{prop}-{seed}-{index}")` per case, so a
case can be regenerated from (property, seed, index) alone.
Trees are s-expressions: ("L", d, l) | ("S", tag, tempo, kids...) | ("P", tag, tempo, kids...).
"""
import random

UNITS = [2500000000, 10000000000, 3333333333, 1, 123456789, 5000000000]


class G:
    def __init__(self, rng, unit=None, zero_p=None, max_depth=None, allow_sim=True, tags=False, tempi=False):
        self.r = rng
        self.unit = unit if unit is not None else rng.choice(UNITS)
        self.zero_p = zero_p if zero_p is not None else rng.choice([0.0, 0.15, 0.3])
        self.max_depth = max_depth if max_depth is not None else rng.choice([1, 2, 2, 3, 3, 4])
        self.allow_sim = allow_sim
        self.tags = tags
        self.tempi = tempi
        self.next_label = 1
        # a wide score now and then: one sequence of 65 - 300 children (absolute times beyond 100 beats with the larger units),
        # so that code paths keyed on the number of children or on the magnitude of the times are met as well
        self.wide = rng.random() < 0.04

    def wide_seq(self):
        n = self.r.choice([65, 66, 70, 130, 257, 258, 300])
        kids = []
        for _ in range(n):
            kids.append(self.tree(1, kind="S") if self.r.random() < 0.03 else self.leaf())
        tag, tempo = self.meta()
        return ["S", tag, tempo] + kids

    def label(self):
        l = self.next_label
        self.next_label += 1
        return l

    def leaf(self, maxk=6):
        d = 0 if self.r.random() < self.zero_p else self.r.randint(1, maxk) * self.unit
        return ["L", d, self.label()]

    def meta(self):
        tag = self.r.choice([0, 0, 1, 2, 3]) if self.tags else 0
        tempo = self.r.choice([0, 0, 0, 1, 2]) if self.tempi else 0
        return tag, tempo

    def tree(self, depth=None, kind=None):
        """kind: None (any), 'S', 'P', 'L'"""
        if depth is None:
            depth = self.max_depth
            if self.wide and kind != "L":
                self.wide = False
                w = self.wide_seq()
                if kind == "P" or (kind is None and self.r.random() < 0.3):
                    tag, tempo = self.meta()
                    return ["P", tag, tempo, w, self.tree(min(depth, 2))]
                return w
        r = self.r.random()
        if kind == "L" or (kind is None and (depth == 0 or r < 0.35)):
            return self.leaf()
        if kind is None:
            kind = "P" if (self.allow_sim and r > 0.72) else "S"
        n = self.r.choice([0, 1, 2, 2, 3, 3, 4])
        kids = [self.tree(depth - 1) for _ in range(n)]
        tag, tempo = self.meta()
        return [kind, tag, tempo] + kids

    def seq_of_containers(self, depth=2):
        n = self.r.choice([1, 2, 2, 3])
        tag, tempo = self.meta()
        return ["P", tag, tempo] + [self.tree(depth, kind="S") for _ in range(n)]


def anonymise(t):
    """all leaves lose their label (-1 = no `name` attribute): distinct leaves of equal length then compare equal with ==,
    as the notes of a real score do (list.index / list.remove / `in` by value pick the first equal one)"""
    if t[0] == "L":
        if int(t[2]) < 1000:
            t[2] = -1
        return t
    for c in t[3:]:
        anonymise(c)
    return t


# ---------------------------------------------------------------- tree utilities (on s-expr trees)
def dur(t):
    if t[0] == "L":
        return int(t[1])
    ds = [dur(c) for c in t[3:]]
    if t[0] == "S":
        return sum(ds)
    return max(ds, default=0)


def kids(t):
    return [] if t[0] == "L" else t[3:]


def depth(t):
    return 1 if t[0] == "L" else 1 + max([depth(c) for c in kids(t)], default=0)


def size(t):
    return 1 + sum(size(c) for c in kids(t))


def boundaries(t, off=0, nested_only=False, level=0):
    """absolute times of all child boundaries (set), optionally only those of nested containers"""
    out = set()
    if t[0] == "L":
        return out
    if t[0] == "S":
        o = off
        for c in kids(t):
            if not nested_only or level > 0:
                out.add(o)
                out.add(o + dur(c))
            out |= boundaries(c, o, nested_only, level + 1)
            o += dur(c)
    else:
        for c in kids(t):
            if not nested_only or level > 0:
                out.add(off)
                out.add(off + dur(c))
            out |= boundaries(c, off, nested_only, level + 1)
    return out


def leaf_intervals(t, off=0):
    """[(start, end)] of all leaves with absolute times"""
    if t[0] == "L":
        return [(off, off + int(t[1]))]
    out = []
    if t[0] == "S":
        o = off
        for c in kids(t):
            out += leaf_intervals(c, o)
            o += dur(c)
    else:
        for c in kids(t):
            out += leaf_intervals(c, off)
    return out


def has_sim_under_seq(t, under=False):
    if t[0] == "L":
        return False
    if t[0] == "P" and under:
        return True
    return any(has_sim_under_seq(c, under or t[0] == "S") for c in kids(t))


def has_zero_child(t):
    if t[0] == "L":
        return False
    return any(dur(c) == 0 for c in kids(t)) or any(has_zero_child(c) for c in kids(t))


def interesting_times(rng, t, extra=()):
    """A pool of times biased to boundaries, boundary +-1 tick, leaf interiors, 0, dur, dur+-1, -1."""
    d = dur(t)
    b = sorted(boundaries(t))
    pool = set([0, d, d + 1, -1, d - 1 if d > 0 else 0])
    for x in b:
        pool |= {x, x + 1, x - 1}
    for (a, e) in leaf_intervals(t):
        if e - a >= 2:
            pool.add((a + e) // 2)
            pool.add(rng.randint(a + 1, e - 1))
    for x in extra:
        pool.add(x)
    return sorted(pool)


def pick_time(rng, t, allow_bad=True):
    pool = interesting_times(rng, t)
    if not allow_bad:
        pool = [x for x in pool if 0 <= x <= dur(t)] or [0]
    return rng.choice(pool)


# ---------------------------------------------------------------- exhaustive small scope (thorough tier)
def enumerate_trees(max_nodes=4, leaf_lengths=(0, 1, 2)):
    """every tree with at most `max_nodes` nodes over the given leaf lengths (labels numbered in DFS order)"""
    from functools import lru_cache

    @lru_cache(maxsize=None)
    def shapes(n):
        """tuples describing trees with exactly n nodes: ('L', d) | ('S'|'P', children...)"""
        out = []
        if n == 1:
            out += [("L", d) for d in leaf_lengths]
        for kind in ("S", "P"):
            for forest in forests(n - 1):
                out.append((kind,) + forest)
        return tuple(out)

    @lru_cache(maxsize=None)
    def forests(n):
        """ordered forests with exactly n nodes in total"""
        if n == 0:
            return ((),)
        out = []
        for first in range(1, n + 1):
            for t in shapes(first):
                for rest in forests(n - first):
                    out.append((t,) + rest)
        return tuple(out)

    def label(t, counter):
        if t[0] == "L":
            counter[0] += 1
            return ["L", t[1], counter[0]]
        return [t[0], 0, 0] + [label(c, counter) for c in t[1:]]

    res = []
    for n in range(1, max_nodes + 1):
        for t in shapes(n):
            res.append(label(t, [0]))
    return res
