"""Implementation runner for the M4 (equality) cases: (eq A B) -> (ok a==b b==a a!=b b!=a [copy flags])."""
import sys
import os
import logging
import math

sys.path.insert(0, os.path.dirname(os.path.abspath(__file__)))
import sx  # noqa: E402

logging.disable(logging.CRITICAL)
from mutwo import core_events as ce  # noqa: E402
from mutwo import core_parameters as cp  # noqa: E402

TICK = 10**10


class Opaque:
    pass


def bpm_of(code):
    """a bpm code below 1000 is that many bpm; from 1000 on it is thousandths of a bpm (60040 = 60.04 bpm)"""
    c = int(code)
    return c if c < 1000 else c / 1000


def tempo(x):
    b = bpm_of(x[0])
    if len(x) == 1:
        return cp.DirectTempo(b)
    return cp.FlexTempo([[0, b, 0]] + [[int(p[0]) / TICK, bpm_of(p[1]), int(p[2])] for p in x[1:]])


class Note(ce.Chronon):
    """a user leaf class with class-level defaults for its additional parameters (an instance that sets one of them
    shadows the class attribute); the default is a value no case uses"""
    p1 = p2 = p3 = p4 = p5 = p6 = "unset"


LEAF = [ce.Chronon]


def build(x):
    k = x[0]
    if k == "N":
        v = int(x[1])
        return [None, 1, [], "x", Opaque(), 0.5, (1, 2)][v % 7]
    if k == "L":
        c = LEAF[0](int(x[1]) / TICK, tag=(None if int(x[2]) == 0 else f"t{x[2]}"), tempo=tempo(x[3]))
        for n, v in x[4]:
            # negative codes stand for non-numeric parameter values (a rest's pitch None, a string, a tuple, a float, and
            # values that happen to be callable: an envelope shape given as a function, a class)
            setattr(c, f"p{n}", {-1: None, -2: "s", -3: (1, 2), -4: 0.5, -5: math.sin, -6: math.cos, -7: int, -8: float("nan")}.get(int(v), int(v)))
        return c
    cls = ce.Consecution if k == "S" else ce.Concurrence
    return cls([build(c) for c in x[3:]], tag=(None if int(x[1]) == 0 else f"t{x[1]}"), tempo=tempo(x[2]))


def b(v):
    if v is True:
        return "1"
    if v is False:
        return "0"
    return "notbool:" + type(v).__name__


def run(case):
    if case[0] == "eq":
        # every third pair (decided by the case text) is built from the user leaf class, both sides alike
        LEAF[0] = Note if sum(map(ord, sx.show(case))) % 3 == 1 else ce.Chronon
        try:
            x = build(case[1])
            y = list(x) if case[2] == ["N", "100"] and isinstance(x, list) else build(case[2])
            out = ["ok", b(x == y), b(y == x), b(x != y), b(y != x)]
            flags = []
            for o in (x, y):
                if isinstance(o, ce.abc.Event):
                    if not (o == o):
                        flags.append("not-reflexive")
                    c = o.copy()
                    if not (c == o and o == c) or (c != o):
                        flags.append("copy-unequal")
                    if not isinstance(o, ce.Chronon):
                        d = o.destructive_copy()
                        if not (d == o):
                            flags.append("destructive-copy-unequal")
                    # a copy that gets a NEW parameter on one of its leaves after the comparisons above differs from its source
                    c2 = o.copy()
                    lf = c2
                    while not isinstance(lf, ce.Chronon) and len(lf):
                        lf = lf[0]
                    if isinstance(lf, ce.Chronon):
                        lf.added_later = 1
                        if c2 == o or o == c2 or not (c2 != o):
                            flags.append("copy-with-a-new-parameter-still-equal")
                    # a copy whose tempo trajectory is edited IN PLACE at time 0 differs in its tempo: it must compare
                    # unequal (the comparisons above have already read the tempo of `o` and of its copy)
                    if isinstance(c.tempo, cp.FlexTempo) and len(c.tempo) > 0:
                        c.tempo[0].tempo = cp.DirectTempo(c.tempo[0].tempo.bpm + 30)
                        if c == o or o == c or not (c != o):
                            flags.append("copy-with-edited-first-tempo-point-still-equal")
            if flags:
                out.append(["flags"] + sorted(set(flags)))
            return out
        except Exception as e:  # noqa
            return ["err", type(e).__name__]
    raise ValueError(case)


def main():
    for line in sys.stdin:
        line = line.strip()
        if not line:
            print()
            continue
        try:
            print(sx.show(run(sx.parse(line))))
        except Exception as e:
            print(sx.show(["runner-error", type(e).__name__, str(e).replace("(", "[").replace(")", "]").replace(" ", "_")[:200]]))
        sys.stdout.flush()


if __name__ == "__main__":
    main()
